#!/bin/bash
# usage: tools/seedcheck.sh <seed-dir> <property-id> [tier]
# Applies <seed-dir>/patch.diff in a scratch worktree of /repo (never /repo itself), verifies the demo
# in both directions, runs the property's check against the patched tree, prints one summary line.
set -u
SD="$1"; PID="$2"; TIER="${3:-quick}"
WT=/tmp/seedcheck-$$
git -C /repo worktree add -q "$WT" HEAD || exit 9
cleanup(){ git -C /repo worktree remove --force "$WT" >/dev/null 2>&1; }
trap cleanup EXIT
cd "$WT"
PYTHONPATH="$WT/lib" timeout 300 /venv/bin/python "$SD/demo.py" >/dev/null 2>&1; D0=$?
if ! git apply "$SD/patch.diff" 2>/tmp/seedcheck-apply.err; then echo "SEED $SD property=$PID APPLY-FAILED $(head -c 200 /tmp/seedcheck-apply.err)"; exit 8; fi
PYTHONPATH="$WT/lib" /venv/bin/python -c "import sqlalchemy" 2>/dev/null || { echo "SEED $SD property=$PID IMPORT-FAILED"; exit 7; }
PYTHONPATH="$WT/lib" timeout 300 /venv/bin/python "$SD/demo.py" >/dev/null 2>&1; D1=$?
cd /verif
OUT=$(VERIF_OUT_DIR=/tmp/seedcheck-out VERIF_REPO_LIB="$WT/lib" PYTHONPATH="$WT/lib" timeout 3000 ./vcheck "$PID" --tier "$TIER" 2>&1); RC=$?
NV=$(echo "$OUT" | grep -c "^VIOLATION")
FIRST=$(echo "$OUT" | grep "^VIOLATION" | head -1 | cut -c1-260)
echo "SEED $(basename $SD) property=$PID demo_clean=$D0 demo_patched=$D1 check_exit=$RC violations=$NV :: $FIRST"
[ "$RC" = "3" ] && echo "$OUT" | grep INCONCLUSIVE | head -3 | cut -c1-300
exit 0
