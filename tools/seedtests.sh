#!/bin/bash
# usage: tools/seedtests.sh <seed-dir>   -- runs the test directories covering the files a seed touches, in a scratch worktree
SD="$1"
WT=/tmp/seedtests-$$
git -C /repo worktree add -q "$WT" HEAD || exit 9
trap 'git -C /repo worktree remove --force "$WT" >/dev/null 2>&1' EXIT
cd "$WT"; git apply "$SD/patch.diff" || { echo "SEEDTESTS $(basename $SD) APPLY-FAILED"; exit 8; }
FILES=$(git diff --name-only)
DIRS=""
for f in $FILES; do
  case "$f" in
    lib/sqlalchemy/sql/*|lib/sqlalchemy/dialects/*) DIRS="$DIRS test/sql test/dialect";;
    lib/sqlalchemy/engine/*|lib/sqlalchemy/pool/*) DIRS="$DIRS test/engine test/sql/test_resultset.py test/base/test_result.py";;
    lib/sqlalchemy/orm/*|lib/sqlalchemy/ext/*) DIRS="$DIRS test/orm test/ext";;
    lib/sqlalchemy/util/*|lib/sqlalchemy/event/*) DIRS="$DIRS test/base test/sql/test_metadata.py test/orm/test_unitofwork.py";;
  esac
done
DIRS=$(echo $DIRS | tr ' ' '\n' | sort -u | tr '\n' ' ')
RES=$(PYTHONPATH="$WT/lib" timeout 3000 /venv/bin/python -m pytest $DIRS -q -p no:cacheprovider -n 6 --timeout=900 --deselect test/base/test_concurrency.py 2>&1 | tail -1)
echo "SEEDTESTS $(basename $SD) files=[$FILES] dirs=[$DIRS] :: $RES"
