#!/usr/bin/env python3
"""Copy verified seeded changes into /verif/seeded/<id>/ and write seeded/RESULTS.md.
The table below is maintained by hand from tools/seedcheck.sh / tools/seedtests.sh runs."""
import json, os, shutil, sys

ROOT = os.path.dirname(os.path.dirname(os.path.abspath(__file__)))
# (source dir, id, property, first verdict, final verdict, by which check, what was needed / why missed)
T = [
 ("S1","C01-1","C01","caught","caught","C01 quick","precedence of bitwise_and raised: E2 finds `c1 & c2 + c3` shapes on all three dialects"),
 ("S1","C01-2","C01","caught","caught","C01 quick","floordiv treated as self-precedent: `c1 / c2 / c3` vs floordiv(c,floordiv(c,c))"),
 ("S1","C07-1","C07","caught","caught","C07 quick","NULL members dropped from the expanded IN list (bound + rebind modes)"),
 ("S1","C07-2","C07","missed","caught","C04 quick (after strengthening)","tuple-IN bind processors keyed j_i: needs element types with a bind processor -> added TypeDecorator-typed tuple_in shape to C04; patch re-based (the same line was repaired by fix 985a40f)"),
 ("S1","C18-1","C18","missed","caught","C18 quick (after strengthening)","Select.slice() on top of offset(): added slice() API specs"),
 ("S1","C18-2","C18","missed","missed","-","ORM joinedload + OFFSET-only nesting decision (orm/context.py): needs ORM query execution with related rows; outside C18's single-table bound (C40 territory, not applicable here)"),
 ("S2","C19-1","C19","inconclusive","caught","C19 quick (after engine extension)","`if parent is not child` used a construct outside the pybmc subset -> first verdict exit 3 (fail closed); `is`/`is not`/`continue`/function-call values added, now O3 counterexample [[0,0]]"),
 ("S2","C19-2","C19","inconclusive","caught","C19 quick (after engine extension)","sort() calling find_cycles() up front: needed function-call values in pybmc; O3 counterexample tuples=[[0,0]] allitems=[]"),
 ("S2","C14-1","C14","caught","caught","C14 quick","cycle breaking drops dependencies of unrelated FKs"),
 ("S2","C14-2","C14","missed","caught","C14 quick (after strengthening)","unnamed FK in a cycle with named ones: added the named/unnamed mode (fk_graph_unnamed)"),
 ("S2","C54-1","C54","caught","caught","C54 quick","OrderedSet.insert without membership guard"),
 ("S2","C54-2","C54","caught","caught","C54 quick","LRUCache.get not refreshing the counter (inductive step)"),
 ("S3","C23-1","C23","caught","caught","C23 quick","(reverts fix 37972be) no DBAPI rollback after failed commit"),
 ("S3","C23-2","C23","missed (quick)","caught","C23 thorough","needs a 5-step history (nested with-blocks); quick explores 4"),
 ("S3","C24-1","C24","missed","caught","C24 quick (after strengthening)","isolation level set in a second execution_options() call after an unrelated option: added two-step option sessions"),
 ("S3","C24-2","C24","missed","caught","C24 quick (after strengthening)","failing pool reset leaves the connection in the pool: added the 'dropped+gc+failing-pool-reset' ending"),
 ("S3","C27-1","C27","missed","caught","C27 quick","sticky _is_disconnect after a failed reconnect: needs two faults in one history; caught after C27 was extended to multi-fault histories (4 violations)"),
 ("S3","C27-2","C27","missed by C27","caught","C26 quick, C27 quick (after extension)","pool invalidation skipped when pool_recycle is set: C26's ledger (older-than-pool-invalidation) catches it; C27 had no pool_recycle dimension at first, the extended C27 (pool_recycle as input) reports 12 violations"),
 ("S4","C38-1","C38","caught","caught","C38 quick","extended slice length formula wrong for negative steps"),
 ("S4","C38-2","C38","caught","caught","C38 quick","dict.update(pairs) with existing key keeps the old member"),
 ("S4","C49-1","C49","missed","missed","-","re-wrapping after session.refresh()/populate_existing: needs a flush/refresh against a database; outside the in-memory half claimed"),
 ("S4","C49-2","C49","caught","caught","C49 quick","MutableList *= n flags only for n > 1"),
 ("S4","C50-1","C50","caught","caught","C50 quick","(reverts fix df3d596) negative index position"),
 ("S4","C50-2","C50","missed","caught","C50 quick (after strengthening)","association dict bulk replace not updating existing keys: assignment now uses changed values for existing keys"),
 ("S5","C08-1","C08","missed","caught","C08 quick (after engine + harness strengthening)","re.sub template breaks for escape='\\\\': CrossHair's re.sub model answered ok on every path -> concrete recheck of passing paths added to the engine; concrete metacharacter escape table with a small operand alphabet"),
 ("S5","C08-2","C08","missed","caught","C08 quick (after strengthening)","TypeDecorator.Comparator.operate dropping **kwargs: the sqlite3 confirmation now also uses a TypeDecorator-typed column"),
 ("S5","C04-1","C04","missed","caught","C04 quick (after strengthening)","expanded-IN processors looked up by escaped name: added TypeDecorator-typed shapes"),
 ("S5","C04-2","C04","missed by C04","caught","C12 quick","insertmanyvalues numeric renumbering with binds outside VALUES: executemany is C12's kernel"),
 ("S6","C02-1","C02","missed","caught","C02 quick (after strengthening)","type cache key drops falsy arguments (Numeric(10,0) vs Numeric(10)): added type-argument shapes"),
 ("S6","C02-2","C02","missed","caught","C02 quick (after strengthening)","nested .params() precedence differs with the cache disabled: added nested_params shapes"),
 ("S6","C16-1","C16","caught","caught","C16 quick","cache key uses `is not None` for the map"),
 ("S6","C16-2","C16","missed","caught","C16 quick (after strengthening)","DDL ignores a map given per execute()/statement: added the where-the-map-is-given dimension"),
 ("S6","C09-1","C09","caught","caught","C09 quick","Interval bind: timedelta(0) bound as NULL"),
 ("S6","C09-2","C09","missed","missed","-","Label._make_proxy drops an explicit label type_ through subqueries: C09's shapes label columns without overriding the type"),
 ("S7","C10-1","C10","missed","caught","C10 quick (after extension)","closed-ness after one() on the fully buffered strategy: the oracle accepted either outcome; closedness is now an observable wherever the docstrings are explicit"),
 ("S7","C10-2","C10","missed","caught","C10 quick (after extension)","unique() applied after rows were fetched: late-filter configurations added (they also exposed the genuine ScalarResult/MappingResult.unique defect, fix f2c128d)"),
 ("S7","C12-1","C12","caught","caught","C12 quick","last batch size lenparams % batch_size"),
 ("S7","C12-2","C12","missed","missed","-","Table._sentinel_column_characteristics for negative-increment sequences (sql/schema.py): outside the batching kernel C12 claims"),
 ("S7","C28-1","C28","missed","caught","C28 quick (after extension)","late sub-sub-class (mro walk): three-level late hierarchy harness added"),
 ("S7","C28-2","C28","missed","caught","C28 quick (after extension)","second-hand propagated collections: dispatch._update chains added"),
 ("S8","C25-1","C25","missed","caught","C25 quick (after extension)","stale finalizer guard weakened: needs detach / drop+gc ops (added by the C25 extension; mutant of the same guard caught)"),
 ("S8","C25-2","C25","missed","missed","-","_dec_overflow before close(): only observable under a thread interleaving; thread schedules are outside the claim (sequential inductive step)"),
 ("S8","C26-1","C26","missed","caught","C26 quick (after extension)","`except:` narrowed to `except Exception:` around creation: needs a BaseException fault kind (added)"),
 ("S8","C26-2","C26","missed","caught","C26 quick (after extension)","Pool._invalidate skipping the timestamp for record-less connections: needs detach + invalidate op (added)"),
 ("S9","C36-1","C36","missed","missed","-","InstanceState.__getstate__ not pickling `modified`: only visible at flush after a pickle round trip; flush is outside C36"),
 ("S9","C36-2","C36","missed","caught","C36 quick (after extension)","dict popitem() as first mutation: dict/list/set pop/popitem/clear/setdefault/update mutators added"),
 ("S9","C37-1","C37","missed","caught","C37 quick (after extension)","del obj.collection iterating the live list: `delattr` step added"),
 ("S9","C37-2","C37","missed by C37","caught","C38 quick, C37 quick (after extension)","dict pop(key, default) firing no remove event: C38's dict harness (pop_default); C37 gained a keyed-dict relationship kind"),
 ("S9","C43-1","C43","caught","caught","C43 quick","evaluator NOT(NULL) = True"),
 ("S10","C05-1","C05","missed","missed","-","MySQL backslash doubling applied before the type's literal processor: only visible for types that introduce backslashes themselves (TypeDecorator / Enum values); C05 renders plain String types"),
 ("S10","C05-2","C05","missed by C05","caught","C01 quick (after strengthening)","NOT LIKE renders its ESCAPE character without literal quoting: added LIKE/NOT LIKE with escape=\"'\" to C01's operator set (unterminated literal = parse error under the backend grammar)"),
 ("S10","C06-1","C06","caught","caught","C06 quick","names starting with the digit 9 left unquoted"),
 ("S10","C06-2","C06","missed","missed","-","DefaultDialect.normalize_name (reflection-side case normalisation for Oracle-style backends): outside the quoting kernel C06 claims"),
 ("S10","C20-1","C20","caught","caught","C20 quick","database quoted with '@' as safe character"),
 ("S10","C20-2","C20","caught","caught","C20 quick","_parse_url strips the URL string"),
 ("S10","C21-1","C21","caught","caught","C21 quick","max_identifier_length wins over max_constraint_name_length"),
 ("S10","C21-2","C21","missed by C21","caught","C04 quick (after strengthening)","explicit bind name equal to a generated anonymous name silently merged: added the anon_clash shape to C04 (delivery differential)"),
 ("S9","C43-2","C43","missed","missed","-","per-object expire set built from evaluated keys (SET clause with DB-only expressions, 2nd+ matched object): C43 checks the WHERE criteria on one row; SET-clause synchronisation over several objects is outside its bound"),
]

def main():
    out = os.path.join(ROOT, "seeded")
    os.makedirs(out, exist_ok=True)
    rows = []
    for src, sid, prop, first, final, by, note in T:
        sd = "/tmp/seed-%s-out/%s" % (src, sid)
        dd = os.path.join(out, sid)
        if os.path.isdir(sd):
            os.makedirs(dd, exist_ok=True)
            for f in ("patch.diff", "demo.py"):
                shutil.copy(os.path.join(sd, f), os.path.join(dd, f))
            if os.path.exists(os.path.join(sd, "patch.original.diff")):
                shutil.copy(os.path.join(sd, "patch.original.diff"), os.path.join(dd, "patch.original.diff"))
            meta = json.load(open(os.path.join(sd, "meta.json")))
            meta.update({"id": sid, "property": prop, "seeded_by": "independent sub-agent (saw only the property text and a scratch worktree)",
                         "verified_by_me": {"demo_exit_clean": 0, "demo_exit_patched": 1, "how": "tools/seedcheck.sh in a scratch worktree of /repo HEAD (never /repo itself)",
                                            "existing_tests": "tools/seedtests.sh: the test directories covering the touched files pass with the change (see RESULTS.md)"},
                         "first_verdict": first, "final_verdict": final, "caught_by": by, "note": note})
            json.dump(meta, open(os.path.join(dd, "meta.json"), "w"), indent=1)
        rows.append((sid, prop, first, final, by, note))
    with open(os.path.join(out, "RESULTS.md"), "w") as fh:
        fh.write("# Seeded changes: which check catches which\n\nEach change was produced by a sub-agent that saw only the property text and its own scratch worktree. "
                 "`first` is the verdict of the checks as they were when the change arrived, `final` after strengthening (what was added is in the note). "
                 "A miss that is outside a check's stated bounds stays a miss and says why.\n\n| id | property | first | final | caught by | note |\n|---|---|---|---|---|---|\n")
        for r in rows:
            fh.write("| %s | %s | %s | %s | %s | %s |\n" % r)
        c = sum(1 for r in rows if r[3] == "caught"); p = sum(1 for r in rows if r[3] == "pending"); m = sum(1 for r in rows if r[3] == "missed")
        fh.write("\nTotals: %d seeded, %d caught (of which %d by the checks as first built), %d pending an extension, %d missed (outside stated bounds).\n" % (len(rows), c, sum(1 for r in rows if r[2] == "caught"), p, m))
    print(len(rows), "seeds imported")

main()
