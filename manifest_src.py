"""Source of MANIFEST.json (run tools_gen_manifest.py)."""
import json, os

E1 = "symx"
E2 = "sqlsem"
E3 = "pybmc"
CHECKS = {
    "C02": dict(engine=E1, category="other",
        technique="solver-chosen execution histories (CrossHair + z3, exhaustive per slice) over a 27-shape Core+ORM statement corpus run on an Engine with a shared compiled cache and differentially on an Engine with the cache disabled, over a recording DBAPI; plus symbolic execution of cache-key generation and literal type resolution on symbolic ints",
        text="For every history of two executions (any statement of the corpus with any of 4 value sets, then any other) and every three-execution history within one shape, each execution reaches the DBAPI with exactly the SQL text and parameter values it has when the compiled cache is disabled -- so a cached compilation never delivers the values of the statement that populated the cache. For symbolic ints around each power-of-two boundary z3 decides that equal cache keys imply equal resolved bind types.",
        note="Trusted: recording DBAPI (no rows are returned, so result rows are outside), DefaultDialect(paramstyle='named'), the cache-disabled engine as reference. Injectivity of cache keys w.r.t. statement structure is only exercised on the corpus.",
        ref="DESIGN.md §4 C02"),
    "C04": dict(engine=E1, category="other",
        technique="(a) z3 enumeration of all collisions of the bind-name escaping table read from the compiler class, replayed through the public API on sqlite3; (b) solver-chosen bind-name assignments (CrossHair + z3, exhaustive per slice) over 12 statement shapes x 6 paramstyles executed on a real Engine with a recording DBAPI, differential against the literal_binds rendering",
        text="(b) For every paramstyle (qmark, format, numeric, numeric_dollar, named, pyformat), each of 12 statement shapes (select list, WHERE, repeated bind, CTE, scalar subquery+ORDER BY+LIMIT/OFFSET, HAVING, expanding IN, literal_execute, INSERT, UPDATE, text(), UNION) and every ordered assignment of 1-2 (thorough 3) bind names from a pool exercising every escape character, the statement and parameters the DBAPI receives, with each placeholder replaced by the value delivered for it, equal the literal_binds rendering -- on the first execution and on a cache-hitting re-execution with other values. (a) z3 finds every pair of characters the escaping maps together; each is executed on sqlite3.",
        note="Trusted: placeholder regexes and recording DBAPI in props/C04.py; DefaultDialect(paramstyle=...) stands for the driver dialects; literal_binds rendering as reference (an independent code path of the same compiler). Real drivers are outside.",
        ref="DESIGN.md §4 C04"),
    "C07": dict(
        engine=E2, category="translation_validation",
        technique="translation validation: compiled IN/NOT IN (literal, bound+post-compile expansion, cache re-bind path) re-parsed with the backend grammar; equality with the OR-of-equalities meaning under 3VL decided by z3 for all column values; sqlite3 replay",
        text="For value lists of length 0..4 with every NULL pattern (0..6 in thorough), duplicates and tuples of arity 2-3, in 18 boolean/CASE/comparison/IS contexts, on sqlite/postgresql/mysql, in three delivery modes (literal_binds, bound with expansion, compiled for another list length then re-bound via construct_params(extracted_parameters)), z3 proves the emitted predicate equals OR_i(x = v_i) (resp. its 3VL negation) for every column value incl. NULL, or yields a row; SQLite's empty-set sub-select is executed on sqlite3 for its rows; SQLite disagreements are replayed on sqlite3.",
        note="Trusted: vlib/sqlparse.py grammars, 3VL semantics in vlib/sqlsem.py, z3, sqlite3. PostgreSQL/MySQL: reference grammar only.",
        ref="DESIGN.md §4 C07"),
    "C09": dict(engine=E1, category="other",
        technique="symbolic execution of bind/result processor closures obtained via _cached_bind_processor/_cached_result_processor and from concretely compiled statements (CrossHair proxies + z3), path-exhaustive within bounds, concrete replay",
        text="result(bind(v)) == v, None passes through, and every TypeDecorator level (depth <=3, with_variant, type_coerce, cast, labels, subqueries, CTEs, unions, RETURNING) is applied exactly once and in order, for Boolean, Enum, Interval (epoch arithmetic incl. negative and range-boundary intervals), PickleType, sqlite DATETIME storage formats and the pure-Python engine/_processors_cy.py functions on sqlite/postgresql/mysql/default dialects. Bounded claim; the database is the identity between bind and result.",
        note="Trusted: CrossHair int/str models, z3, the identity-database stub. Hash lookups and C constructors realise values (bounded enumeration). DBAPIs, float/Decimal precision, JSON, ARRAY, Uuid, LargeBinary with a DBAPI wrapper are outside.",
        ref="DESIGN.md §4 C09"),
    "C10": dict(engine=E1, category="other",
        technique="symbolic execution of the real Result/CursorResult classes and cursor fetch strategies over symbolic operation histories, lazily decided row counts and values (CrossHair proxies + z3), path-exhaustive within bounds, concrete replay",
        text="Every history (<=2 calls; <=3 for the core configurations in the thorough tier) over fetchone/fetchmany(n)/all/first/one/one_or_none/scalar*/partitions(n)/next/iter/close on IteratorResult, ChunkedIteratorResult, FrozenResult, MergedResult with scalars/mappings/columns/unique/yield_per views, and on CursorResult with the default, buffered-row (symbolic max_row_buffer) and fully buffered strategies over a lazy fake DBAPI cursor, is decided against a plain-list model: rows once, in order, projected, de-duplicated, documented exceptions, buffer size never above max_row_buffer.",
        note="Trusted: CrossHair int/list models, z3, the list model and fake cursor in props/C10.py. After first()/one()/scalar*() either ResourceClosedError or the empty outcome is accepted; fetchmany() default size without yield_per is only checked as a non-empty prefix.",
        ref="DESIGN.md §4 C10"),
    "C12": dict(engine=E1, category="other",
        technique="symbolic execution of SQLCompiler._deliver_insertmanyvalues_batches and DefaultDialect._deliver_insertmanyvalues_batches on concretely compiled INSERTs (CrossHair proxies + z3) with symbolic batch_size, max_parameters, parameter-set count and RETURNING arrival order; path-exhaustive within bounds; concrete replay",
        text="For 41 (quick) / 86 (thorough) dialect x statement configurations (qmark, format, numeric, numeric_dollar, named, pyformat; implicit/explicit/composite sentinel, VALUES counter, parameters outside VALUES, DEFAULT VALUES, row-at-a-time downgrade, setinputsizes): the batches partition the parameter sets in order; each batch statement equals an independently rendered reference; every placeholder receives the right value; after the sentinel re-sort row i belongs to parameter set i for every arrival order of every batch.",
        note="Trusted: CrossHair/z3, the reference renderer and fake server in props/C12.py (one RETURNING row per VALUES row; server keys increase in VALUES order). One local CrossHair shim (list slices with symbolic bounds are copies). Upsert, schema_translate_map, the ORM and real servers are outside.",
        ref="DESIGN.md §4 C12"),
    "C14": dict(engine=E1, category="other",
        technique="solver-chosen foreign-key graphs (CrossHair + z3, exhaustive over the bounded code space) driving the real MetaData.create_all/drop_all/sorted_tables through a mock engine; emitted DDL interpreted by a referenced-table-enforcing backend model; ordering kernel decided symbolically by C19's bounded model checking",
        text="For every FK graph over 2 tables with {no FK, FK, use_alter FK} per ordered pair incl. self references and every graph over 3 tables with {no FK, FK} (thorough: 3 tables with all three kinds = 19683 graphs, part of 4 tables), the DDL emitted by create_all creates every table and every constraint exactly once without ever referencing a table that does not exist yet, use_alter constraints are emitted as ALTER, drop_all removes everything without dropping a table that is still referenced, and sorted_tables lists referenced tables first for every acyclic dependency.",
        note="Trusted: DDL interpreter and regexes in props/C14.py (PostgreSQL-like immediate checking), postgresql DDL compiler output format. The code under test runs on concrete graphs chosen by the solver; the symbolic part of the claim is C19.",
        ref="DESIGN.md §4 C14"),
    "C16": dict(engine=E1, category="other",
        technique="solver-chosen histories of schema_translate_map executions (CrossHair + z3, exhaustive per slice) on a real Engine with a shared compiled cache over a recording DBAPI, differential against the same construct built with the translated schema names and compiled on a fresh engine",
        text="For 8 constructs (select, join, insert, update with scalar subquery, delete, CREATE TABLE, DROP TABLE, CREATE TABLE with FK) over tables in 10 schema assignments and every history (m1, m2, m1) over a pool of 16 maps (identity, swaps, None key, mapping to None, names needing quoting, brackets, a schema literally named _none) -- thorough: every (m1, m2, m3) -- each execution delivers exactly the SQL text of the construct whose tables carry the translated schema names, or is declined with the documented InvalidRequestError/CompileError when its documented condition holds.",
        note="Trusted: recording DBAPI, DefaultDialect (no default schema name), reference = fresh compilation of the construct with translated schemas. Effects on a real multi-schema database are outside.",
        ref="DESIGN.md §4 C16"),
    "C18": dict(
        engine=E2, category="translation_validation",
        technique="translation validation of the emitted SELECT structure: re-parsed (native clauses, TOP, ROW_NUMBER wrappers, ROWNUM nesting) and given a relational meaning over a bounded symbolic table; z3 decides multiset equality with the requested slice for all table contents and all limit/offset >= 0; sqlite3 replay where the syntax is accepted",
        text="For ordered selects (plain and DISTINCT; limit, offset, both; limit()/fetch() API; parameter, expression and zero operands; literal and bound) on 8 dialect configurations (default, sqlite, postgresql, mysql, mssql >=2012 and <2012, oracle 12c and 11g), z3 proves that the re-parsed emitted statement returns exactly the rows offset < position <= offset+limit of the ordered (distinct) result for every 3-row (thorough: 4-row) table and every non-negative limit/offset, or returns a table on which they differ.",
        note="Trusted: vlib/sqlselect.py/sqlparse.py structure grammar, relational semantics of ROW_NUMBER/ROWNUM/DISTINCT/slices in props/C18.py, z3. Only SQLite-compatible emitted forms are executed for confirmation; MSSQL/Oracle/MySQL/PostgreSQL native clauses are trusted to mean what their documentation says. NULL ordering, WITH TIES, PERCENT, joins and GROUP BY are outside.",
        ref="DESIGN.md §4 C18"),
    "C08": dict(engine=E1, category="other",
        technique="symbolic execution (CrossHair proxies + z3) of the real LIKE-operator functions on a symbolic operand string and escape character, decoded by a reference LIKE ESCAPE decoder; path-exhaustive; sqlite3 replay through the public API",
        text="For every operand string of length <=3 (thorough 4) over all of unicode and every escape character (default, %, _, /, arbitrary) the pattern produced by startswith/endswith/contains (+ i-/not_ variants) with autoescape=True is a well-formed LIKE pattern without live wildcards that decodes to exactly the operand; hence the rendered `x LIKE '%'||p||'%' ESCAPE e` matches exactly when the Python substring/prefix/suffix test holds. Every path is decided by z3; counterexamples are re-run on sqlite3 with case_sensitive_like.",
        note="Trusted: reference decoder (standard ESCAPE semantics) in props/C08.py, CrossHair str model, z3. Case folding of the i-variants and non-SQLite LIKE dialects are outside.",
        ref="DESIGN.md §4 C08"),
    "C19": dict(
        engine=E3, category="model_checking",
        technique="bounded model checking: util/topological.py interpreted from its AST over symbolic graphs with merged control flow, one z3 (QF_BV/SAT) validity query per obligation, unwinding assertions, counterexamples replayed on the real functions",
        text="For every node-universe size N within the bound, every obligation (each item output exactly once; every dependency ordered; CircularDependencyError iff a cycle among the items; find_cycles = exactly the nodes on a cycle; independence from set iteration order; strict subset order of sort_as_subsets; loop-unwinding and list-capacity assertions) is a z3 validity query over all 2^(N^2) edge relations x 2^N item subsets. The encoding is regenerated from the file's current AST and fails closed on unknown constructs.",
        note="Trusted: vlib/pybmc.py interpreter (cross-validated against the real functions on concrete graphs at every run), z3, reference reachability (Floyd-Warshall over Bools). Items are 0..N-1 (distinct hashables up to renaming); set iteration is ascending or descending.",
        ref="DESIGN.md §4 C19"),
    "C01": dict(
        engine=E2, category="translation_validation",
        technique="translation validation: real compiler output re-parsed with the backend grammar, equivalence with the expression tree decided by z3 (3VL + NULL flags), sat models replayed on sqlite3",
        text="For every constructor tree of a bounded grammar (depth<=2 complete; depth-3 spines in thorough) x {sqlite, postgresql, mysql} x {literal_binds, bound parameters} the SQL emitted by the real compiler is parsed with the backend's operator-precedence grammar and z3 proves (unsat) that it denotes the same value as the intended tree for all column/parameter values and NULL patterns, or returns a row on which they differ; SQLite disagreements are confirmed by executing both texts on the linked sqlite3.",
        note="Trusted: reference grammars in vlib/sqlparse.py (hand-written from SQLite parse.y / PostgreSQL gram.y / MySQL sql_yacc.yy), value semantics in vlib/sqlsem.py, z3, sqlite3. PostgreSQL/MySQL verdicts rest on the reference grammar only (no server offline). `*`, `/`, `%`, `||`, LIKE, CAST are uninterpreted (position-sensitive).",
        ref="DESIGN.md §4 C01"),
    "C23": dict(engine=E1, category="other",
        technique="solver-decided operation histories (CrossHair proxies + z3, path-exhaustive within bounds) driving the real Engine/Connection/Transaction classes over a transactional fake DBAPI, compared with a nested-transaction reference model; concrete replay",
        text="Every history of <=4 (thorough: 5 over a reduced alphabet) steps of insert/begin/begin_nested/commit/rollback/close, operations on active, ended and stale handles, with-block enter/exit (normal/exception), close+reconnect, get_transaction and a failing DBAPI commit is decided: after each step in_transaction(), in_nested_transaction(), every handle's is_active, the rows committed on the server, the uncommitted rows and the open savepoints of the DBAPI connection equal the model, and operations on ended transactions raise without touching the DBAPI. Bounded claim; exhaustion per slice in evidence.",
        note="Trusted: fake DBAPI (standard SAVEPOINT semantics; savepoints as statements through exec_driver_sql), reference model in props/C23.py, CrossHair int/tuple models and z3. The history is chosen by the solver, then SQLAlchemy runs concretely on it (no symbolic value reaches the engine code). Out-of-order savepoint misuse is checked for rows only.",
        ref="DESIGN.md §4 C23"),
    "C24": dict(engine=E1, category="other",
        technique="solver-decided session histories (CrossHair + z3, path-exhaustive within bounds) over QueuePool/StaticPool/SingletonThreadPool/NullPool/AssertionPool x pool_reset_on_return in {rollback, commit, None} on a fake DBAPI whose connection state is inspected at every checkout; concrete replay",
        text="For every pool class and reset_on_return setting and every history of <=2 (thorough: 3) sessions (isolation level/AUTOCOMMIT option x shape of work left behind x ending: close, commit+close, exception in a with block, dropped+gc, invalidate, failed DBAPI commit+close) the DBAPI connection handed out next has no uncommitted rows, savepoints, open transaction or non-default isolation level/autocommit (for None only the isolation level), and rows a user did not commit are never committed later (rollback) / all-or-nothing (commit). Bounded claim.",
        note="Trusted: vlib/fakedb.py, model in props/C24.py, z3/CrossHair int models. gc is disabled during a history and run explicitly at 'dropped+gc'. SQLAlchemy code runs concretely after the solver fixed the history.",
        ref="DESIGN.md §4 C24"),
    "C27": dict(engine=E1, category="other",
        technique="solver-decided histories with a symbolic fault position/kind (CrossHair + z3, path-exhaustive within bounds) on the real Engine/Connection/QueuePool over a fake DBAPI with fault injection and handle_error listeners; concrete replay",
        text="For every history of <=4 (thorough: 5) steps of execute/begin/begin_nested/commit/rollback/savepoint commit/rollback, every position (cursor() or statement) of one DBAPI error, kind (disconnect / looks-like-disconnect / ordinary) and handle_error listener (none, passive, flips is_disconnect, clears invalidate_pool_on_disconnect): DBAPIError.connection_invalidated and Connection.invalidated are right, the DBAPI connection is closed, no DBAPI connection opened before the disconnect is ever handed out again, every further use raises InvalidRequestError/PendingRollbackError without reconnecting until rollback(), then the Connection works on a new DBAPI connection; ordinary errors leave connection and pool contents identical. Bounded claim.",
        note="Trusted: fake DBAPI extension in props/C27.py (savepoints as statements, 'softdisc' fault), pool clock stubbed to a strictly increasing counter (the code's own stated assumption), model in props/C27.py. One fault per history; pool reset faults belong to C26.",
        ref="DESIGN.md §4 C27"),
    "C38": dict(engine=E1, category="other", technique='differential execution of the real instrumented collections against builtin list/set/dict plus an append/remove event ledger; inputs are solver-chosen indices into bounded input tables (one z3-decided path per input, CrossHair driver), exhausted per slice, concrete replay',
        text="For every list/set/keyed-dict mutator and every argument tuple within the bounds (sizes<=3/4, indices and slice start/stop/step incl. None in -6..6, RHS kinds incl. iterators and the collection itself) the instrumented collection has the same contents, return value and exception type as the builtin, and the fired append/remove events equal the signed multiset difference of the contents. Bounded claim; exhaustion in evidence.",
        note="Trusted: builtin list/set/dict as reference; CrossHair/z3 only select the inputs (the code under test runs on concrete values because list/set/dict internals are C and realise any symbolic argument), reporting cap of 2 per defect key and slice. `*=` k>=1 events excluded (deliberate per source comment).",
        ref="DESIGN.md §4 C38"),
    "C49": dict(engine=E1, category="other", technique='differential execution of the real instrumented collections against builtin list/set/dict plus an append/remove event ledger; inputs are solver-chosen indices into bounded input tables (one z3-decided path per input, CrossHair driver), exhausted per slice, concrete replay',
        text="MutableList/Dict/Set via as_mutable(PickleType): for every mutator (overridden or inherited) with bounded arguments from every bounded initial content, and for 2-3-step histories interleaving mutators with replacement, None and a pickle round trip, contents equal the builtin and contents-changed implies the parent attribute is flagged modified. Bounded, in-memory.",
        note="Trusted: InstanceState.modified/committed_state/history as the observation of 'flagged'; transient parent, no flush. Code under test runs on concrete values chosen by the solver.",
        ref="DESIGN.md §4 C49"),
    "C50": dict(engine=E1, category="other", technique='differential execution of the real instrumented collections against builtin list/set/dict plus an append/remove event ledger; inputs are solver-chosen indices into bounded input tables (one z3-decided path per input, CrossHair driver), exhausted per slice, concrete replay',
        text="OrderingList (count_from 0/1/7, reorder_on_append on/off): after every list operation from every valid state of size<=3/4 and after every step of 2-3-op histories, contents equal a plain list and pos == count_from+index; association-proxy list/set/dict equal the builtin of proxied values (contents, return, exception type) with intermediaries created one-for-one. Bounded.",
        note="Trusted: as C38. Documented deviations excluded (see META.outside in props/C50.py). In-memory half only.",
        ref="DESIGN.md §4 C50"),
    "C54": dict(
        engine=E1, category="other",
        technique="symbolic execution of the real pure-Python collection classes (CrossHair proxies + z3), path-exhaustive within bounds, concrete replay",
        text="Every path of OrderedSet/IdentitySet/immutabledict operators and short mutator histories over symbolic elements (bounded sizes/values) is decided by z3 against list/dict reference models; LRUCache is decided as one inductive step from an arbitrary valid pre-state with symbolic recency counters. Bounded claim; exhaustion of each slice's path tree is reported in evidence.",
        note="Trusted: CrossHair's int/list models and z3; reference models in props/C54.py; oracle computations run natively on realised values. Pure-Python sources are analysed, not the compiled .so.",
        ref="DESIGN.md §4 C54"),
}

NOT_APPLICABLE = {}


def build():
    props = [json.loads(l) for l in open(os.path.join(os.path.dirname(os.path.abspath(__file__)), "properties.jsonl"))]
    ids = [p["id"] for p in props]
    checks = []
    for pid in ids:
        if pid not in CHECKS:
            continue
        c = CHECKS[pid]
        checks.append({
            "property_id": pid,
            "quick_cmd": "./vcheck %s --tier quick" % pid,
            "thorough_cmd": "./vcheck %s --tier thorough" % pid,
            "evidence_file": "evidence/%s.json" % pid,
            "replay_cmd_template": "./vcheck --replay {path}",
            "engine": c["engine"],
            "level_claimed": {"category": c["category"], "text": c["text"], "design_ref": c["ref"]},
            "level_note": c["note"],
            "technique": c["technique"],
        })
    na = [{"property_id": pid, "reason": NOT_APPLICABLE.get(pid, "no sound solver-based check built yet (see DESIGN.md §5/§7); not claimed")}
          for pid in ids if pid not in CHECKS]
    return {
        "version": 1,
        "setup_cmd": "./setup.sh",
        "hooks": {
            "guard": "SQLALCHEMY_VERIF",
            "enable": "no source hooks are needed: checks import /repo/lib directly (pure-Python *_cy modules via vlib/purepy.py); SQLALCHEMY_VERIF=1 is exported by ./vcheck for uniformity",
            "baseline_off_cmd": "cd /repo && /venv/bin/python -m pytest -ra -q -p no:cacheprovider --timeout=900 --continue-on-collection-errors",
            "source_commits": [],
            "add_only": True,
        },
        "engines": [
            {"name": "symx", "path": "vlib/symx.py", "serves_properties": [p for p, c in CHECKS.items() if c["engine"] == "symx"],
             "kind_free_text": "E1: CrossHair 0.0.110 symbolic proxies/tracer + z3, own path-exhaustive driver, concrete replay"},
            {"name": "sqlsem", "path": "vlib/sqlsem.py", "serves_properties": [p for p, c in CHECKS.items() if c["engine"] == "sqlsem"],
             "kind_free_text": "E2: translation validation of compiled SQL against the expression tree with z3 (3VL + ints), replay on sqlite3"},
            {"name": "pybmc", "path": "vlib/pybmc.py", "serves_properties": [p for p, c in CHECKS.items() if c["engine"] == "pybmc"],
             "kind_free_text": "E3: AST-driven bounded model checking with state merging (z3) for util/topological.py"},
        ],
        "checks": checks,
        "not_applicable": na,
        "notes": "Exit codes: 0 ok, 1 VIOLATION, 3 inconclusive/engine error. See DESIGN.md.",
    }
