"""C09 Type processors round-trip values and are applied exactly once (E1 symx, processor kernel only).

Everything here is obtained the way the engine obtains it -- ``type_._cached_bind_processor(dialect)``,
``type_._cached_result_processor(dialect, coltype)``, ``compiled._bind_processors`` and the types of
``compiled._result_columns`` of statements compiled *concretely at import* -- and then the processor closures
are run on symbolic values.  The "database" between bind and result is the identity (no DBAPI).
"""
from __future__ import annotations

import datetime as dt
import decimal
import enum
import re
import warnings
from typing import List, Optional

from vlib import framework
from vlib.framework import Harness
from vlib.symx import assume, concrete, native

from sqlalchemy import Boolean, Column, Enum, Integer, Interval, MetaData, PickleType, String, Table, TypeDecorator
from sqlalchemy import bindparam, cast, func, insert, literal, select, type_coerce, union
from sqlalchemy.dialects import mysql, postgresql, sqlite
from sqlalchemy.engine import _processors_cy as pcy
from sqlalchemy.engine import processors
from sqlalchemy.engine.default import DefaultDialect

PID = "C09"

DIALECTS = {"sqlite": sqlite.dialect(), "postgresql": postgresql.dialect(), "mysql": mysql.dialect(),
            "default": DefaultDialect()}
DNAMES = sorted(DIALECTS)


def _procs(type_, dname):
    d = DIALECTS[dname]
    return type_._cached_bind_processor(d), type_._cached_result_processor(d, None)


def _apply(proc, v):
    return v if proc is None else proc(v)


# ------------------------------------------------------------------------------------------
# engine/_processors_cy.py (pure-Python source)


def h_int_to_boolean(isnone: bool, v: int) -> bool:
    r = pcy.int_to_boolean(None if isnone else v)
    if isnone:
        return r is None
    # a bool, never the int itself; True exactly for non-zero
    return type(r) is bool and r == (v != 0)


INT_BASES = {"zero": 0, "million": 10 ** 6, "neg": -(10 ** 15), "max53": 2 ** 53 - 4, "min53": -(2 ** 53) + 4}


def h_to_str(kind: str, base: str, isnone: bool, dv: int, s: str) -> bool:
    if isnone:
        return pcy.to_str(None) is None
    if kind == "str":
        assume(len(s) <= 3)
        r = pcy.to_str(s)
        return type(r) is str and r == s
    assume(-3 <= dv <= 3)
    v = INT_BASES[base] + dv
    r = pcy.to_str(v)
    return isinstance(r, str) and int(r) == v


def h_to_float(base: str, isnone: bool, dv: int) -> bool:
    if isnone:
        return pcy.to_float(None) is None
    assume(-3 <= dv <= 3)
    v = concrete(INT_BASES[base] + dv)  # |v| < 2**53: exactly representable
    r = pcy.to_float(v)
    return type(r) is float and r == v


def h_to_decimal(scale: int, base: str, isnone: bool, dv: int) -> bool:
    proc = pcy.to_decimal_processor_factory(decimal.Decimal, scale)
    if isnone:
        return proc(None) is None
    assume(-3 <= dv <= 3)
    v = concrete(INT_BASES[base] + dv)  # the format goes through float: integral |v| < 2**53 is exact
    r = proc(v)
    # exact for integral input, exponent = -scale
    return native(lambda r, v, scale: type(r) is decimal.Decimal and r == decimal.Decimal(v)
                  and r.as_tuple().exponent == -scale, r, v, scale)


# boundary components of dates and times (index-encoded so that the solver enumerates exactly these)
MONTH_DAY = [(1, 1), (2, 28), (12, 31), (6, 15)]
HMS = [(0, 0, 0), (23, 59, 59), (12, 0, 59), (0, 59, 0)]
MICROS = [0, 1, 999999]


def _components(md: int, hms: int, usi: int):
    assume(0 <= md < len(MONTH_DAY) and 0 <= hms < len(HMS) and 0 <= usi < len(MICROS))
    # indexing a concrete list with a symbolic index forks once per element
    return MONTH_DAY[md] + HMS[hms] + (MICROS[usi],)


def h_str_to_dt(which: str, year: int, isnone: bool, md: int, hms: int, usi: int) -> bool:
    fn = {"date": pcy.str_to_date, "time": pcy.str_to_time, "datetime": pcy.str_to_datetime}[which]
    if isnone:
        return fn(None) is None
    month, day, hour, minute, second, us = _components(md, hms, usi)
    if which == "date":
        s, exp = "%04d-%02d-%02d" % (year, month, day), dt.date(year, month, day)
    elif which == "time":
        s, exp = "%02d:%02d:%02d.%06d" % (hour, minute, second, us), dt.time(hour, minute, second, us)
    else:
        s = "%04d-%02d-%02d %02d:%02d:%02d.%06d" % (year, month, day, hour, minute, second, us)
        exp = dt.datetime(year, month, day, hour, minute, second, us)
    return fn(s) == exp


# sqlite storage-format path: bind renders through the storage format, result parses with a regexp
# (processors.str_to_datetime_processor_factory, pure Python)
SQLITE_DT = {
    "default": sqlite.DATETIME(),
    "trunc": sqlite.DATETIME(truncate_microseconds=True),
    "custom": sqlite.DATETIME(
        storage_format="%(year)04d/%(month)02d/%(day)02d %(hour)02d:%(minute)02d:%(second)02d.%(microsecond)06d",
        regexp=r"(\d+)/(\d+)/(\d+) (\d+):(\d+):(\d+)\.(\d+)"),
    "named": sqlite.DATETIME(
        storage_format="%(year)04d-%(month)02d-%(day)02dT%(hour)02d:%(minute)02d:%(second)02d",
        regexp=r"(?P<year>\d+)-(?P<month>\d+)-(?P<day>\d+)T(?P<hour>\d+):(?P<minute>\d+):(?P<second>\d+)"),
}
SQLITE_DT_PROCS = {k: _procs(t, "sqlite") for k, t in SQLITE_DT.items()}


def h_sqlite_datetime(fmt: str, year: int, isnone: bool, md: int, hms: int, usi: int) -> bool:
    bind, result = SQLITE_DT_PROCS[fmt]
    if isnone:
        return bind(None) is None and result(None) is None
    month, day, hour, minute, second, us = _components(md, hms, usi)
    v = dt.datetime(year, month, day, hour, minute, second, us)
    exp = v.replace(microsecond=0) if fmt in ("trunc", "named") else v
    return result(bind(v)) == exp


# ------------------------------------------------------------------------------------------
# Boolean

BOOL_PROCS = {dn: _procs(Boolean(), dn) for dn in DNAMES}
BOOL_T = Boolean()


def h_boolean(dname: str, kind: str, b: bool, i: int) -> bool:
    bind, result = BOOL_PROCS[dname]
    native_bool = DIALECTS[dname].supports_native_boolean
    if kind == "none":
        return bind(None) is None and _apply(result, None) is None
    if kind == "bool":
        db = bind(b)
        if type(db) is not (bool if native_bool else int) or db != b:
            return False
        r = _apply(result, db)
        return type(r) is bool and r == b
    if kind == "int":
        assume(-3 <= i <= 3)
        try:
            db = bind(i)
        except ValueError:
            return i not in (0, 1)  # "Value %r is not None, True, or False"
        if i not in (0, 1):
            return False
        r = _apply(result, db)
        return type(r) is bool and r == (i == 1)
    # non-integers are a TypeError
    try:
        bind("yes")
    except TypeError:
        return True
    return False


def h_strict_as_bool(isnone: bool, i: int) -> bool:
    if isnone:
        return BOOL_T._strict_as_bool(None) is None
    assume(-3 <= i <= 3)
    try:
        r = BOOL_T._strict_as_bool(i)
    except ValueError:
        return i not in (0, 1)
    return i in (0, 1) and r == i


# ------------------------------------------------------------------------------------------
# Enum


class Color(enum.Enum):
    RED = 1
    GREEN = 2
    BLUE = 3
    CRIMSON = 1  # alias of RED


def _lower_values(cls):
    return [m.name.lower() for m in cls]


ENUMS = {
    "pyenum": Enum(Color),
    "pyenum_nonnative": Enum(Color, native_enum=False),
    "pyenum_values_callable": Enum(Color, values_callable=_lower_values),
    "pyenum_no_alias_omit": Enum(Color, omit_aliases=False),
    "str": Enum("a", "b", "c", name="e"),
    "str_validate": Enum("a", "b", "c", name="e", validate_strings=True),
    "str_nonnative_validate": Enum("a", "b", "c", native_enum=False, validate_strings=True),
}
ENUM_PROCS = {(k, dn): _procs(t, dn) for k, t in ENUMS.items() for dn in DNAMES}
MEMBERS = [Color.RED, Color.GREEN, Color.BLUE]
STRS = ["a", "b", "c", "zz", "", "RED", "A"]


def h_enum(ename: str, dname: str, kind: str, idx: int) -> bool:
    bind, result = ENUM_PROCS[(ename, dname)]
    t = ENUMS[ename]
    if kind == "none":
        return bind(None) is None and result(None) is None and t._db_value_for_elem(None) is None \
            and t._object_value_for_elem(None) is None
    if ename.startswith("pyenum"):
        if kind == "member":
            assume(0 <= idx < len(MEMBERS))
            m = MEMBERS[int(idx)]
            db = bind(m)
            exp_db = m.name.lower() if ename == "pyenum_values_callable" else m.name
            if db != exp_db or t._db_value_for_elem(m) != exp_db:
                return False
            return result(db) is m and t._object_value_for_elem(db) is m
        if kind == "name":
            # the persisted string itself is accepted on the bind side and maps to itself
            assume(0 <= idx < len(MEMBERS))
            m = MEMBERS[int(idx)]
            s = m.name.lower() if ename == "pyenum_values_callable" else m.name
            return bind(s) == s and result(bind(s)) is m
        # kind == "bad": not a member, not a string -> LookupError on bind; unknown string from the db -> LookupError
        try:
            bind(17)
            return False
        except LookupError:
            pass
        try:
            result("PURPLE")
            return False
        except LookupError:
            return True
    assume(0 <= idx < len(STRS))
    s = STRS[int(idx)]
    valid = s in ("a", "b", "c")
    if kind == "member":
        try:
            db = bind(s)
        except LookupError:
            return (not valid) and t.validate_strings
        if not valid:
            # "for unknown string values, we return as is" unless validate_strings
            if t.validate_strings or db != s:
                return False
            if dname == "mysql" and s == "":
                # documented in dialects/mysql/enumerated.py: MySQL stores any invalid value as the blank string,
                # which is returned as is
                return result(db) == ""
            try:
                result(db)
                return False
            except LookupError:
                return True
        return db == s and result(db) == s
    return True


# ------------------------------------------------------------------------------------------
# Interval (non-native: stored as epoch + timedelta) and PickleType

INTERVALS = {"default": Interval(), "nonnative": Interval(native=False)}
INTERVAL_PROCS = {(k, dn): _procs(t, dn) for k, t in INTERVALS.items() for dn in DNAMES}
EPOCH = dt.datetime(1970, 1, 1)
# day offsets whose neighbourhoods are explored: around zero, around the datetime range limits
DAY_BASES = {"zero": 0, "min": (dt.datetime.min - EPOCH).days, "max": (dt.datetime.max - EPOCH).days, "y1900": -25567,
             "y2038": 24855}


IV_DOMAINS = {
    False: ([-2, -1, 0, 1, 2], [0, 1, 43200, 86399], [0, 1, 500000, 999999]),
    True: (list(range(-6, 7)), [0, 1, 59, 60, 3599, 3600, 43199, 43200, 86398, 86399], [0, 1, 999, 1000, 499999, 500000, 999998, 999999]),
}


def h_interval(iname: str, dname: str, base: str, wide: bool, isnone: bool, dd: int, sec: int, us: int) -> bool:
    IV_DAYS, IV_SECONDS, IV_MICROS = IV_DOMAINS[wide]
    bind, result = INTERVAL_PROCS[(iname, dname)]
    if isnone:
        return _apply(bind, None) is None and _apply(result, None) is None
    assume(0 <= dd < len(IV_DAYS) and 0 <= sec < len(IV_SECONDS) and 0 <= us < len(IV_MICROS))
    # indexing a concrete list with a symbolic index forks once per element
    days, sec, us = DAY_BASES[base] + IV_DAYS[dd], IV_SECONDS[sec], IV_MICROS[us]
    td = dt.timedelta(days=days, seconds=sec, microseconds=us)
    try:
        EPOCH + td
    except OverflowError:
        return True  # outside datetime's range: not representable by the epoch scheme (outside)
    db = _apply(bind, td)
    native_iv = dname == "postgresql" and iname == "default"
    if native_iv:
        if db != td:
            return False
    elif dname == "sqlite":
        if not isinstance(db, str):  # rendered through the sqlite storage format
            return False
    elif db != EPOCH + td:
        return False
    r = _apply(result, db)
    return type(r) is dt.timedelta and r == td and (r.days, r.seconds, r.microseconds) == (td.days, td.seconds, td.microseconds)


PICKLES = {"default": PickleType(), "proto2": PickleType(protocol=2)}
PICKLE_PROCS = {(k, dn): _procs(t, dn) for k, t in PICKLES.items() for dn in DNAMES}


def h_pickle(pname: str, dname: str, kind: str, a: int, b: int) -> bool:
    bind, result = PICKLE_PROCS[(pname, dname)]
    if kind == "none":
        return bind(None) is None and result(None) is None
    assume(-2 <= a <= 2 and -2 <= b <= 2)
    a, b = concrete((a, b))
    v = {"int": a, "tuple": (a, b), "nested": (a, (b, None), "x"), "list": [a, b], "bigint": a + (b << 70)}[kind]
    db = bind(v)
    if not isinstance(db, bytes):
        return False
    r = result(db)
    return type(r) is type(v) and r == v


# ------------------------------------------------------------------------------------------
# TypeDecorator chaining: process_bind_param / process_result_value composed with the impl exactly once

LOG: List[str] = []


class _CountInt(TypeDecorator):
    cache_ok = True
    tag = "?"
    delta = 0

    def process_bind_param(self, value, dialect):
        LOG.append("b" + self.tag)
        return None if value is None else value + self.delta

    def process_result_value(self, value, dialect):
        LOG.append("r" + self.tag)
        return None if value is None else value - self.delta


class L1(_CountInt):
    impl = Integer
    tag, delta = "L1", 1000


class L2(_CountInt):
    impl = L1
    tag, delta = "L2", 100


class L3(_CountInt):
    impl = L2
    tag, delta = "L3", 10


class _CountStr(TypeDecorator):
    cache_ok = True
    tag = "?"

    def process_bind_param(self, value, dialect):
        LOG.append("b" + self.tag)
        return None if value is None else value + self.tag[-1]

    def process_result_value(self, value, dialect):
        LOG.append("r" + self.tag)
        return None if value is None else value[:-1]


class S1(_CountStr):
    impl = String
    tag = "S1"


class S2(_CountStr):
    impl = S1
    tag = "S2"


class B1(TypeDecorator):
    """decorator over a type that has processors of its own (Boolean: int coercion / int_to_boolean)"""
    impl = Boolean
    cache_ok = True

    def process_bind_param(self, value, dialect):
        LOG.append("bB1")
        return None if value is None else (value == 1)

    def process_result_value(self, value, dialect):
        LOG.append("rB1")
        return None if value is None else (1 if value else 2)


# name -> (type, {dialect name (or "*"): chain of decorator tags applied on bind, outermost first})
TYPES = {
    "L1": (L1(), {"*": ["L1"]}),
    "L2": (L2(), {"*": ["L2", "L1"]}),
    "L3": (L3(), {"*": ["L3", "L2", "L1"]}),
    "L1_variant_L2_sqlite": (L1().with_variant(L2(), "sqlite"), {"*": ["L1"], "sqlite": ["L2", "L1"]}),
    "L3_variant_Integer_pg": (L3().with_variant(Integer(), "postgresql"), {"*": ["L3", "L2", "L1"], "postgresql": []}),
    "Integer_variant_L2_mysql": (Integer().with_variant(L2(), "mysql"), {"*": [], "mysql": ["L2", "L1"]}),
    "L2_variant_L3_sqlite_L1_mysql": (L2().with_variant(L3(), "sqlite").with_variant(L1(), "mysql"),
                                      {"*": ["L2", "L1"], "sqlite": ["L3", "L2", "L1"], "mysql": ["L1"]}),
    "S1": (S1(), {"*": ["S1"]}),
    "S2": (S2(), {"*": ["S2", "S1"]}),
    "B1": (B1(), {"*": ["B1"]}),
}
DELTA = {"L1": 1000, "L2": 100, "L3": 10}

_md = MetaData()
TABLES = {}
for _tn, (_t, _) in TYPES.items():
    TABLES[_tn] = Table("t_" + _tn.lower(), _md, Column("id", Integer, primary_key=True), Column("c", _t), Column("plain", Integer))


def _shapes(tn):
    """statement shapes: where the bound value enters and where the column comes back"""
    t, _ = TYPES[tn]
    tbl = TABLES[tn]
    c = tbl.c.c
    sub = select(c.label("c2")).subquery()
    cte = select(c).cte("w")
    return {
        # name: (statement, bind key or None, index of the result column or None)
        "direct": (None, None, None),  # type_._cached_*_processor itself
        "bindparam_type": (select(bindparam("p", type_=t)), "p", 0),
        "type_coerce_param": (select(type_coerce(bindparam("p"), t)), "p", 0),
        "compare_to_column": (select(tbl.c.id).where(c == bindparam("p")), "p", None),
        "insert_values_returning": (insert(tbl).values(c=bindparam("p")).returning(c), "p", 0),
        "column": (select(c), None, 0),
        "label": (select(c.label("x")), None, 0),
        "subquery": (select(sub.c.c2), None, 0),
        "subquery_of_subquery": (select(select(sub.c.c2.label("c3")).subquery().c.c3), None, 0),
        "cte": (select(cte.c.c), None, 0),
        "union": (union(select(c), select(c)), None, 0),
        "union_subquery": (select(union(select(c), select(c)).subquery().c.c), None, 0),
        "scalar_subquery": (select(select(c).scalar_subquery().label("s")), None, 0),
        "type_coerce_column": (select(type_coerce(tbl.c.plain, t)), None, 0),
        "cast_column": (select(cast(tbl.c.plain, t)), None, 0),
        "func_max": (select(func.max(c)), None, 0),
        "second_of_two": (select(tbl.c.id, c), None, 1),
    }


SHAPES = sorted(_shapes("L1"))
PROCS = {}
for _tn in TYPES:
    for _sn, (_stmt, _bk, _ri) in _shapes(_tn).items():
        for _dn in DNAMES:
            _d = DIALECTS[_dn]
            if _stmt is None:
                PROCS[(_tn, _sn, _dn)] = _procs(TYPES[_tn][0], _dn)
                continue
            try:
                with warnings.catch_warnings():
                    warnings.simplefilter("ignore")  # "BOOL does not support CAST on MySQL": the CAST is skipped
                    _comp = _stmt.compile(dialect=_d)
            except Exception:  # noqa: BLE001 - e.g. RETURNING not supported by the dialect
                continue
            _b = _comp._bind_processors.get(_bk) if _bk else "n/a"
            if _bk and _bk not in _comp.binds:
                continue
            if _ri is None:
                _r = "n/a"
            else:
                _rc = _comp._result_columns[_ri]
                _r = _rc.type._cached_result_processor(_d, None)  # what context.get_result_processor() does
            PROCS[(_tn, _sn, _dn)] = (_b, _r)


def h_typedec(tname: str, si: int, di: int, isnone: bool, v: int, s: str) -> bool:
    # statement shape and dialect are symbolic indexes (one fork per entry): few slices, so that the framework's
    # per-slice cap on recorded counterexamples bounds the replay work if everything breaks at once
    assume(0 <= si < len(SHAPES) and 0 <= di < len(DNAMES))
    shape, dname = SHAPES[si], DNAMES[di]
    if (tname, shape, dname) not in PROCS:
        return True  # statement shape not supported by the dialect (no RETURNING)
    bind, result = PROCS[(tname, shape, dname)]
    chains = TYPES[tname][1]
    chain = chains.get(dname, chains["*"])
    if tname.startswith("S"):
        assume(len(s) <= 2)
        for ch in s:
            assume(ch == "a" or ch == "b")
        val = concrete(s)
    elif tname == "B1":
        assume(v in (1, 2))
        val = v
    else:
        val = v
    if isnone:
        val = None
    del LOG[:]
    db = val
    if bind != "n/a":
        db = _apply(bind, val)
        # every level exactly once, outermost first
        if LOG != ["b" + t for t in chain]:
            return False
        if val is None:
            if db is not None:
                return False
        elif tname.startswith("S"):
            if db != val + "".join(t[-1] for t in chain):
                return False
        elif tname == "B1":
            nb = DIALECTS[dname].supports_native_boolean
            if db != (val == 1) or type(db) is not (bool if nb else int):
                return False
        elif db != val + sum(DELTA[t] for t in chain):
            return False
    elif val is not None:
        # what the database holds for ``val``
        if tname.startswith("S"):
            db = val + "".join(t[-1] for t in chain)
        elif tname == "B1":
            db = (val == 1) if DIALECTS[dname].supports_native_boolean else int(val == 1)
        else:
            db = val + sum(DELTA[t] for t in chain)
    if result == "n/a":
        return True
    del LOG[:]
    r = _apply(result, db)
    if LOG != ["r" + t for t in reversed(chain)]:
        return False
    if val is None:
        return r is None
    return r == val


# ------------------------------------------------------------------------------------------

META = {
    "explanation": "Bind/result processor closures of Boolean, Enum, Interval (epoch arithmetic), PickleType, sqlite "
                   "DATETIME storage formats and counting TypeDecorators (nesting depth <=3, with_variant, type_coerce, cast, "
                   "labels, subqueries, CTEs, unions, RETURNING -- processors taken from concretely compiled statements "
                   "exactly as the execution context takes them) for the sqlite / postgresql / mysql / default dialects, and "
                   "the pure-Python engine/_processors_cy.py functions, run on symbolic values; oracle result(bind(v)) == v, "
                   "every TypeDecorator level applied exactly once and in order, None passes through.",
    "functions": [
        "engine._processors_cy.{int_to_boolean,to_str,to_float,to_decimal_processor_factory,str_to_date,str_to_time,str_to_datetime}",
        "engine.processors.str_to_datetime_processor_factory (sqlite DATETIME regexp path)",
        "sql.sqltypes.Boolean.{_strict_as_bool,bind_processor,result_processor}",
        "sql.sqltypes.Enum.{_setup_for_values,_db_value_for_elem,_object_value_for_elem,bind_processor,result_processor}",
        "sql.sqltypes.Interval.{bind_processor,result_processor}", "sql.sqltypes.PickleType.{bind_processor,result_processor}",
        "sql.type_api.TypeDecorator.{bind_processor,result_processor,_gen_dialect_impl}", "sql.type_api.TypeEngine.{with_variant,"
        "_cached_bind_processor,_cached_result_processor,dialect_impl}", "dialects.sqlite.base.DATETIME.{bind_processor,result_processor}",
        "sql.compiler.SQLCompiler._bind_processors / _result_columns type propagation (concrete, at import)",
    ],
    "bounds": {
        "quick": {"ints": "unbounded where only arithmetic/branching is involved (int_to_boolean, to_float within 2^53, "
                          "TypeDecorator payloads); -3..3 where hashed (Boolean, Pickle)", "strings": "len <= 3 (to_str), <= 2 (decorators)",
                  "Interval": "days in base-2..base+2 for base in {0, datetime.min, datetime.max, 1900, 2038}; seconds in "
                              "{0,1,43200,86399}; microseconds in {0,1,500000,999999}; negative intervals included",
                  "Enum": "3 members + alias; strings a,b,c + 4 invalid", "TypeDecorator": "10 types x 17 statement shapes x 4 dialects"},
    },
    "outside": ["anything through a DBAPI (the database is modelled as the identity between bind and result)",
                "float / Decimal precision (non-integral input of to_decimal_processor_factory, Float asdecimal)",
                "JSON, ARRAY, Uuid, LargeBinary with a DBAPI Binary wrapper, Date/Time/DateTime on backends other than the "
                "sqlite storage-format path", "datetime.fromisoformat and pickle internals (C; values are realised)",
                "ORM loading, CursorResultMetaData (the processor per result column is taken from compiled._result_columns "
                "as DefaultExecutionContext.get_result_processor does)", "native Enum DDL, Enum sort_key_function",
                "Interval on Oracle; timedeltas whose epoch offset leaves datetime's range"],
    "stubs": ["database = identity function between bind processor output and result processor input"],
    "assumptions": ["hash-based lookups (Enum, Boolean._strict_bools) and C constructors (timedelta, Decimal, pickle) realise "
                    "symbolic values: the solver enumerates the bounded domain"],
}
META["bounds"]["thorough"] = dict(META["bounds"]["quick"])
META["bounds"]["thorough"]["Interval"] = ("days in base-6..base+6 for the same bases; 10 second values and 8 microsecond values around "
                                          "0, the minute/hour/half-day/day boundaries")


def harnesses(tier: str) -> List[Harness]:
    q = tier == "quick"
    hs: List[Harness] = []
    hs.append(Harness("int_to_boolean", h_int_to_boolean, [dict()], budget_s=20))
    hs.append(Harness("to_str", h_to_str, [dict(kind="int", base=b, s="") for b in sorted(INT_BASES)] + [dict(kind="str", base="zero", dv=0)],
                      budget_s=60))
    hs.append(Harness("to_float", h_to_float, [dict(base=b) for b in sorted(INT_BASES)], budget_s=20))
    hs.append(Harness("to_decimal", h_to_decimal,
                      [dict(scale=sc, base=b) for sc in (0, 1, 2, 4, 10) for b in sorted(INT_BASES)], budget_s=30))
    years = (1, 1970, 2024, 9999)
    hs.append(Harness("str_to_dt", h_str_to_dt,
                      [dict(which="date", year=y, hms=0, usi=0) for y in years] + [dict(which="time", year=1, md=0)]
                      + [dict(which="datetime", year=y) for y in years], budget_s=60))
    hs.append(Harness("sqlite_datetime", h_sqlite_datetime,
                      [dict(fmt=f, year=y) for f in sorted(SQLITE_DT) for y in years], budget_s=60))
    hs.append(Harness("boolean", h_boolean,
                      [dict(dname=dn, kind=k, **fix) for dn in DNAMES
                       for k, fix in (("none", dict(b=False, i=0)), ("bool", dict(i=0)), ("int", dict(b=False)), ("str", dict(b=False, i=0)))],
                      budget_s=20))
    hs.append(Harness("strict_as_bool", h_strict_as_bool, [dict()], budget_s=20))
    hs.append(Harness("enum", h_enum,
                      [dict(ename=e, dname=dn, kind=k) for e in sorted(ENUMS) for dn in DNAMES
                       for k in (("none", "member", "name", "bad") if e.startswith("pyenum") else ("none", "member"))], budget_s=20))
    hs.append(Harness("interval", h_interval,
                      [dict(iname=i, dname=dn, base=b, wide=not q) for i in sorted(INTERVALS) for dn in DNAMES for b in sorted(DAY_BASES)],
                      budget_s=60 if q else 600))
    hs.append(Harness("pickle", h_pickle,
                      [dict(pname=p, dname=dn, kind=k) for p in sorted(PICKLES) for dn in (DNAMES if not q else ("sqlite", "default"))
                       for k in ("none", "int", "tuple", "nested", "list", "bigint")], budget_s=30))
    td = []
    for tn in sorted(TYPES):
        d = dict(tname=tn)
        if tn.startswith("S"):
            d["v"] = 0
        else:
            d["s"] = ""
        td.append(d)
    hs.append(Harness("typedecorator", h_typedec, td, budget_s=120))
    return hs


def classify(hname, args, rep):
    a = dict(args)
    fixed = {k: v for k, v in sorted(a.items()) if isinstance(v, str) and k not in ("s",)}
    if hname == "typedecorator":
        shape, dname = SHAPES[a["si"]], DNAMES[a["di"]]
        return ("C09:typedecorator:%s:%s:%s" % (a["tname"], shape, dname),
                "TypeDecorator %s via %s on %s: processing not applied exactly once / round trip broken for v=%r s=%r none=%s (%s)"
                % (a["tname"], shape, dname, a.get("v"), a.get("s"), a.get("isnone"), rep.get("exception")))
    return ("C09:%s:%s" % (hname, ":".join("%s=%s" % kv for kv in fixed.items())),
            "%s fails on %s (%s)" % (hname, a, rep.get("exception")))


def run(tier: str, seed: int):
    return framework.run_symx(PID, __name__, tier, seed, harnesses(tier), classify, META)
