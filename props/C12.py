"""C12 Bulk INSERT batching kernel: every parameter set exactly once, in order; sentinel re-sort (E1 symx).

INSERT statements are compiled *concretely* at import for a matrix of dialect variants x statement shapes.
Under the tracer only ``SQLCompiler._deliver_insertmanyvalues_batches`` (the batch generator) and
``DefaultDialect._deliver_insertmanyvalues_batches`` (fetch + sentinel re-sort) run, with a symbolic
``batch_size`` / ``insertmanyvalues_max_parameters`` / value offset, the number of parameter sets per slice,
and -- for the re-sort -- a symbolic arrival order of every batch's RETURNING rows.
"""
from __future__ import annotations

import re
from typing import List, Optional

from vlib import framework
from vlib.framework import Harness
from vlib.symx import assume, concrete, native

from sqlalchemy import Column, Integer, MetaData, Table, insert, insert_sentinel
from sqlalchemy.dialects import mssql, mysql, postgresql, sqlite
from sqlalchemy.engine.default import DefaultDialect
from sqlalchemy.sql.compiler import InsertmanyvaluesSentinelOpts as _Opts

PID = "C12"

# ------------------------------------------------------------------------------------------
# concrete compilation matrix (import time; nothing here runs under the tracer)

_md = MetaData()
T = Table("t", _md, Column("id", Integer, primary_key=True), Column("x", Integer), Column("y", Integer))
TS = Table("ts", _md, Column("id", Integer, primary_key=True), Column("x", Integer), Column("y", Integer),
           insert_sentinel("sent"))
TC = Table("tc", _md, Column("a", Integer, primary_key=True, autoincrement=False),
           Column("b", Integer, primary_key=True, autoincrement=False), Column("x", Integer))


def _dd(paramstyle, **kw):
    d = DefaultDialect(paramstyle=paramstyle)
    d.insert_returning = True
    d.use_insertmanyvalues = True
    d.use_insertmanyvalues_wo_returning = True
    d.supports_multivalues_insert = True
    d.insert_executemany_returning = True
    d.insert_executemany_returning_sort_by_parameter_order = True
    d.insertmanyvalues_implicit_sentinel = _Opts.ANY_AUTOINCREMENT
    for k, v in kw.items():
        setattr(d, k, v)
    return d


def _dialects():
    ds = {
        "sqlite": sqlite.dialect(),
        "postgresql": postgresql.dialect(),
        "mssql": mssql.dialect(),
        "mariadb": mysql.dialect(is_mariadb=True),
        "named": _dd("named"),
        "numeric": _dd("numeric"),
        "format": _dd("format"),
        "qmark": _dd("qmark"),
        "pyformat": _dd("pyformat"),
        "qmark_nomulti": _dd("qmark", supports_multivalues_insert=False),
    }
    # INSERT with no columns: DEFAULT metavalue (VALUES (DEFAULT), (DEFAULT)) vs DEFAULT VALUES (row at a time)
    for k in list(ds):
        if isinstance(ds[k], DefaultDialect) and type(ds[k]) is DefaultDialect:
            ds[k].supports_default_values = True
            ds[k].supports_default_metavalue = k in ("named", "numeric", "pyformat")
    for name, mod in (("asyncpg", "asyncpg"), ("psycopg", "psycopg")):
        try:
            ds[name] = getattr(postgresql, mod).dialect()
        except Exception:  # noqa: BLE001 - optional driver modules
            pass
    try:
        ds["mssql_pyodbc"] = mssql.pyodbc.dialect()
    except Exception:  # noqa: BLE001
        pass
    return ds


DIALECTS = _dialects()

STMTS = {
    # name: (statement, column keys of a parameter set)
    "noret": (insert(T), ["x", "y"]),
    "ret": (insert(T).returning(T.c.id), ["x", "y"]),
    "sorted": (insert(T).returning(T.c.id, sort_by_parameter_order=True), ["x", "y"]),
    "sorted_extra": (insert(T).returning(T.c.id, (T.c.x + 5).label("z"), sort_by_parameter_order=True), ["x", "y"]),
    "ret_extra": (insert(T).returning(T.c.id, (T.c.x + 5).label("z")), ["x", "y"]),
    "sent": (insert(TS).returning(TS.c.id, sort_by_parameter_order=True), ["x", "y"]),
    "comp": (insert(TC).returning(TC.c.x, sort_by_parameter_order=True), ["a", "b", "x"]),
    "default_ret": (insert(T).returning(T.c.id), []),
    "default_sorted": (insert(T).returning(T.c.id, sort_by_parameter_order=True), []),
}


class Cfg:
    def __init__(self, dname, sname):
        self.name = "%s/%s" % (dname, sname)
        self.dialect = DIALECTS[dname]
        stmt, self.colkeys = STMTS[sname]
        self.compiled = c = stmt.compile(dialect=self.dialect, column_keys=self.colkeys, for_executemany=True)
        self.imv = imv = c._insertmanyvalues
        if imv is None:
            return
        self.statement = c.string
        self.positional = c.positional
        self.positiontup = list(c.positiontup) if c.positional else None
        self.numeric = bool(c._numeric_binds)
        self.numchar = c._numeric_binds_identifier_char if self.numeric else None
        self.bindkeys = list(c.bind_names.values())
        self.values_keys = []
        for _, _, _, keys in imv.insert_crud_params:
            for k in keys:
                if k not in self.values_keys:
                    self.values_keys.append(k)
        self.extra_keys = [k for k in self.bindkeys if k not in self.values_keys]
        self.returning = bool(c.effective_returning)
        self.single = imv.single_values_expr
        # placeholder token syntax of this paramstyle
        ps = self.dialect.paramstyle
        self.tok = {"qmark": r"\?", "format": r"%s", "numeric": r":(\d+)", "numeric_dollar": r"\$(\d+)",
                    "named": r":(\w+)", "pyformat": r"%\((\w+)\)s"}[ps]
        self.paramstyle = ps
        self.per = len(re.findall(self.tok, self.single))
        self.outside = len(re.findall(self.tok, self.statement)) - self.per
        # granularity of the max_parameters limit: one unit per VALUES element (an element without a bound
        # parameter, e.g. DEFAULT, still counts as one)
        self.per_unit = max(len(imv.insert_crud_params), self.per, 1)


# quick tier: one representative per code path (paramstyle x sentinel kind x VALUES counter x extra parameters
# x row-at-a-time reasons); the thorough tier runs the whole matrix
QUICK = {
    "sqlite": ("ret", "sorted", "sorted_extra", "sent", "comp", "default_ret"),
    "postgresql": ("ret", "sorted", "sorted_extra", "sent", "comp", "default_sorted"),
    "asyncpg": ("ret", "sorted", "sorted_extra", "ret_extra", "sent", "comp", "default_ret"),
    "mssql": ("noret", "ret", "sorted", "sent", "default_ret"),
    "mssql_pyodbc": ("noret", "sorted", "sorted_extra", "comp"),
    "mariadb": ("ret", "sorted", "sorted_extra", "sent"),
    "numeric": ("noret", "ret", "sorted_extra", "ret_extra", "comp", "default_sorted"),
    "qmark_nomulti": ("noret", "ret", "sorted"),
}

CFGS = {}
for _dn in DIALECTS:
    for _sn in STMTS:
        try:
            _c = Cfg(_dn, _sn)
        except Exception:  # noqa: BLE001 - combination not supported by the dialect (compile error)
            continue
        if _c.imv is not None:
            CFGS[_c.name] = _c


# ------------------------------------------------------------------------------------------
# inputs


def _mk_params(cfg: Cfg, n: int, v):
    """n parameter sets; value of column j of set i is v + 100*(i+1) + j (v symbolic: nothing may depend on
    the values); parameters outside VALUES (a literal in RETURNING) are equal in every set, as in a real
    executemany."""
    cps, ps = [], []
    for i in range(n):
        cp = {}
        for j, key in enumerate(cfg.bindkeys):
            cp[key] = (v + 100 * (i + 1) + j) if key in cfg.values_keys else (v + 7)
        cps.append(cp)
        if cfg.positional:
            ps.append(cfg.dialect.execute_sequence_format([cp[k] for k in cfg.positiontup]))
        else:
            ps.append(dict(cp))
    return cps, ps


# ------------------------------------------------------------------------------------------
# reference rendering (runs natively on concrete strings)


def _ref_statement(cfg: Cfg, nrows: int) -> str:
    """The statement a batch of ``nrows`` parameter sets has to be: the single VALUES group repeated, its
    placeholders renamed per row (named) / renumbered after the non-VALUES parameters (numeric), a literal
    row counter appended where the dialect embeds one."""
    imv = cfg.imv
    rows = []
    for j in range(nrows):
        if cfg.paramstyle in ("qmark", "format"):
            row = cfg.single
        elif cfg.numeric:
            counter = [0]

            def renum(m, j=j, counter=counter):
                k = cfg.outside + 1 + j * cfg.per + counter[0]
                counter[0] += 1
                return "%s%d" % (cfg.numchar, k)

            row = re.sub(cfg.tok, renum, cfg.single)
        elif cfg.paramstyle == "named":
            row = re.sub(cfg.tok, lambda m, j=j: ":%s__%d" % (m.group(1), j), cfg.single)
        else:
            row = re.sub(cfg.tok, lambda m, j=j: "%%(%s__%d)s" % (m.group(1), j), cfg.single)
        if imv.embed_values_counter:
            row += ", %d" % j
        rows.append("(%s)" % row)
    assert cfg.statement.count("(%s)" % cfg.single) == 1
    return cfg.statement.replace("(%s)" % cfg.single, ", ".join(rows))


def _tokens(cfg: Cfg, stmt: str):
    return [m.group(1) if m.groups() else None for m in re.finditer(cfg.tok, stmt)]


def _check_statement(cfgname: str, stmt: str, nrows: int, nparams: int, keys) -> bool:
    cfg = CFGS[cfgname]  # (looked up here: native() deep-realises its arguments)
    if stmt != _ref_statement(cfg, nrows):
        return False
    toks = _tokens(cfg, stmt)
    if len(toks) != nparams:
        return False
    if cfg.numeric:
        nums = [int(t) for t in toks]
        if sorted(nums) != list(range(1, nparams + 1)):  # pairwise distinct, dense
            return False
        vals = [k for k in nums if k > cfg.outside]
        if vals != sorted(vals):  # VALUES placeholders ascending in statement order
            return False
    elif not cfg.positional:
        if len(set(toks)) != len(toks) or set(toks) != set(keys):
            return False
    return True


def _stmt_order_values(cfg: Cfg, stmt: str, params):
    """value the database sees for each placeholder, in textual order"""
    toks = _tokens(cfg, stmt)
    if cfg.numeric:
        return [params[int(t) - 1] for t in toks]
    if cfg.positional:
        return [params[i] for i in range(len(toks))]
    return [params[t] for t in toks]


def _stmt_order_names(cfg: Cfg):
    toks = _tokens(cfg, cfg.statement)
    if cfg.numeric:
        return [cfg.positiontup[int(t) - 1] for t in toks]
    if cfg.positional:
        return list(cfg.positiontup)
    return toks


# ------------------------------------------------------------------------------------------
# engine shim (a fix to CrossHair's model of Python, not to the code under test)

_shimmed = [False]


def _shim() -> None:
    """``lst[a:b]`` with a symbolic bound on a real list is modelled by CrossHair as a lazy *view* of ``lst``;
    Python makes a copy.  The batch generator does ``batch = batches[0:n]; batches[0:n] = []`` -- with the
    view, ``batch`` silently changes (seen as bogus IndexErrors that do not replay).  Give the view a snapshot
    of the list, which is the Python semantics.  (Belongs in vlib/shims; kept here because vlib/ is frozen.)"""
    if _shimmed[0]:
        return
    import sys

    oi = sys.modules.get("crosshair.opcode_intercept")
    if oi is None:
        return
    orig = oi.SliceView

    def snapshot_view(container, start, stop):
        return orig(list(container) if type(container) is list else container, start, stop)

    oi.SliceView = snapshot_view
    _shimmed[0] = True


# ------------------------------------------------------------------------------------------
# harness 1: the compiler-level batch generator


def _pick_n(ni, nmax: int):
    """number of parameter sets from a symbolic index (indexing a concrete list forks once per entry)"""
    assume(1 <= ni <= nmax)
    return list(range(nmax + 1))[ni]


def h_batches(cfg: str, nmax: int, sis_all: bool, ni: int, sis: bool, bs: int, maxp: int, v: int) -> bool:
    _shim()
    n = _pick_n(ni, nmax)
    if sis and not sis_all:
        assume(n == 3 or n == nmax)
    c = CFGS[cfg]
    imv = c.imv
    assume(1 <= bs <= n + 2)
    assume(maxp == 0 or c.outside + c.per_unit <= maxp <= c.outside + c.per_unit * (n + 2))
    cps, ps = _mk_params(c, n, v)
    sis = sis and bool(c.values_keys)
    gsis = [(k, None, "T_" + k) for k in c.values_keys] if sis else None
    sort = imv.sort_by_parameter_order and c.returning
    saved = c.dialect.insertmanyvalues_max_parameters
    c.dialect.insertmanyvalues_max_parameters = maxp
    try:
        batches = list(c.compiled._deliver_insertmanyvalues_batches(c.statement, list(ps), list(cps), gsis, bs, sort, None))
    finally:
        c.dialect.insertmanyvalues_max_parameters = saved

    # who may be batched at all (documented: row at a time when deterministic order was requested and no
    # sentinel is available, when the backend has no multi-VALUES, or DEFAULT VALUES without DEFAULT metavalue)
    default_expr_rowwise = imv.is_default_expr and not c.dialect.supports_default_metavalue
    downgrade = (not default_expr_rowwise) and (
        not c.dialect.supports_multivalues_insert or (sort and imv.sentinel_columns is None))
    rowwise = default_expr_rowwise or downgrade
    if imv.sentinel_param_keys:
        sent = [tuple(cp[k] for k in imv.sentinel_param_keys) if len(imv.sentinel_param_keys) > 1
                else cp[imv.sentinel_param_keys[0]] for cp in cps]
    else:
        sent = None

    seen = 0
    for bi, b in enumerate(batches):
        size = len(b.batch)
        if size < 1 or b.current_batch_size != size or b.batchnum != bi + 1 or b.total_batches != len(batches):
            return False
        if b.rows_sorted != sort or b.is_downgraded != downgrade:
            return False
        # the batch is the next `size` parameter sets, in order
        for j in range(size):
            if seen + j >= n or not (b.batch[j] is ps[seen + j] or b.batch[j] == ps[seen + j]):
                return False
        exp_sent = [] if sent is None else sent[seen:seen + size]
        if list(b.sentinel_values) != exp_sent:
            return False
        if rowwise:
            if size != 1 or b.replaced_statement != c.statement:
                return False
            if not (b.replaced_parameters is ps[seen] or b.replaced_parameters == ps[seen]):
                return False
            if b.processed_setinputsizes is not gsis:
                return False
        else:
            # batch sizes: all equal except the last; never beyond batch_size nor max_parameters; maximal
            if bi < len(batches) - 1 and size != len(batches[0].batch):
                return False
            if size > bs or size > len(batches[0].batch):
                return False
            rp = b.replaced_parameters
            nparams = len(rp)
            if maxp and nparams > maxp:
                return False
            if bi == 0 and size < n and size < bs:
                # a smaller first batch is only justified by max_parameters: one more row would exceed it
                if not maxp or c.outside + c.per_unit * (size + 1) <= maxp:
                    return False
            keys = None if c.positional else list(rp.keys())
            if not native(_check_statement, cfg, b.replaced_statement, size, nparams, keys):
                return False
            # what the database sees, placeholder by placeholder in textual order
            names = _stmt_order_names(c)
            exp = []
            done_values = False
            for nm in names:
                if nm in c.values_keys:
                    if not done_values:
                        done_values = True
                        for j in range(size):
                            for nm2 in names:
                                if nm2 in c.values_keys:
                                    exp.append(cps[seen + j][nm2])
                else:
                    exp.append(cps[seen][nm])
            got = _stmt_order_values(c, concrete(b.replaced_statement), rp)
            if len(got) != len(exp):
                return False
            for g, e in zip(got, exp):
                if not (g is e or g == e):
                    return False
            if sis:
                exp_sis = [("%s_%d" % (k, idx), None, "T_" + k) for idx in range(size) for k in c.values_keys]
                if list(b.processed_setinputsizes) != exp_sis:
                    return False
            elif b.processed_setinputsizes is not None:
                return False
        seen += size
    return seen == n


# ------------------------------------------------------------------------------------------
# harness 2: dialect level -- fetch each batch's RETURNING rows in arbitrary order, re-sort by sentinel


class _Cursor:
    def __init__(self, ncols):
        self.description = tuple(("c%d" % i, None, None, None, None, None, None) for i in range(ncols))
        self.rows = []

    def fetchall(self):
        rows, self.rows = self.rows, []
        return rows


class _Context:
    def __init__(self, compiled, cps, page):
        self.compiled = compiled
        self.compiled_parameters = cps
        self.execution_options = {"insertmanyvalues_page_size": page}
        self._insertmanyvalues_rows = None

    def fetchall_for_returning(self, cursor):
        return cursor.fetchall()


def h_sentinel(cfg: str, nmax: int, ni: int, bs: int, k0: int, k1: int, k2: int, k3: int, k4: int, k5: int) -> bool:
    _shim()
    n = _pick_n(ni, nmax)
    c = CFGS[cfg]
    imv = c.imv
    assume(1 <= bs <= n + 1)
    prio = [k0, k1, k2, k3, k4, k5][:n]
    for k in prio:
        assume(0 <= k < 60)  # 60 = lcm(1..6): k % (j+1) reaches every insert position for every j
    cps, ps = _mk_params(c, n, 0)
    nsent = imv.num_sentinel_columns
    cur = _Cursor(1 + nsent)
    ctx = _Context(c.compiled, cps, bs)
    next_id = [5000]
    delivered = 0
    gen = c.dialect._deliver_insertmanyvalues_batches(None, cur, c.statement, list(ps), None, ctx)
    for b in gen:
        # the fake server: one RETURNING row per VALUES row: (echo of the row's first value, sentinel...);
        # server-generated keys are handed out in VALUES order (what the sentinel contract requires of the
        # backend), client-side sentinels are echoed; rows come back in an arbitrary order
        rows = []
        for j, p in enumerate(b.batch):
            gi = delivered + j
            cp = cps[gi]
            echo = cp[c.values_keys[0]] if c.values_keys else gi
            if not c.returning:
                continue
            if imv.sentinel_param_keys:
                s = tuple(cp[k] for k in imv.sentinel_param_keys)
            elif nsent:
                s = (next_id[0],)
                next_id[0] += 1
            else:
                s = ()
            # symbolic insertion position: the solver enumerates every arrival order of the batch's rows
            pos = prio[gi] % (len(rows) + 1)
            rows.insert(int(pos), (echo,) + s)
        delivered += len(b.batch)
        if c.returning:
            cur.rows = rows
    if delivered != n:
        return False
    res = ctx._insertmanyvalues_rows
    if not c.returning:
        return res is None
    if len(res) != n:
        return False
    ordered = imv.sort_by_parameter_order
    if ordered:
        # row i belongs to parameter set i
        for i in range(n):
            echo = cps[i][c.values_keys[0]] if c.values_keys else i
            if c.values_keys and res[i][0] != echo:
                return False
            if imv.sentinel_param_keys and tuple(res[i][1:]) != tuple(cps[i][k] for k in imv.sentinel_param_keys):
                return False
            if nsent and not imv.sentinel_param_keys and res[i][-1] != 5000 + i:
                return False
        return True
    # no order requested: every row exactly once
    got = sorted(r[0] for r in res)
    return got == sorted((cps[i][c.values_keys[0]] if c.values_keys else i) for i in range(n))


# ------------------------------------------------------------------------------------------

META = {
    "explanation": "SQLCompiler._deliver_insertmanyvalues_batches and DefaultDialect._deliver_insertmanyvalues_batches "
                   "executed on INSERT statements compiled concretely for %d dialect x statement configurations "
                   "(qmark / format / numeric / numeric_dollar / named / pyformat; with and without RETURNING, "
                   "sort_by_parameter_order, implicit / explicit / composite sentinel, VALUES counter, parameters "
                   "outside VALUES, DEFAULT VALUES, row-at-a-time downgrade, setinputsizes, max_parameters). Oracle: "
                   "the batches partition the parameter sets in order; each batch statement equals an independently "
                   "rendered reference; the value the database sees for every placeholder (textual order) is the "
                   "right one; after the sentinel re-sort row i belongs to parameter set i for every arrival order."
                   % len(CFGS),
    "functions": ["sql.compiler.SQLCompiler._deliver_insertmanyvalues_batches",
                  "engine.default.DefaultDialect._deliver_insertmanyvalues_batches",
                  "sql.compiler._InsertManyValuesBatch (all fields)"],
    "bounds": {},
    "outside": ["server behaviour (assumed: one RETURNING row per VALUES row; server-generated sentinel keys increase in "
                "VALUES order; client-side sentinels echoed)", "upsert clauses (C56), has_upsert_bound_parameters",
                "schema_translate_map rewriting of the VALUES clause", "ORM _emit_insert_statements / bulk persistence",
                "statement compilation itself (crud.py sentinel selection is taken from the compiled statement)",
                "Connection._exec_insertmany_context (events, logging, rowcount)", "escaped bind names",
                "result processors on sentinel columns (Integer has none)"],
    "stubs": ["DBAPI cursor: description + fetchall over rows produced by the harness' fake server",
              "ExecutionContext: object with compiled / compiled_parameters / execution_options / fetchall_for_returning"],
    "assumptions": ["parameter sets are built like DefaultExecutionContext._init_compiled does (tuple by positiontup / dict), "
                    "values are v + 100*(i+1) + j with v symbolic and unconstrained (harness 1)",
                    "slice bounds realise batch_size at the list-slice boundary: one path per effective batch size"],
}


# the thorough tier runs every statement shape on every dialect variant except three that compile to the same
# statements as another one in the matrix (psycopg = postgresql; pyformat ~ postgresql; format ~ mariadb)
THOROUGH_SKIP = ("psycopg", "pyformat", "format")


def _names(tier: str):
    if tier == "quick":
        return [nm for nm in sorted(CFGS) if nm.split("/")[1] in QUICK.get(nm.split("/")[0], ())]
    return [nm for nm in sorted(CFGS) if nm.split("/")[0] not in THOROUGH_SKIP]


def harnesses(tier: str) -> List[Harness]:
    q = tier == "quick"
    nmax = 6 if q else 10
    smax = 4 if q else 5
    names = _names(tier)
    META["bounds"][tier] = {"parameter sets": "1..%d" % nmax, "batch_size": "1..n+2 symbolic",
                            "insertmanyvalues_max_parameters": "off, or any value admitting 1..n+2 rows per batch (symbolic)",
                            "setinputsizes": "off; on for n in {3,%d}" % nmax, "configurations": names,
                            "sentinel re-sort": "n <= %d, every arrival order of every batch" % smax}
    s1 = [dict(cfg=nm, nmax=nmax, sis_all=False) for nm in names]
    s2 = [dict(cfg=nm, nmax=smax, k5=0, **({"k4": 0} if smax < 5 else {})) for nm in names]
    # (budgets are CPU seconds per slice and only a cap: a slice normally needs 15-40 s quick, 60-400 s thorough)
    return [Harness("batches", h_batches, s1, budget_s=240 if q else 2400, per_path_timeout=10 if q else 30),
            Harness("sentinel", h_sentinel, s2, budget_s=240 if q else 2400, per_path_timeout=10 if q else 30)]


def classify(hname, args, rep):
    a = dict(args)
    a["n"] = a["ni"]
    if hname == "batches":
        n, bs = a["n"], a["bs"]
        rel = "n<=batch_size" if n <= bs else ("n%batch_size==0" if n % bs == 0 else "n%batch_size!=0")
        return ("C12:batches:%s:%s:max_parameters=%s:setinputsizes=%s" % (a["cfg"], rel, "on" if a["maxp"] else "off", a["sis"]),
                "batch generator output for %s with %s parameter sets, batch_size=%s, max_parameters=%s violates the "
                "partition/placeholder oracle (%s)" % (a["cfg"], a["n"], a["bs"], a["maxp"], rep.get("exception")))
    prio = [a["k%d" % i] for i in range(a["n"])]
    return ("C12:sentinel:%s:%s" % (a["cfg"], "single-batch" if a["n"] <= a["bs"] else "multi-batch"),
            "sentinel re-sort for %s: %s parameter sets, batch_size=%s, arrival insert positions %s: row i is not parameter "
            "set i (%s)" % (a["cfg"], a["n"], a["bs"], prio, rep.get("exception")))


def run(tier: str, seed: int):
    return framework.run_symx(PID, __name__, tier, seed, harnesses(tier), classify, META)
