"""C54 Utility collections conform to their reference models (E1 symx)."""
from __future__ import annotations

from typing import List, Optional

from vlib import framework
from vlib.framework import Harness
from vlib.symx import assume, concrete, native

from sqlalchemy.util import _collections_cy as ccy
from sqlalchemy.util import _immutabledict_cy as icy
from sqlalchemy.util import _collections as coll

PID = "C54"

# ------------------------------------------------------------------------------------------
# OrderedSet: binary operators / in-place updates against an ordered-set reference model

BINOPS = [
    "union", "__or__", "__add__", "intersection", "__and__", "difference", "__sub__",
    "symmetric_difference", "__xor__",
    "update", "__ior__", "intersection_update", "__iand__", "difference_update", "__isub__",
    "symmetric_difference_update", "__ixor__",
]
ARGKINDS = ["set", "list", "iterator", "OrderedSet", "tuple", "dictkeys"]


def _mk_other(kind: str, b: List[int]):
    if kind == "set":
        return set(b)
    if kind == "list":
        return list(b)
    if kind == "iterator":
        return iter(list(b))
    if kind == "OrderedSet":
        return ccy.OrderedSet(list(b))
    if kind == "tuple":
        return tuple(b)
    if kind == "dictkeys":
        return dict.fromkeys(b).keys()
    raise AssertionError(kind)


def _uniq(seq):
    out = []
    for x in seq:
        if x not in out:
            out.append(x)
    return out


def _model_binop(op: str, a: List[int], b_iter_order: List[int]) -> List[int]:
    a = _uniq(a)
    b = _uniq(b_iter_order)
    if op in ("union", "__or__", "__add__", "update", "__ior__"):
        return a + [x for x in b if x not in a]
    if op in ("intersection", "__and__", "intersection_update", "__iand__"):
        return [x for x in a if x in b]
    if op in ("difference", "__sub__", "difference_update", "__isub__"):
        return [x for x in a if x not in b]
    return [x for x in a if x not in b] + [x for x in b if x not in a]


def _wf(os_, expect: List[int]) -> bool:
    lst = list(os_._list)
    if lst != expect:
        return False
    if [x for x in os_] != expect:
        return False
    if set.__len__(os_) != len(expect):
        return False
    for x in expect:
        if not set.__contains__(os_, x):
            return False
    return True


def h_orderedset_binop(op: str, kind: str, na: int, nb: int, hi: int, a: List[int], b: List[int]) -> bool:
    assume(len(a) <= na and len(b) <= nb)
    for x in a:
        assume(0 <= x <= hi)
    for x in b:
        assume(0 <= x <= hi)
    a = [int(x) for x in a]
    b = [int(x) for x in b]
    s = ccy.OrderedSet(list(a))
    other = _mk_other(kind, b)
    # the argument's own iteration order is part of the input
    b_order = list(_mk_other(kind, b))
    expect = _model_binop(op, a, b_order)
    inplace = op in ("update", "__ior__", "intersection_update", "__iand__", "difference_update",
                     "__isub__", "symmetric_difference_update", "__ixor__")
    ret = getattr(s, op)(other)
    if inplace:
        if op.startswith("__i") and ret is not s:
            return False
        return _wf(s, expect)
    if not isinstance(ret, ccy.OrderedSet):
        return False
    # receiver untouched
    return _wf(ret, expect) and _wf(s, _uniq(a))


# OrderedSet: element-level mutators as a short history
ELEMOPS = ["add", "remove", "discard", "pop", "insert", "clear", "copy", "getitem"]


def h_orderedset_history(op0: int, nops: int, ninit: int, init: List[int], ops: List[int], vals: List[int], poss: List[int]) -> bool:
    assume(len(init) <= ninit and len(ops) == nops and len(vals) == nops and len(poss) == nops)
    assume(ops[0] == op0)
    for x in init:
        assume(0 <= x <= 2)
    init = [int(x) for x in init]
    s = ccy.OrderedSet(list(init))
    m = _uniq(init)
    for i in range(len(ops)):
        op = ops[i]
        v = vals[i]
        p = poss[i]
        assume(0 <= op < len(ELEMOPS) and 0 <= v <= 2 and -3 <= p <= 3)
        op = int(op); v = int(v); p = int(p)
        name = ELEMOPS[op]
        if name == "add":
            s.add(v)
            if v not in m:
                m.append(v)
        elif name == "remove":
            try:
                s.remove(v)
                raised = False
            except KeyError:
                raised = True
            if raised != (v not in m):
                return False
            if not raised:
                m.remove(v)
        elif name == "discard":
            s.discard(v)
            if v in m:
                m.remove(v)
        elif name == "pop":
            try:
                got = s.pop()
                raised = False
            except KeyError:
                raised = True
            if raised != (len(m) == 0):
                return False
            if not raised and got != m.pop():
                return False
        elif name == "insert":
            s.insert(p, v)
            if v not in m:
                m.insert(p, v)
        elif name == "clear":
            s.clear()
            m = []
        elif name == "copy":
            c = s.copy()
            if not _wf(c, m) or c is s:
                return False
        elif name == "getitem":
            try:
                got = s[p]
                raised = False
            except IndexError:
                raised = True
            try:
                exp = m[p]
                mraised = False
            except IndexError:
                mraised = True
            if raised != mraised or (not raised and got != exp):
                return False
        if not _wf(s, m):
            return False
    return True


# ------------------------------------------------------------------------------------------
# IdentitySet against a model keyed by pool index


class _Eq:
    """All instances compare equal and hash alike: only identity tells them apart."""

    def __init__(self, i):
        self.i = i

    def __eq__(self, other):
        return isinstance(other, _Eq)

    def __hash__(self):
        return 7

    def __repr__(self):
        return "o%d" % self.i


ISOPS = [
    "union", "__or__", "update", "__ior__", "difference", "__sub__", "difference_update", "__isub__",
    "intersection", "__and__", "intersection_update", "__iand__",
    "symmetric_difference", "__xor__", "symmetric_difference_update", "__ixor__",
    "issubset", "__le__", "__lt__", "issuperset", "__ge__", "__gt__", "__eq__", "__ne__",
]


def _is_model(op: str, a: List[int], b: List[int]):
    a = _uniq(a); b = _uniq(b)
    base = op.strip("_")
    if base.startswith("i") and base not in ("intersection", "intersection_update", "issubset", "issuperset"):
        base = base[1:]
    if base in ("union", "or", "update"):
        return a + [x for x in b if x not in a]
    if base in ("difference", "sub", "difference_update"):
        return [x for x in a if x not in b]
    if base in ("intersection", "and", "intersection_update"):
        return [x for x in a if x in b]
    if base in ("symmetric_difference", "xor", "symmetric_difference_update"):
        return [x for x in a if x not in b] + [x for x in b if x not in a]
    sa, sb = set(a), set(b)
    return {
        "issubset": sa <= sb, "le": sa <= sb, "lt": sa < sb, "issuperset": sa >= sb,
        "ge": sa >= sb, "gt": sa > sb, "eq": sa == sb, "ne": sa != sb,
    }[base]


def h_identityset(op: str, otherkind: str, na: int, nb: int, hi: int, a: List[int], b: List[int]) -> bool:
    assume(len(a) <= na and len(b) <= nb)
    for x in a:
        assume(0 <= x <= hi)
    for x in b:
        assume(0 <= x <= hi)
    a = [int(x) for x in a]; b = [int(x) for x in b]
    pool = [_Eq(i) for i in range(4)]
    s = ccy.IdentitySet([pool[i] for i in a])
    if otherkind == "IdentitySet":
        other = ccy.IdentitySet([pool[i] for i in b])
    else:
        other = [pool[i] for i in b]
    expect = _is_model(op, a, b)
    ret = getattr(s, op)(other)
    if isinstance(expect, bool):
        return ret is expect or ret == expect
    inplace = op in ("update", "__ior__", "difference_update", "__isub__", "intersection_update",
                     "__iand__", "symmetric_difference_update", "__ixor__")
    tgt = s if inplace else ret
    if op.startswith("__i") and ret is not s:
        return False
    if not isinstance(tgt, ccy.IdentitySet):
        return False
    got = sorted(o.i for o in tgt)
    if got != sorted(expect) or len(tgt) != len(expect):
        return False
    for i in range(4):
        if (pool[i] in tgt) != (i in expect):
            return False
    if not inplace:
        if sorted(o.i for o in s) != sorted(_uniq(a)):
            return False
    return True


def h_identityset_history(op0: int, nops: int, ninit: int, init: List[int], ops: List[int], vals: List[int]) -> bool:
    assume(len(init) <= ninit and len(ops) == nops and len(vals) == nops)
    assume(ops[0] == op0)
    for x in init:
        assume(0 <= x <= 2)
    pool = [_Eq(i) for i in range(4)]
    init = [int(x) for x in init]
    s = ccy.IdentitySet([pool[i] for i in init])
    m = _uniq(init)
    names = ["add", "remove", "discard", "pop", "clear", "copy", "contains"]
    for k in range(len(ops)):
        op = ops[k]; v = vals[k]
        assume(0 <= op < len(names) and 0 <= v <= 2)
        op = int(op); v = int(v)
        n = names[op]
        if n == "add":
            s.add(pool[v])
            if v not in m:
                m.append(v)
        elif n == "remove":
            try:
                s.remove(pool[v]); raised = False
            except KeyError:
                raised = True
            if raised != (v not in m):
                return False
            if not raised:
                m.remove(v)
        elif n == "discard":
            s.discard(pool[v])
            if v in m:
                m.remove(v)
        elif n == "pop":
            try:
                got = s.pop(); raised = False
            except KeyError:
                raised = True
            if raised != (len(m) == 0):
                return False
            if not raised:
                if got.i not in m:
                    return False
                m.remove(got.i)
        elif n == "clear":
            s.clear(); m = []
        elif n == "copy":
            c = s.copy()
            if c is s or sorted(o.i for o in c) != sorted(m):
                return False
        elif n == "contains":
            if (pool[v] in s) != (v in m):
                return False
        if sorted(o.i for o in s) != sorted(m) or len(s) != len(m):
            return False
    return True


# ------------------------------------------------------------------------------------------
# immutabledict


def _mkdict(kind: int, keys: List[int], vals: List[int]):
    d = {}
    for i in range(len(keys)):
        d[keys[i]] = vals[i]
    if kind == 1:
        return icy.immutabledict(d)
    if kind == 2:
        return None
    return d


def _imm_model(meth, k0, v0, kinds, ks, vs):
    base = dict(zip(k0, v0))
    others = [None if kinds[i] == 2 else dict(zip(ks[i], vs[i])) for i in range(len(kinds))]
    if meth == "__ror__":
        m = dict(others[0])
        m.update(base)
        return list(m.items())
    m = dict(base)
    for o in others:
        if o:
            m.update(o)
    return list(m.items())


def _imm_check(ret, base, expect_items, base_items):
    if not isinstance(ret, icy.immutabledict):
        return False
    if list(dict.items(ret)) != expect_items:
        return False
    return list(dict.items(base)) == base_items  # receiver unchanged


def h_immutabledict_union(meth: str, nargs: int, kind1: int, kind2: int, hi: int, k0: List[int],
                          k1: List[int], k2: List[int]) -> bool:
    assume(len(k0) <= 2 and len(k1) <= (2 if nargs >= 1 else 0) and len(k2) <= (2 if nargs == 2 else 0))
    for x in k0 + k1 + k2:
        assume(0 <= x <= hi)
    # keys are realised: dict is a C hash container, every key is hashed anyway.  The value stored by
    # dict i is i, so "which argument wins" is observable for every key.
    k0, k1, k2 = concrete((k0, k1, k2))
    v0, v1, v2 = [0] * len(k0), [1] * len(k1), [2] * len(k2)
    kinds = [kind1, kind2][:nargs]
    ks = [k1, k2][:nargs]
    vs = [v1, v2][:nargs]
    base = icy.immutabledict(native(lambda: dict(zip(k0, v0))))
    others = [native(_mkdict, kinds[i], ks[i], vs[i]) for i in range(nargs)]
    if meth == "__or__":
        ret = base | others[0]
    elif meth == "__ror__":
        ret = others[0] | base
    else:
        ret = getattr(base, meth)(*others)
    expect = native(_imm_model, meth, k0, v0, kinds, ks, vs)
    base_items = native(lambda: list(dict(zip(k0, v0)).items()))
    return native(_imm_check, ret, base, expect, base_items)


MUTATORS = ["__setitem__", "__delitem__", "clear", "pop", "popitem", "setdefault", "update", "__ior__", "__setattr__"]


def h_immutabledict_readonly(mut: str, keys: List[int], k: int, v: int) -> bool:
    assume(len(keys) <= 2)
    for x in keys:
        assume(0 <= x <= 2)
    assume(0 <= k <= 2 and 0 <= v <= 3)
    plain = {int(x): int(x) + 10 for x in keys}
    d = icy.immutabledict(plain)
    try:
        if mut == "__setitem__":
            d[k] = v
        elif mut == "__delitem__":
            del d[k]
        elif mut == "clear":
            d.clear()
        elif mut == "pop":
            d.pop(k)
        elif mut == "popitem":
            d.popitem()
        elif mut == "setdefault":
            d.setdefault(k, v)
        elif mut == "update":
            d.update({k: v})
        elif mut == "__ior__":
            d |= {k: v}
        elif mut == "__setattr__":
            d.foo = v
        return False  # must raise
    except TypeError:
        pass
    return dict(d) == plain


# ------------------------------------------------------------------------------------------
# LRUCache: one step from an arbitrary valid pre-state (inductive step)


def h_lru_step(capacity: int, threshold: float, n: int, counters: List[int], op: str, key: int, extra: int) -> bool:
    assume(len(counters) == n)
    limit = capacity + capacity * threshold
    assume(n <= limit)  # representation invariant: size within threshold
    for c in counters:
        assume(1 <= c <= 40)
    for i in range(n):
        for j in range(i + 1, n):
            assume(counters[i] != counters[j])  # counters are unique (monotone counter)
    assume(0 <= key <= n)  # key n = a key not present
    assume(0 <= extra <= 3)
    cache = coll.LRUCache(capacity=capacity, threshold=threshold)
    top = 0
    for i in range(n):
        cache._data[i] = (i, 100 + i, [counters[i]])
        if counters[i] > top:
            top = counters[i]
    cache._counter = top + extra
    before = {i: counters[i] for i in range(n)}
    if op == "get":
        got = cache.get(key, -1)
        if key < n:
            if got != 100 + key:
                return False
            if cache._data[key][2][0] <= top:  # now the most recently used
                return False
        elif got != -1:
            return False
        return len(cache) == n
    if op == "getitem":
        try:
            got = cache[key]
        except KeyError:
            return key == n and len(cache) == n
        return key < n and got == 100 + key and cache._data[key][2][0] > top and len(cache) == n
    # set
    cache[key] = 555
    if len(cache) > limit:
        return False
    if cache.get(key) != 555:  # the entry just stored is retained
        return False
    newsize = n + (1 if key == n else 0)
    if newsize <= limit:
        # no pruning: nothing else may disappear
        if len(cache) != newsize:
            return False
        survivors = set(cache._data)
    else:
        survivors = set(cache._data)
        if len(survivors) != capacity:
            return False
        # the `capacity` most recently used keys survive
        others = sorted([i for i in range(n) if i != key], key=lambda i: -before[i])
        expect = set([key] + others[: capacity - 1])
        if survivors != expect:
            return False
    for i in survivors:
        if i != key and cache._data[i][1] != 100 + i:
            return False
    return True


# ------------------------------------------------------------------------------------------

META = {
    "explanation": "OrderedSet / IdentitySet / immutabledict / LRUCache from the pure-Python sources of "
                   "util/_collections_cy.py, util/_immutabledict_cy.py, util/_collections.py compared with "
                   "list/dict reference models on symbolic element values, argument kinds and op histories; "
                   "LRUCache as one inductive step from an arbitrary valid pre-state with symbolic recency counters.",
    "functions": [
        "util._collections_cy.OrderedSet.{__init__,add,remove,discard,pop,insert,clear,copy,__getitem__,union,__or__,__add__,"
        "update,__ior__,intersection,__and__,intersection_update,__iand__,difference,__sub__,difference_update,__isub__,"
        "symmetric_difference,__xor__,symmetric_difference_update,__ixor__}",
        "util._collections_cy.unique_list",
        "util._collections_cy.IdentitySet.{add,remove,discard,pop,clear,copy,__contains__,union,update,difference,"
        "intersection,symmetric_difference,*_update,operators,issubset,issuperset,comparisons}",
        "util._immutabledict_cy.immutabledict.{union,merge_with,_union_other,__or__,__ror__,mutators}",
        "util._collections.LRUCache.{get,__getitem__,__setitem__,_manage_size,_inc_counter}",
    ],
    "bounds": {
        "quick": {"elements": "ints 0..3", "set sizes": "<=3", "history length": "<=2", "argument kinds": ARGKINDS,
                  "LRU": "capacity 1..3, threshold in {0,.5,1}, pre-state <= limit entries, counters 1..40 symbolic"},
        "thorough": {"elements": "ints 0..2 (binary operators: second operand up to 3 elements)", "set sizes": "<=3", "history length": "<=3 (initial size <=1 at length 3)", "argument kinds": ARGKINDS,
                     "LRU": "capacity 1..4, threshold in {0,.5,1}, counters 1..40 symbolic"},
    },
    "outside": ["compiled (.so) variants of the same modules (see C55, not applicable)", "unhashable elements",
                "threads (LRUCache mutex contention)", "element values beyond 0..3 / sizes beyond the bound"],
    "stubs": [],
    "assumptions": ["LRUCache pre-state invariant: distinct recency counters, all <= _counter, size <= capacity*(1+threshold)",
                    "hash-based containers realise symbolic elements at the C boundary; the solver then enumerates the bounded domain per path"],
}


def harnesses(tier: str) -> List[Harness]:
    q = tier == "quick"
    hs: List[Harness] = []
    sz = dict(na=2, nb=2, hi=2) if q else dict(na=2, nb=3, hi=2)
    hs.append(Harness("orderedset_binop", h_orderedset_binop,
                      [dict(op=o, kind=k, **sz) for o in BINOPS for k in ARGKINDS
                       if not (o.startswith("__") and k in ("list", "iterator", "tuple", "dictkeys") and o != "__add__")],
                      budget_s=30 if q else 200))
    nops = 2 if q else 3
    hs.append(Harness("orderedset_history", h_orderedset_history,
                      [dict(op0=i, nops=n, ninit=(1 if (q or n == 3) else 2)) for i in range(len(ELEMOPS)) for n in range(1, nops + 1)],
                      budget_s=45 if q else 240))
    hs.append(Harness("identityset", h_identityset,
                      [dict(op=o, otherkind=k, **sz) for o in ISOPS for k in ("IdentitySet", "list")
                       if not (o.startswith("__") and k == "list")],
                      budget_s=30 if q else 200))
    hs.append(Harness("identityset_history", h_identityset_history,
                      [dict(op0=i, nops=n, ninit=(1 if (q or n == 3) else 2)) for i in range(7) for n in range(1, nops + 1)],
                      budget_s=45 if q else 240))
    hs.append(Harness("immutabledict_union", h_immutabledict_union,
                      [dict(meth=m, nargs=n, kind1=k1, kind2=k2, hi=(1 if q else 2)) for m in ("union", "merge_with", "__or__", "__ror__")
                       for n in (0, 1, 2) for k1 in (0, 1, 2) for k2 in ((0, 1, 2) if n == 2 else (0,))
                       if not (m in ("__or__", "__ror__") and n != 1) and not (m == "__or__" and k1 == 2)
                       and not (m == "__ror__" and k1 != 0) and not (n == 0 and k1 != 0)],
                      budget_s=30 if q else 300))
    hs.append(Harness("immutabledict_readonly", h_immutabledict_readonly, [dict(mut=m) for m in MUTATORS], budget_s=20))
    caps = (1, 2, 3) if q else (1, 2, 3, 4)
    lru = []
    for c in caps:
        for th in (0.0, 0.5, 1.0):
            for n in range(0, min(int(c + c * th), 5 if q else 6) + 1):
                for op in ("set", "get", "getitem"):
                    lru.append(dict(capacity=c, threshold=th, n=n, op=op))
    hs.append(Harness("lru_step", h_lru_step, lru, budget_s=30 if q else 300))
    return hs


def classify(hname, args, rep):
    if hname == "orderedset_binop":
        b = args["b"]
        dup = len(set(b)) != len(b)
        if args["op"] in ("symmetric_difference_update", "__ixor__") and dup and args["kind"] in ("list", "tuple", "iterator"):
            return ("C54:OrderedSet.symmetric_difference_update:other-has-duplicates",
                    "OrderedSet.%s(%s with duplicates) leaves duplicates in _list: a=%s b=%s" % (args["op"], args["kind"], args["a"], b))
        return ("C54:OrderedSet.%s:%s:%s" % (args["op"], args["kind"], "dup" if dup else "nodup"),
                "OrderedSet.%s(%s) disagrees with the ordered-set model: a=%s b=%s" % (args["op"], args["kind"], args["a"], b))
    if hname == "identityset":
        if args["op"] == "__ixor__":
            changed = sorted(set(_is_model("__ixor__", args["a"], args["b"]))) != sorted(set(args["a"]))
            if changed:
                return ("C54:IdentitySet.__ixor__:no-op", "IdentitySet ^= other leaves the receiver unchanged: a=%s b=%s" % (args["a"], args["b"]))
        return ("C54:IdentitySet.%s:%s" % (args["op"], args["otherkind"]),
                "IdentitySet.%s disagrees with the identity-set model: a=%s b=%s" % (args["op"], args["a"], args["b"]))
    return ("C54:%s:%s" % (hname, {k: v for k, v in sorted(args.items()) if isinstance(v, (str, float))}),
            "%s fails on %s (%s)" % (hname, args, rep.get("exception")))


def run(tier: str, seed: int):
    return framework.run_symx(PID, __name__, tier, seed, harnesses(tier), classify, META)
