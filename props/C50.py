"""C50 Ordering lists and association proxies behave as their collection types (in-memory half, E1 symx).

* ``ordering_list('pos', count_from=c)``: after every list operation ``elem.pos == c + index`` for every
  member and the contents equal a plain list subjected to the same operation (single step from every valid
  state, and short histories from the empty list).
* ``association_proxy`` list / set / dict flavours against the builtin of proxied values (contents, return
  value, exception type), with the intermediary objects created one-for-one.
"""
from __future__ import annotations

import functools
import json
import operator
import sys
from typing import List

from vlib import framework
from vlib.framework import Harness
from vlib.symx import assume

from sqlalchemy import Column, ForeignKey, Integer, String
from sqlalchemy.ext.associationproxy import association_proxy
from sqlalchemy.ext.orderinglist import ordering_list
from sqlalchemy.orm import attribute_keyed_dict, registry, relationship

PID = "C50"

# ------------------------------------------------------------------------------------------
# mappings (built once at import; no database, no SQL)

_reg = registry()
POOL = 8
STALE = 7  # pool member that already carries a (wrong) position: 99

# ordering-list configurations: name -> (count_from argument, effective offset, reorder_on_append)
OL_CFG = {"default": (None, 0, False), "from1": (1, 1, False), "from7_reorder": (7, 7, True)}


def _bullet_init(self, ix):
    self.ix = ix


def _mk_ol(name, count_from, roa):
    bullet = type("C50Bullet_" + name, (), dict(
        __tablename__="c50_bullet_" + name,
        id=Column(Integer, primary_key=True),
        sid=Column(ForeignKey("c50_slide_%s.id" % name)),
        pos=Column(Integer),
        __init__=_bullet_init,
        __repr__=lambda self: "b%d@%s" % (self.ix, self.pos),
    ))
    bullet = _reg.mapped(bullet)
    kw = {} if count_from is None else {"count_from": count_from}
    slide = type("C50Slide_" + name, (), dict(
        __tablename__="c50_slide_" + name,
        id=Column(Integer, primary_key=True),
        bullets=relationship(bullet, order_by=bullet.pos,
                             collection_class=ordering_list("pos", reorder_on_append=roa, **kw)),
    ))
    slide = _reg.mapped(slide)
    return slide, bullet


OL = {name: _mk_ol(name, cf, roa) for name, (cf, _off, roa) in OL_CFG.items()}

CREATED: List[object] = []  # intermediaries built by the association proxy creators during the operation


def _mk_assoc(cls, *a):
    o = cls(*a)
    CREATED.append(o)
    return o


@_reg.mapped
class C50Assoc:
    __tablename__ = "c50_assoc"
    id = Column(Integer, primary_key=True)
    uid = Column(ForeignKey("c50_user.id"))
    v = Column(Integer)

    def __init__(self, v):
        self.v = v


@_reg.mapped
class C50SetAssoc:
    __tablename__ = "c50_set_assoc"
    id = Column(Integer, primary_key=True)
    uid = Column(ForeignKey("c50_user.id"))
    v = Column(Integer)

    def __init__(self, v):
        self.v = v


@_reg.mapped
class C50DictAssoc:
    __tablename__ = "c50_dict_assoc"
    id = Column(Integer, primary_key=True)
    uid = Column(ForeignKey("c50_user.id"))
    k = Column(String)
    v = Column(Integer)

    def __init__(self, k, v):
        self.k = k
        self.v = v


@_reg.mapped
class C50User:
    __tablename__ = "c50_user"
    id = Column(Integer, primary_key=True)
    list_assocs = relationship(C50Assoc)
    set_assocs = relationship(C50SetAssoc, collection_class=set)
    dict_assocs = relationship(C50DictAssoc, collection_class=attribute_keyed_dict("k"))
    lvalues = association_proxy("list_assocs", "v", creator=lambda v: _mk_assoc(C50Assoc, v))
    svalues = association_proxy("set_assocs", "v", creator=lambda v: _mk_assoc(C50SetAssoc, v))
    dvalues = association_proxy("dict_assocs", "v", creator=lambda k, v: _mk_assoc(C50DictAssoc, k, v))


_reg.configure()


class _IdPool:
    """pool[i] == i: lets one op-applier drive both the real collection and the int model."""

    def __getitem__(self, i):
        return i


IDPOOL = _IdPool()


def _tracing():
    # (not vlib.symx._tracing: that imports CrossHair, which costs ~1 s in every forked replay child)
    m = sys.modules.get("crosshair.tracers")
    return bool(m is not None and m.is_tracing())


def native(fn, *args):
    """Run ``fn`` with the tracer paused.  Unlike ``vlib.symx.native`` the arguments are NOT deep-realised
    (that would deep-copy the mapped instances): every argument is already a plain Python value
    or a live ORM object."""
    if not _tracing():
        return fn(*args)
    from crosshair.tracers import NoTracing

    with NoTracing():
        return fn(*args)


# CrossHair models ``weakref.ref.__call__`` as ``gc.collect(); r()``; the ORM dereferences weakrefs
# (InstanceState.obj, CollectionAdapter._data) several times per operation.  Freezing the import-time heap
# keeps those collections cheap (engine cost only, no semantic effect).
import gc as _gc  # noqa: E402

_gc.collect()
_gc.freeze()


_GC_N = [0]


def _gc_mark():
    """Called (untraced) at the start of every path: drop the previous path's cyclic garbage, then freeze
    what is alive (search tree, solver state) so that the per-weakref collections only scan this path's objects.
    Every 64th path everything is thawed and collected, otherwise the state spaces of finished paths (frozen
    while alive, cyclic) would never be reclaimed."""
    _GC_N[0] += 1
    if _GC_N[0] % 64 == 0:
        _gc.unfreeze()
    _gc.collect()
    _gc.freeze()


def pin_code(code, n):
    """Binary case-split of a symbolic int over 0..n-1 by solver-decided comparisons: one path per value,
    and the code under test receives plain Python values (the collections are C containers that would
    realise every argument anyway)."""
    assume(0 <= code)
    assume(code < n)
    lo, hi = 0, n - 1
    while lo < hi:
        mid = (lo + hi) // 2
        if code <= mid:
            hi = mid
        else:
            lo = mid + 1
    return lo


def _pick(code, table_fn, *cfg):
    """(index, input tuple) number ``code`` of the cached, deterministic input table of this slice."""
    tbl = native(table_fn, *cfg)
    c = pin_code(code, len(tbl))
    return c, tbl[c]


def _product(*doms):
    out = [()]
    for d in doms:
        out = [t + (v,) for t in out for v in d]
    return out


def _opt(lo, hi, nozero=False):
    return [None] + [v for v in range(lo, hi + 1) if not (nozero and v == 0)]


# Reporting cap: see props/C38.py.  After CAP failing paths with the same classify() key in the same slice,
# further failing inputs *with that key* are abandoned as "precondition unmet" (never counted as passing).
CAP = 2
_SEEN = {}


def _over_cap(hname, names, values, code):
    fixed = dict(zip(names.split(), values))
    args = dict(fixed)
    args["code"] = code
    key = (hname, json.dumps(fixed, sort_keys=True), classify(hname, args, {})[0])
    _SEEN[key] = _SEEN.get(key, 0) + 1
    return _SEEN[key] > CAP


def _report(ok, hname, names, values, code):
    if ok or not _tracing():
        return ok
    if native(_over_cap, hname, names, values, code):
        assume(False)
    return False


def _run(fn, *args):
    try:
        return ("ok", fn(*args))
    except Exception as e:  # noqa: BLE001 - the exception type is the observation
        if type(e).__name__ == "NotDeterministic":
            raise
        return ("exc", type(e).__name__)


def _norm(ret, c):
    if ret is c:
        return "self"
    if ret is None or isinstance(ret, (int, str, bool)):
        return ret
    if isinstance(ret, tuple):
        return [_norm(x, c) for x in ret]
    if ret is NotImplemented:
        return "NotImplemented"
    return getattr(ret, "ix", "?" + type(ret).__name__)


def _norm_res(res, c):
    return [res[0], _norm(res[1], c)] if res[0] == "ok" else [res[0], res[1]]


def _region(n, start, stop, step):
    """in: step None/>0 and bounds None or within -n..n; oob: step None/>0, a bound outside; neg: step < 0"""
    if step is not None and step < 0:
        return "neg"
    for b in (start, stop):
        if b is not None and (b < -n or b > n):
            return "oob"
    return "in"


def _ap_region(n, start, stop, step):
    """plain: step None/>0, start None or 0..n, stop None or -n..n; other: remaining step None/>0; neg: step < 0"""
    if step is not None and step < 0:
        return "neg"
    if (start is None or 0 <= start <= n) and (stop is None or -n <= stop <= n):
        return "plain"
    return "other"


@functools.lru_cache(maxsize=None)
def t_slices(regfn, reg, ns, ms, margin, smax):
    """(n, m, start, stop, step); bounds range over -(n+margin)..(n+margin)"""
    fn = _region if regfn == "ol" else _ap_region
    out = []
    for n in ns:
        b = n + margin
        for m in ms:
            for start, stop, step in _product(_opt(-b, b), _opt(-b, b), _opt(-smax, smax, nozero=True)):
                if reg == "*" or fn(n, start, stop, step) == reg:
                    out.append((n, m, start, stop, step))
    return out


def _ints(s):
    return tuple(int(x) for x in s.split(",") if x != "")


# ------------------------------------------------------------------------------------------
# ordering_list: one operation from every valid state

OL_OPS = ["append", "insert", "setitem", "pop", "pop_noarg", "remove", "delitem", "delslice", "setslice",
          "extend", "iadd", "reorder", "clear", "reverse", "sort"]


def _ol_setup(cfg, n, scramble):
    _gc_mark()
    slide_cls, bullet_cls = OL[cfg]
    pool = [bullet_cls(i) for i in range(POOL)]
    s = slide_cls()
    coll = s.bullets
    for i in range(n):
        coll.append(pool[i])
    if scramble:
        for i in range(n):
            pool[i].pos = 50 + i
    pool[STALE].pos = 99
    return s, pool, coll


def _key_desc(c):
    return -(c if isinstance(c, int) else c.ix)


def _ol_op(c, pool, op, a):
    """a = (x, i, start, stop, step, rhs)"""
    x, i, start, stop, step, rhs = a
    if op == "append":
        return c.append(pool[x])
    if op == "insert":
        return c.insert(i, pool[x])
    if op == "setitem":
        return operator.setitem(c, i, pool[x])
    if op == "pop":
        return c.pop(i)
    if op == "pop_noarg":
        return c.pop()
    if op == "remove":
        return c.remove(pool[x])
    if op == "delitem":
        return operator.delitem(c, i)
    if op == "delslice":
        return operator.delitem(c, slice(start, stop, step))
    if op == "setslice":
        return operator.setitem(c, slice(start, stop, step), [pool[j] for j in rhs])
    if op == "extend":
        return c.extend([pool[j] for j in rhs])
    if op == "iadd":
        return operator.iadd(c, [pool[j] for j in rhs])
    if op == "reorder":
        return c.reorder() if pool is not IDPOOL else None
    if op == "clear":
        return c.clear()
    if op == "reverse":
        return c.reverse()
    if op == "sort":
        return c.sort(key=_key_desc)
    raise AssertionError(op)


def _ol_model(members, op, a):
    m = list(members)
    res = _run(_ol_op, m, IDPOOL, op, a)
    return m, _norm_res(res, m)


def _ol_check(s, coll, offset, model, got_res, model_res):
    if s.bullets is not coll:
        return False
    if [b.ix for b in coll] != model or got_res != model_res:
        return False
    return [b.pos for b in coll] == [offset + j for j in range(len(model))]


@functools.lru_cache(maxsize=None)
def t_ol_step(cfg, op, ns, hi, margin, smax):
    """(n, x, i, start, stop, step, rhs): members are pool[0..n-1], x = pool index of the element argument"""
    roa = OL_CFG[cfg][2]
    idx = list(range(-hi, hi + 1))
    out = []
    for n in ns:
        fresh = n
        z = (n, 0, 0, None, None, None, ())
        if op == "append":
            # an element that already carries a position keeps it unless reorder_on_append (documented)
            out += [(n, x) + z[2:] for x in ([fresh, STALE] if roa else [fresh])]
        elif op in ("insert", "setitem"):
            out += [(n, x, i) + z[3:] for x in (fresh, STALE) for i in idx]
        elif op in ("pop", "delitem"):
            out += [(n, 0, i) + z[3:] for i in idx]
        elif op == "remove":
            out += [(n, x) + z[2:] for x in list(range(n)) + [fresh]]
        elif op == "delslice":
            out += [(n, 0, 0, a, b, c, ()) for (_n, _m, a, b, c) in t_slices("ol", "*", (n,), (0,), margin, smax)]
        elif op == "setslice":
            # region "in" only: the other regions are the slice-normalisation defects of orm/collections.py (C38)
            out += [(n, 0, 0, a, b, c, tuple(range(n, n + m)))
                    for (_n, m, a, b, c) in t_slices("ol", "in", (n,), (0, 1, 2, 3), margin, smax)]
        elif op in ("extend", "iadd"):
            out += [z[:6] + (tuple(range(n, n + m)),) for m in range(4)]
        else:
            out.append(z)
    return out


def h_ol_step(cfg: str, op: str, ns: str, hi: int, margin: int, smax: int, code: int) -> bool:
    c, t = _pick(code, t_ol_step, cfg, op, _ints(ns), hi, margin, smax)
    n, a = t[0], t[1:]
    s, pool, coll = native(_ol_setup, cfg, n, op == "reorder")
    res = _run(_ol_op, coll, pool, op, a)
    model, model_res = native(_ol_model, list(range(n)), op, a)
    ok = native(_ol_check, s, coll, OL_CFG[cfg][1], model, _norm_res(res, coll), model_res)
    return _report(ok, "ol_step", "cfg op ns hi margin smax", (cfg, op, ns, hi, margin, smax,), c)


# ordering_list: histories from the empty list.  One step = (op, i/j, a, b, m).  The element argument is always
# the next never-used pool member ("fresh"), or -- under reorder_on_append -- alternatively the member removed last.

def _alphabet(level, roa):
    idx = [-2, -1, 0, 1, 2] if level >= 1 else [-1, 0, 1]
    sb = [None, 0, 1]
    al = [("append", 0, None, None, 0)]
    if roa:
        al.append(("append_removed", 0, None, None, 0))
    al += [("insert", i, None, None, 0) for i in idx]
    al += [("pop", i, None, None, 0) for i in idx] + [("pop_noarg", 0, None, None, 0)]
    al += [("remove", j, None, None, 0) for j in (0, 1, 9)]  # j-th member, 9 = a non-member
    al += [("setitem", i, None, None, 0) for i in idx]
    al += [("delitem", i, None, None, 0) for i in idx]
    if level >= 1:
        al += [("delslice", 0, a, b, 0) for a in sb for b in sb]
        al += [("setslice", 0, a, b, m) for a in sb for b in sb for m in (0, 2)]
    al += [("extend", 0, None, None, 2), ("iadd", 0, None, None, 1), ("reorder", 0, None, None, 0), ("clear", 0, None, None, 0)]
    return al


@functools.lru_cache(maxsize=None)
def t_ol_hist(cfg, level, nops, first_lo, first_hi):
    al = _alphabet(level, OL_CFG[cfg][2])
    firsts = al[first_lo:first_hi]
    out = [(f,) for f in firsts]
    for _ in range(nops - 1):
        out = [t + (s,) for t in out for s in al]
    return out


def _ol_hist_run(cfg, steps, pool, coll, slide):
    """Apply the steps to the real collection and to a list model; return the index of the first step after
    which contents / return value / exception type / positions disagree, or -1."""
    offset = OL_CFG[cfg][1]
    model = []
    nxt = 0
    removed = None
    for k, (op, i, a, b, m) in enumerate(steps):
        before = list(model)
        if op in ("append", "insert", "setitem"):
            x = nxt
            nxt += 1
            args = (x, i, None, None, None, ())
            rop = op
        elif op == "append_removed":
            x = removed if removed is not None and removed not in model else nxt
            if x == nxt:
                nxt += 1
            args = (x, 0, None, None, None, ())
            rop = "append"
        elif op == "remove":
            x = model[i] if i < len(model) else POOL - 1
            args = (x, 0, None, None, None, ())
            rop = op
        elif op in ("setslice", "extend", "iadd"):
            rhs = tuple(range(nxt, nxt + m))
            nxt += m
            args = (0, 0, a, b, None, rhs)
            rop = op
        else:
            args = (0, i, a, b, None, ())
            rop = op
        res = _run(_ol_op, coll, pool, rop, args)
        mres = _run(_ol_op, model, IDPOOL, rop, args)
        if not _ol_check(slide, coll, offset, model, _norm_res(res, coll), _norm_res(mres, model)):
            return k
        gone = [v for v in before if v not in model]
        if gone:
            removed = gone[-1]
    return -1


def _ol_hist(cfg, steps):
    slide_cls, bullet_cls = OL[cfg]
    _gc_mark()
    pool = [bullet_cls(i) for i in range(16)]
    s = slide_cls()
    return s, pool, s.bullets


def h_ol_hist(cfg: str, level: int, nops: int, first_lo: int, first_hi: int, code: int) -> bool:
    c, steps = _pick(code, t_ol_hist, cfg, level, nops, first_lo, first_hi)
    s, pool, coll = native(_ol_hist, cfg, steps)
    bad = _ol_hist_run(cfg, steps, pool, coll, s)
    return _report(bad < 0, "ol_hist", "cfg level nops first_lo first_hi", (cfg, level, nops, first_lo, first_hi,), c)


# ------------------------------------------------------------------------------------------
# association proxy, list flavour

AP_LIST_OPS = ["append", "insert", "setitem", "pop", "pop_noarg", "remove", "delitem", "extend", "iadd", "imul",
               "clear", "index", "count", "contains", "getitem"]


def _ap_setup(kind, init, keys=None):
    _gc_mark()
    u = C50User()
    if kind == "list":
        proxy = u.lvalues
        for v in init:
            proxy.append(v)
        col = u.list_assocs
    elif kind == "set":
        proxy = u.svalues
        for v in init:
            proxy.add(v)
        col = u.set_assocs
    else:
        proxy = u.dvalues
        for k, v in zip(keys, init):
            proxy[k] = v
        col = u.dict_assocs
    before = list(col.values()) if kind == "dict" else list(col)
    del CREATED[:]
    return u, proxy, before


def _ap_list_op(c, op, x, i, start, stop, step, rhs, k):
    if op == "append":
        return c.append(x)
    if op == "insert":
        return c.insert(i, x)
    if op == "setitem":
        return operator.setitem(c, i, x)
    if op == "pop":
        return c.pop(i)
    if op == "pop_noarg":
        return c.pop()
    if op == "remove":
        return c.remove(x)
    if op == "delitem":
        return operator.delitem(c, i)
    if op == "delslice":
        return operator.delitem(c, slice(start, stop, step))
    if op == "setslice":
        return operator.setitem(c, slice(start, stop, step), list(rhs))
    if op == "setslice_iter":
        return operator.setitem(c, slice(start, stop, step), iter(list(rhs)))
    if op == "extend":
        return c.extend(list(rhs))
    if op == "iadd":
        return operator.iadd(c, list(rhs))
    if op == "imul":
        return operator.imul(c, k)
    if op == "clear":
        return c.clear()
    if op == "index":
        return c.index(x)
    if op == "count":
        return c.count(x)
    if op == "contains":
        return x in c
    if op == "getitem":
        return c[i]
    raise AssertionError(op)


def _ap_list_model(init, *a):
    m = list(init)
    res = _run(_ap_list_op, m, *a)
    return m, _norm_res(res, m)


def _one_for_one(before, after):
    """Every intermediary built by the creator during the operation is stored exactly once, and nothing is
    stored that was not there before or built by the creator."""
    ids_before = {id(o) for o in before}
    new = [o for o in after if id(o) not in ids_before]
    if len({id(o) for o in after}) != len(after):
        return False
    return sorted(id(o) for o in new) == sorted(id(o) for o in CREATED)


def _ap_list_check(u, proxy, before, model, got_res, model_res):
    col = u.list_assocs
    if u.lvalues is not proxy:
        return False
    if [o.v for o in col] != model or list(proxy) != model or len(proxy) != len(model):
        return False
    if got_res != model_res:
        return False
    return _one_for_one(before, list(col))


@functools.lru_cache(maxsize=None)
def t_ap_list(op, nmax, hi):
    """(init, x, i, k, rhs)"""
    out = []
    for n in range(nmax + 1):
        for init in _product(*[[0, 1, 2]] * n):
            xs = [0, 1, 2, 3] if op in ("append", "insert", "setitem", "remove", "index", "count", "contains") else [0]
            is_ = list(range(-hi, hi + 1)) if op in ("insert", "setitem", "pop", "delitem", "getitem") else [0]
            ks = [-1, 0, 1, 2] if op == "imul" else [0]
            rs = [r for m in range(3) for r in _product(*[[0, 3]] * m)] if op in ("extend", "iadd") else [()]
            out += [(list(init), x, i, k, r) for x in xs for i in is_ for k in ks for r in rs]
    return out


def h_ap_list(op: str, nmax: int, hi: int, code: int) -> bool:
    c, (init, x, i, k, rhs) = _pick(code, t_ap_list, op, nmax, hi)
    u, proxy, before = native(_ap_setup, "list", init)
    a = (op, x, i, None, None, None, rhs, k)
    res = _run(_ap_list_op, proxy, *a)
    model, model_res = native(_ap_list_model, init, *a)
    ok = native(_ap_list_check, u, proxy, before, model, _norm_res(res, proxy), model_res)
    return _report(ok, "ap_list", "op nmax hi", (op, nmax, hi,), c)


AP_INIT = [3, 4, 5, 6]  # distinct proxied values of the initial list for the slice harnesses
AP_RHS = [7, 8, 9]


def h_ap_list_slice(op: str, reg: str, ns: str, ms: str, margin: int, smax: int, code: int) -> bool:
    c, (n, m, start, stop, step) = _pick(code, t_slices, "ap", reg, _ints(ns), _ints(ms), margin, smax)
    init = AP_INIT[:n]
    u, proxy, before = native(_ap_setup, "list", init)
    a = (op, 0, 0, start, stop, step, tuple(AP_RHS[:m]), 0)
    res = _run(_ap_list_op, proxy, *a)
    model, model_res = native(_ap_list_model, init, *a)
    ok = native(_ap_list_check, u, proxy, before, model, _norm_res(res, proxy), model_res)
    return _report(ok, "ap_list_slice", "op reg ns ms margin smax", (op, reg, ns, ms, margin, smax,), c)


# ------------------------------------------------------------------------------------------
# association proxy, set flavour

AP_SET_ELEM = ["add", "discard", "remove", "pop", "clear", "contains"]
AP_SET_BULK = ["update", "ior", "intersection_update", "iand", "difference_update", "isub",
               "symmetric_difference_update", "ixor"]
AP_SET_VARARGS = ["update", "intersection_update", "difference_update"]
AP_SET_ARGKINDS = ["set", "frozenset", "list", "iter", "int"]


def _bits(mask, npool):
    return [j for j in range(npool) if mask & (1 << j)]


def _mk_setarg(items, ak):
    if ak == "set":
        return set(items)
    if ak == "frozenset":
        return frozenset(items)
    if ak == "list":
        return list(items) + list(items[:1])
    if ak == "iter":
        return iter(list(items))
    if ak == "int":
        return 5
    raise AssertionError(ak)


def _ap_set_op(c, op, ak, x, bs):
    if op == "add":
        return c.add(x)
    if op == "discard":
        return c.discard(x)
    if op == "remove":
        return c.remove(x)
    if op == "pop":
        return c.pop()
    if op == "clear":
        return c.clear()
    if op == "contains":
        return x in c
    others = [_mk_setarg(b, ak) for b in bs]
    if op == "ior":
        return operator.ior(c, others[0])
    if op == "iand":
        return operator.iand(c, others[0])
    if op == "isub":
        return operator.isub(c, others[0])
    if op == "ixor":
        return operator.ixor(c, others[0])
    return getattr(c, op)(*others)


def _ap_set_model(init, op, ak, x, bs):
    m = set(init)
    res = _run(_ap_set_op, m, op, ak, x, bs)
    return sorted(m), _norm_res(res, m)


def _ap_set_check(u, proxy, before, init, op, model, got_res, model_res):
    col = u.set_assocs
    if u.svalues is not proxy:
        return False
    got = sorted(o.v for o in col)
    if op == "pop" and got_res[0] == "ok" and model_res[0] == "ok":
        # set.pop() removes an arbitrary member: any member of the receiver is a conforming result
        if got_res[1] not in init:
            return False
        model = sorted(v for v in init if v != got_res[1])
        model_res = got_res
    if got != model or sorted(proxy) != model or len(proxy) != len(model):
        return False
    if got_res != model_res:
        return False
    return _one_for_one(before, list(col))


@functools.lru_cache(maxsize=None)
def t_ap_set(op, nargs, npool):
    """(a, x, bs): masks over 0..npool-1; nargs < 0: variadic forms with 0 and 2 arguments"""
    masks = list(range(1 << npool))
    if op in AP_SET_ELEM:
        xs = list(range(npool)) if op in ("add", "discard", "remove", "contains") else [0]
        return [(a, x, ()) for a in masks for x in xs]
    if nargs < 0:
        return [(a, 0, ()) for a in masks] + [(a, 0, (b, b2)) for a in masks for b in masks for b2 in masks]
    return [(a, 0, (b,)) for a in masks for b in masks]


def h_ap_set(op: str, ak: str, nargs: int, npool: int, code: int) -> bool:
    c, (a, x, bms) = _pick(code, t_ap_set, op, nargs, npool)
    init = _bits(a, npool)
    bs = [_bits(b, npool) for b in bms]
    u, proxy, before = native(_ap_setup, "set", init)
    res = _run(_ap_set_op, proxy, op, ak, x, bs)
    model, model_res = native(_ap_set_model, init, op, ak, x, bs)
    ok = native(_ap_set_check, u, proxy, before, init, op, model, _norm_res(res, proxy), model_res)
    return _report(ok, "ap_set", "op ak nargs npool", (op, ak, nargs, npool,), c)


# ------------------------------------------------------------------------------------------
# association proxy, dict flavour

AP_DICT_OPS = ["setitem", "delitem", "pop", "pop_default", "popitem", "setdefault", "setdefault_nodefault", "get",
               "get_default", "contains", "clear", "update_dict", "update_pairs", "update_kw", "update_dict_kw",
               "update_noarg", "ior"]
AP_DICT_ONEKEY = ["setitem", "delitem", "pop", "pop_default", "setdefault", "setdefault_nodefault", "get",
                  "get_default", "contains"]
AP_DICT_BULK = ["update_dict", "update_pairs", "update_kw", "update_dict_kw", "ior"]


def _ap_dict_op(c, op, key, x, okeys, ovals):
    if op == "setitem":
        return operator.setitem(c, key, x)
    if op == "delitem":
        return operator.delitem(c, key)
    if op == "pop":
        return c.pop(key)
    if op == "pop_default":
        return c.pop(key, x)
    if op == "popitem":
        return c.popitem()
    if op == "setdefault":
        return c.setdefault(key, x)
    if op == "setdefault_nodefault":
        return c.setdefault(key)
    if op == "get":
        return c.get(key)
    if op == "get_default":
        return c.get(key, x)
    if op == "contains":
        return key in c
    if op == "clear":
        return c.clear()
    if op == "update_noarg":
        return c.update()
    other = {}
    for kk, vv in zip(okeys, ovals):
        other[kk] = vv
    if op == "update_dict":
        return c.update(other)
    if op == "update_pairs":
        return c.update(list(other.items()))
    if op == "update_kw":
        return c.update(**other)
    if op == "update_dict_kw":
        return c.update(dict(list(other.items())[:1]), **dict(list(other.items())[1:]))
    if op == "ior":
        return operator.ior(c, other)
    raise AssertionError(op)


def _ap_dict_model(keys, init, op, key, x, okeys, ovals):
    m = {}
    for kk, vv in zip(keys, init):
        m[kk] = vv
    res = _run(_ap_dict_op, m, op, key, x, okeys, ovals)
    return [[kk, vv] for kk, vv in m.items()], _norm_res(res, m)


def _ap_dict_check(u, proxy, before, model, got_res, model_res):
    col = u.dict_assocs
    if u.dvalues is not proxy:
        return False
    got = [[kk, o.v] for kk, o in dict.items(col)]
    if got != model or [[kk, vv] for kk, vv in proxy.items()] != model or len(proxy) != len(model):
        return False
    if any(o.k != kk for kk, o in dict.items(col)):
        return False
    if got_res != model_res:
        return False
    return _one_for_one(before, list(dict.values(col)))


@functools.lru_cache(maxsize=None)
def t_ap_dict(op, nk, nv, revs):
    """(present, other, key, x, rev): present[j]/other[j] = value under key "k<j>", -1 = absent"""
    vals = list(range(-1, nv))
    keys = list(range(nk)) if op in AP_DICT_ONEKEY else [0]
    xs = list(range(nv)) if op in ("setitem", "pop_default", "setdefault", "get_default") else [0]
    others = _product(*[vals] * nk) if op in AP_DICT_BULK else [(-1,) * nk]
    return [(list(pr), list(ov), key, x, rev) for rev in ((False, True) if revs else (False,))
            for pr in _product(*[vals] * nk) for ov in others for key in keys for x in xs]


def h_ap_dict(op: str, nk: int, nv: int, revs: bool, code: int) -> bool:
    c, (present, ov, key, x, rev) = _pick(code, t_ap_dict, op, nk, nv, revs)
    order = list(range(nk))
    if rev:
        order.reverse()
    keys = ["k%d" % j for j in order if present[j] >= 0]
    init = [present[j] for j in order if present[j] >= 0]
    okeys = ["k%d" % j for j in range(nk) if ov[j] >= 0]
    ovals = [ov[j] for j in range(nk) if ov[j] >= 0]
    u, proxy, before = native(_ap_setup, "dict", init, keys)
    res = _run(_ap_dict_op, proxy, op, "k%d" % key, x, okeys, ovals)
    model, model_res = native(_ap_dict_model, keys, init, op, "k%d" % key, x, okeys, ovals)
    ok = native(_ap_dict_check, u, proxy, before, model, _norm_res(res, proxy), model_res)
    return _report(ok, "ap_dict", "op nk nv revs", (op, nk, nv, revs,), c)


# ------------------------------------------------------------------------------------------
# association proxy: wholesale assignment  user.values = <new collection>

def _ap_assign(kind, u, new):
    if kind == "list":
        u.lvalues = list(new)
    elif kind == "set":
        u.svalues = set(new)
    else:
        # values differ from the initial ones (initial: k<v> -> v), so keys that already exist must be updated
        u.dvalues = {"k%d" % v: v + 100 for v in new}


def _ap_assign_check(kind, u, proxy, before, new, got_res):
    if got_res != ["ok", None]:
        return False
    if kind == "list":
        col = list(u.list_assocs)
        good = [o.v for o in col] == list(new) and list(u.lvalues) == list(new)
    elif kind == "set":
        col = list(u.set_assocs)
        good = sorted(o.v for o in col) == sorted(set(new)) and sorted(u.svalues) == sorted(set(new))
    else:
        col = list(dict.values(u.dict_assocs))
        # (existing keys keep their place: compared as a mapping, like dict.__eq__)
        good = {k: o.v for k, o in dict.items(u.dict_assocs)} == {"k%d" % v: v + 100 for v in new} == dict(u.dvalues)
    return good and _one_for_one(before, col)


@functools.lru_cache(maxsize=None)
def t_ap_assign(npool, nmax):
    out = []
    for a in range(1 << npool):
        for nn in range(nmax + 1):
            out += [(a, list(t)) for t in _product(*[list(range(npool))] * nn)]
    return out


def h_ap_assign(kind: str, npool: int, nmax: int, code: int) -> bool:
    c, (a, new) = _pick(code, t_ap_assign, npool, nmax)
    init = _bits(a, npool)
    u, proxy, before = native(_ap_setup, kind, init, ["k%d" % v for v in init])
    res = _run(_ap_assign, kind, u, new)
    ok = native(_ap_assign_check, kind, u, proxy, before, new, _norm_res(res, proxy))
    return _report(ok, "ap_assign", "kind npool nmax", (kind, npool, nmax,), c)


# ------------------------------------------------------------------------------------------

META = {
    "explanation": "ext/orderinglist.py OrderingList on a real relationship (three configurations: default, "
                   "count_from=1, count_from=7 with reorder_on_append): every list operation from every valid state "
                   "of size <= N and every short history from the empty list; after each operation the contents equal "
                   "a plain list and every member's position attribute equals count_from + index. "
                   "ext/associationproxy.py _AssociationList/_AssociationSet/_AssociationDict over real relationship "
                   "collections against builtin list/set/dict of the proxied values (contents, return value, exception "
                   "type) with intermediaries created one-for-one. Each slice has a deterministic table of input "
                   "tuples; the symbolic input is the table index, case-split by z3-decided comparisons (one path per "
                   "input tuple; the collections are C containers that realise every argument anyway).",
    "functions": [
        "ext.orderinglist.OrderingList.{append,insert,remove,pop,__setitem__,__delitem__,reorder,_order_entity}",
        "ext.orderinglist.{ordering_list,count_from_0,count_from_1,count_from_n_factory}",
        "orm.collections._list_decorators (extend, __iadd__, clear, slice paths of __setitem__/__delitem__) as used by OrderingList",
        "ext.associationproxy._AssociationList.{append,insert,__setitem__,__delitem__,pop,remove,extend,__iadd__,__imul__,"
        "clear,index,count,__contains__,__getitem__,__iter__,__len__}",
        "ext.associationproxy._AssociationSet.{add,discard,remove,pop,clear,update,__ior__,intersection_update,__iand__,"
        "difference_update,__isub__,symmetric_difference_update,__ixor__,__contains__}",
        "ext.associationproxy._AssociationDict.{__setitem__,__delitem__,pop,popitem,setdefault,get,update,clear,__contains__}",
        "ext.associationproxy.AssociationProxyInstance.{get,set,_new,_set} and _bulk_replace of the three flavours",
    ],
    "bounds": {
        "quick": {"ordering list size": "0..3", "index": "-5..5", "slice bounds": "None, -(len+2)..len+2; step None, -2..2",
                  "histories": "2 operations from the empty list (64-letter alphabet incl. slices)",
                  "proxy list": "size 0..3 over values 0..2 (+1 absent value), index -5..5, RHS length 0..3",
                  "proxy set": "all subsets of 3 values x all subsets as argument", "proxy dict": "keys k0..k2, values 0..1"},
        "thorough": {"ordering list size": "0..4", "index": "-6..6", "slice bounds": "None, -(len+2)..len+2; step None, -3..3",
                     "histories": "3 operations (reduced alphabet without slices), 2 operations (full alphabet)",
                     "proxy list": "size 0..4", "proxy set": "all subsets of 4 values", "proxy dict": "keys k0..k2, values 0..2"},
    },
    "outside": [
        "persistence of the order / association rows (flush, reload)",
        "OrderingList: appending an element that already carries a position with reorder_on_append=False keeps "
        "that position (documented in OrderingList.__init__); such appends are only generated for the "
        "reorder_on_append=True configuration",
        "OrderingList: the same object twice in the list (one position attribute cannot equal two indices), `*=`",
        "OrderingList slice assignment with negative step or out-of-range bounds: same code path and same defects "
        "as C38 (orm/collections.py slice normalisation), not re-reported here",
        "_AssociationList.reverse()/sort(): documented as not supported (NotImplementedError)",
        "custom ordering_func, custom proxy getter/setter, scalar association proxies",
        "set.pop() element choice (any member conforms)",
    ],
    "stubs": [],
    "assumptions": ["proxied values are small ints (hashable, totally ordered)",
                    "the collections are C containers: symbolic indices are realised value by value; the solver "
                    "enumerates the bounded domain (one path per input tuple)",
                    "reporting cap: after %d failing inputs with the same defect key in one slice, further failing inputs "
                    "with that key are abandoned (counted as precondition-unmet, never as passing)" % CAP],
}


def harnesses(tier: str) -> List[Harness]:
    q = tier == "quick"
    hs: List[Harness] = []
    nmax = 3 if q else 4
    hi = 5 if q else 6
    smax = 2 if q else 3
    B = 120 if q else 900
    ol = []
    allns = ",".join(str(n) for n in range(nmax + 1))
    for cfg in OL_CFG:
        for op in OL_OPS:
            if op in ("delslice", "setslice"):
                # the slice paths do not depend on the numbering configuration: all sizes for one configuration only
                nss = [str(n) for n in range(nmax + 1)] if cfg == "default" else [str(nmax)]
            else:
                nss = [allns]
            ol += [dict(cfg=cfg, op=op, ns=x, hi=hi, margin=2, smax=smax) for x in nss]
    hs.append(Harness("ol_step", h_ol_step, ol, budget_s=B))
    oh = []
    for cfg in OL_CFG:
        nal = len(_alphabet(1, OL_CFG[cfg][2]))
        if q:
            if cfg == "from1":
                continue
            step = 16
            oh += [dict(cfg=cfg, level=1, nops=2, first_lo=lo, first_hi=min(lo + step, nal)) for lo in range(0, nal, step)]
        else:
            oh += [dict(cfg=cfg, level=1, nops=2, first_lo=lo, first_hi=min(lo + 8, nal)) for lo in range(0, nal, 8)]
            nal0 = len(_alphabet(0, OL_CFG[cfg][2]))
            if cfg != "from1":
                oh += [dict(cfg=cfg, level=0, nops=3, first_lo=lo, first_hi=lo + 1) for lo in range(nal0)]
    hs.append(Harness("ol_hist", h_ol_hist, oh, budget_s=B + 30))
    hs.append(Harness("ap_list", h_ap_list, [dict(op=o, nmax=nmax, hi=hi) for o in AP_LIST_OPS], budget_s=B))
    sl = []
    for reg in ("plain", "other", "neg"):
        sl.append(dict(op="setslice", reg=reg, ns=allns, ms="0,1,2,3", margin=2, smax=smax))
        sl.append(dict(op="setslice_iter", reg=reg, ns="2,3", ms="1,2", margin=1, smax=2))
    sl.append(dict(op="delslice", reg="*", ns=allns, ms="0", margin=2, smax=smax))
    hs.append(Harness("ap_list_slice", h_ap_list_slice, sl, budget_s=B + 30))
    npool = 3 if q else 4
    ss = [dict(op=o, ak="set", nargs=0, npool=npool) for o in AP_SET_ELEM]
    ss += [dict(op=o, ak=ak, nargs=1, npool=npool) for o in AP_SET_BULK for ak in AP_SET_ARGKINDS]
    ss += [dict(op=o, ak="set", nargs=-1, npool=3) for o in AP_SET_VARARGS]
    hs.append(Harness("ap_set", h_ap_set, ss, budget_s=B))
    nv = 2 if q else 3
    hs.append(Harness("ap_dict", h_ap_dict,
                      [dict(op=o, nk=3, nv=nv, revs=o in ("popitem", "update_dict", "clear")) for o in AP_DICT_OPS], budget_s=B))
    hs.append(Harness("ap_assign", h_ap_assign, [dict(kind=k, npool=3, nmax=3) for k in ("list", "set", "dict")], budget_s=B))
    return hs


def decode(hname, args):
    """The named inputs behind ``code`` for a given slice (used by classify and for reading replays)."""
    c = args["code"]
    if hname == "ol_step":
        n, x, i, start, stop, step, rhs = t_ol_step(args["cfg"], args["op"], _ints(args["ns"]), args["hi"], args["margin"], args["smax"])[c]
        return dict(n=n, members=list(range(n)), x=("stale" if x == STALE else x), i=i, start=start, stop=stop, step=step, rhs=list(rhs))
    if hname == "ol_hist":
        return dict(steps=[list(s) for s in t_ol_hist(args["cfg"], args["level"], args["nops"], args["first_lo"], args["first_hi"])[c]])
    if hname == "ap_list":
        init, x, i, k, rhs = t_ap_list(args["op"], args["nmax"], args["hi"])[c]
        return dict(values=init, x=x, i=i, k=k, rhs=list(rhs))
    if hname == "ap_list_slice":
        n, m, start, stop, step = t_slices("ap", args["reg"], _ints(args["ns"]), _ints(args["ms"]), args["margin"], args["smax"])[c]
        return dict(values=AP_INIT[:n], start=start, stop=stop, step=step, rhs=AP_RHS[:m])
    if hname == "ap_set":
        a, x, bms = t_ap_set(args["op"], args["nargs"], args["npool"])[c]
        return dict(values=_bits(a, args["npool"]), x=x, args=[_bits(b, args["npool"]) for b in bms])
    if hname == "ap_dict":
        present, ov, key, x, rev = t_ap_dict(args["op"], args["nk"], args["nv"], args["revs"])[c]
        return dict(present=present, other=ov, key="k%d" % key, x=x, reversed_insertion=rev)
    if hname == "ap_assign":
        a, new = t_ap_assign(args["npool"], args["nmax"])[c]
        return dict(values=_bits(a, args["npool"]), new=new)
    raise AssertionError(hname)


def _ol_feature(op, d, n):
    if op == "setitem" and d["i"] < 0 and -n <= d["i"]:
        return "negative-index-stores-negative-position"
    if op in ("reverse", "sort"):
        return "positions-not-renumbered"
    if op in ("setslice", "delslice"):
        return "slice:%s" % _region(n, d["start"], d["stop"], d["step"])
    return "other"


def _hist_first_bad(args):
    steps = t_ol_hist(args["cfg"], args["level"], args["nops"], args["first_lo"], args["first_hi"])[args["code"]]
    s, pool, coll = _ol_hist(args["cfg"], steps)
    k = _ol_hist_run(args["cfg"], steps, pool, coll, s)
    # length of the list before the failing step
    s2, pool2, coll2 = _ol_hist(args["cfg"], steps)
    _ol_hist_run(args["cfg"], steps[:k], pool2, coll2, s2)
    return steps, k, len(coll2)


def classify(hname, args, rep):
    d = decode(hname, args)
    exc = rep.get("exception")
    if exc:
        return ("C50:%s:harness-exception" % hname, "%s raised %s on %s %s" % (hname, exc, args, d))
    if hname == "ol_step":
        feat = _ol_feature(args["op"], d, d["n"])
        return ("C50:orderinglist.%s:%s" % (args["op"], feat),
                "ordering_list(%s) %s: positions/contents differ from the list model: %s" % (args["cfg"], args["op"], d))
    if hname == "ol_hist":
        steps, k, n = _hist_first_bad(args)
        if k < 0:
            return ("C50:orderinglist.history:not-reproduced", "history %s" % (steps,))
        op, i, a, b, m = steps[k]
        feat = _ol_feature(op, dict(i=i, start=a, stop=b, step=None), n)
        return ("C50:orderinglist.%s:%s" % (op, feat),
                "ordering_list(%s) history %s: step %d (%s) breaks positions/contents" % (args["cfg"], [list(s) for s in steps], k, op))
    if hname == "ap_list":
        op = args["op"]
        n = len(d["values"])
        if op == "insert" and d["i"] < -n:
            return ("C50:assoc_list.insert:index-below-minus-len",
                    "association proxy list.insert(%s, v) on %s inserts at the wrong place (InstrumentedList slice "
                    "assignment col[i:i], cf. C38)" % (d["i"], d["values"]))
        if op == "imul" and d["k"] < 0:
            return ("C50:assoc_list.__imul__:negative-multiplier", "association proxy list `*= %s` leaves %s unchanged; list is emptied" % (d["k"], d["values"]))
        return ("C50:assoc_list.%s" % op, "association proxy list.%s differs from list: %s" % (op, d))
    if hname == "ap_list_slice":
        n = len(d["values"])
        st = d["step"]
        if st is not None and st < 0:
            feat = "negative-step"
        elif d["start"] is not None and d["start"] < 0:
            feat = "negative-start"
        elif d["start"] is not None and d["start"] > n:
            feat = "start-above-len"
        elif d["stop"] is not None and d["stop"] > n:
            feat = "stop-above-len"
        elif d["stop"] is not None and d["stop"] < -n:
            feat = "stop-below-minus-len"
        else:
            feat = "other"
        if args["op"] == "setslice_iter" and feat == "other" and st not in (None, 1):
            feat = "extended:iterator-rhs"
        return ("C50:assoc_list.%s:%s" % (args["op"].replace("_iter", ""), feat),
                "association proxy list %s differs from list: %s" % (args["op"], d))
    if hname == "ap_set":
        return ("C50:assoc_set.%s:%s" % (args["op"], args["ak"]), "association proxy set.%s(<%s>) differs from set: %s" % (args["op"], args["ak"], d))
    if hname == "ap_dict":
        op = args["op"]
        if op == "pop_default" and d["present"][int(d["key"][1:])] < 0:
            return ("C50:assoc_dict.pop:default-for-missing-key", "association proxy dict.pop(missing, default) applies the "
                    "getter to the default (AttributeError) instead of returning it: %s" % d)
        if op == "ior":
            return ("C50:assoc_dict.__ior__:unsupported", "association proxy dict `|=` raises TypeError (no __ior__): %s" % d)
        return ("C50:assoc_dict.%s" % op, "association proxy dict.%s differs from dict: %s" % (op, d))
    return ("C50:%s:%s" % (hname, args.get("kind")), "%s fails on %s %s" % (hname, args, d))


def run(tier: str, seed: int):
    return framework.run_symx(PID, __name__, tier, seed, harnesses(tier), classify, META)
