"""C01 Rendered SQL preserves the meaning of the expression tree (E2 sqlsem: translation validation)."""
from __future__ import annotations

import itertools
import json
import time
from typing import Any, Dict, List, Optional, Tuple

from vlib import framework, sqlsem, sqlparse
from vlib.framework import Failure, Outcome
from vlib.sqlsem import BOOL, INT, STR

PID = "C01"
DIALECTS = ["sqlite", "postgresql", "mysql"]

# ------------------------------------------------------------------------------------------------
# bounded grammar of constructor trees ("specs")

HOLE = {INT: ["col", None, INT], BOOL: ["col", None, BOOL], STR: ["col", None, STR]}

# op -> (result type, [argument types]) ; several entries per op name allowed
OPS_FULL = [
    ("neg", INT, [INT]),
    ("add", INT, [INT, INT]), ("sub", INT, [INT, INT]), ("mul", INT, [INT, INT]),
    ("truediv", INT, [INT, INT]), ("floordiv", INT, [INT, INT]), ("mod", INT, [INT, INT]),
    ("bitand", INT, [INT, INT]),
    ("cast_int", INT, [STR]),
    ("concat", STR, [STR, STR]), ("concat", STR, [INT, STR]), ("concat", STR, [STR, INT]),
    ("cast_str", STR, [INT]),
    ("eq", BOOL, [INT, INT]), ("ne", BOOL, [INT, INT]), ("lt", BOOL, [INT, INT]), ("le", BOOL, [INT, INT]),
    ("gt", BOOL, [INT, INT]), ("ge", BOOL, [INT, INT]),
    ("eq", BOOL, [STR, STR]), ("ne", BOOL, [STR, STR]),
    ("eq", BOOL, [BOOL, BOOL]), ("ne", BOOL, [BOOL, BOOL]),
    ("is_null", BOOL, [INT]), ("is_not_null", BOOL, [INT]), ("is_null", BOOL, [STR]), ("is_null", BOOL, [BOOL]),
    ("is_not_null", BOOL, [BOOL]),
    ("is_true", BOOL, [BOOL]), ("is_false", BOOL, [BOOL]),
    ("distinct", BOOL, [INT, INT]), ("not_distinct", BOOL, [INT, INT]),
    ("like", BOOL, [STR, STR]), ("not_like", BOOL, [STR, STR]), ("like_esc", BOOL, [STR, STR]),
    ("not_like_esc", BOOL, [STR, STR]), ("like_escq", BOOL, [STR, STR]), ("not_like_escq", BOOL, [STR, STR]),
    ("in", BOOL, [INT, INT, INT]), ("not_in", BOOL, [INT, INT, INT]),
    ("between", BOOL, [INT, INT, INT]), ("not_between", BOOL, [INT, INT, INT]),
    ("and", BOOL, [BOOL, BOOL]), ("or", BOOL, [BOOL, BOOL]), ("not", BOOL, [BOOL]), ("inv", BOOL, [BOOL]),
    ("case", INT, [BOOL, INT, INT]), ("case_noelse", INT, [BOOL, INT]), ("case", STR, [BOOL, STR, STR]),
]
# one representative per precedence / rewriting class, for depth 3
REDUCED = {"neg", "add", "sub", "mul", "mod", "concat", "eq", "lt", "is_null", "is_true", "distinct", "like", "in",
           "not_in", "between", "and", "or", "not", "inv", "case", "bitand"}
OPS_REDUCED = [o for o in OPS_FULL if o[0] in REDUCED and not (o[0] in ("eq", "is_null") and o[2][0] == STR)]


def _gen(ops, depth: int, cache: Dict) -> Dict[str, List[Tuple[int, Any]]]:
    """All trees of depth <= depth per result type as (exact_depth, spec)."""
    if depth in cache:
        return cache[depth]
    if depth == 0:
        res = {t: [(0, HOLE[t])] for t in (INT, BOOL, STR)}
    else:
        lower = _gen(ops, depth - 1, cache)
        res = {t: list(lower[t]) for t in lower}
        for name, rty, argtys in ops:
            for combo in itertools.product(*[lower[t] for t in argtys]):
                if max(d for d, _ in combo) != depth - 1:
                    continue
                if name in ("case", "case_noelse", "between", "not_between", "in", "not_in") and sum(1 for d, _ in combo if d > 0) > 2:
                    continue
                res[rty].append((depth, [name] + [s for _, s in combo]))
    cache[depth] = res
    return res


def _spine(ops, base: Dict[str, List[Tuple[int, Any]]], depth: int):
    """Depth-`depth` trees with exactly one child of depth-1 (taken from ``base``) and leaves elsewhere."""
    res = {t: [] for t in (INT, BOOL, STR)}
    for name, rty, argtys in ops:
        for pos in range(len(argtys)):
            for d, sub in base[argtys[pos]]:
                if d != depth - 1:
                    continue
                kids = [HOLE[t] for t in argtys]
                kids[pos] = sub
                res[rty].append((depth, [name] + kids))
    return res


def _name_leaves(spec, counter):
    if spec[0] == "col":
        counter[0] += 1
        return ["col", "c%d" % counter[0], spec[2]]
    if spec[0] == "lit":
        return list(spec)
    return [spec[0]] + [_name_leaves(c, counter) if isinstance(c, list) else c for c in spec[1:]]


def _leaf_paths(spec, path=()):
    if spec[0] in ("col", "lit"):
        yield path, spec
        return
    for i, c in enumerate(spec[1:], 1):
        if isinstance(c, list):
            yield from _leaf_paths(c, path + (i,))


def _replace(spec, path, new):
    if not path:
        return new
    out = list(spec)
    out[path[0]] = _replace(spec[path[0]], path[1:], new)
    return out


LEAF_VARIANTS = {
    INT: [["lit", 101, INT], ["lit", -102, INT], ["lit", None, INT]],
    STR: [["lit", "sa", STR], ["lit", None, STR]],
    BOOL: [["lit", True, BOOL], ["lit", False, BOOL]],
}


def _all_leaves_variant(spec, kind: str):
    """Replace every int/str leaf: kind=pos -> distinct positive literals, neg -> negative int literals,
    null1 -> first leaf NULL."""
    counter = [0]

    def rec(s, first):
        if s[0] == "col":
            counter[0] += 1
            if kind == "pos" and s[2] == INT:
                return ["lit", 100 + counter[0], INT]
            if kind == "pos" and s[2] == STR:
                return ["lit", "s%d" % counter[0], STR]
            if kind == "neg" and s[2] == INT:
                return ["lit", -100 - counter[0], INT]
            if kind == "null1" and counter[0] == 1 and s[2] in (INT, STR):
                return ["lit", None, s[2]]
            return s
        if s[0] == "lit":
            return s
        return [s[0]] + [rec(c, False) if isinstance(c, list) else c for c in s[1:]]

    return rec(spec, True)


_SHAPES_CACHE: Dict[str, List[Any]] = {}


def shapes(tier: str) -> List[Any]:
    if tier in _SHAPES_CACHE:
        return _SHAPES_CACHE[tier]
    cache: Dict = {}
    out = []
    full2 = _gen(OPS_FULL, 2, cache)
    d1, d2 = [], []
    for t in (INT, BOOL, STR):
        for d, s in full2[t]:
            if d == 1:
                d1.append(s)
            elif d == 2:
                d2.append(s)
    out.extend(d1)
    out.extend(d2)
    # leaf variants, one leaf at a time: positive / negative literal / NULL / boolean constant
    for s in (d1 if tier == "quick" else d1 + d2):
        for path, leaf in _leaf_paths(s):
            for v in LEAF_VARIANTS[leaf[2]]:
                out.append(_replace(s, path, v))
    if tier == "quick":
        for s in d2:
            for kind in ("pos", "neg", "null1"):
                v = _all_leaves_variant(s, kind)
                if v != s:
                    out.append(v)
    if tier == "thorough":
        c2: Dict = {}
        red2 = _gen(OPS_REDUCED, 2, c2)
        sp = _spine(OPS_REDUCED, red2, 3)
        for t in (INT, BOOL, STR):
            out.extend(s for _, s in sp[t])
    named = []
    seen = set()
    for s in out:
        n = _name_leaves(s, [0])
        k = json.dumps(n)
        if k not in seen:
            seen.add(k)
            named.append(n)
    _SHAPES_CACHE[tier] = named
    return named


# ------------------------------------------------------------------------------------------------
# one check


def _dialect(name):
    from sqlalchemy.dialects import mysql, postgresql, sqlite

    return {"sqlite": sqlite.dialect, "postgresql": postgresql.dialect, "mysql": mysql.dialect}[name]()


_DIALECT_CACHE: Dict[str, Any] = {}


def dialect_obj(name):
    if name not in _DIALECT_CACHE:
        _DIALECT_CACHE[name] = _dialect(name)
    return _DIALECT_CACHE[name]


def _subst_params(node, values):
    if isinstance(node, list):
        return [_subst_params(x, values) for x in node]
    if not isinstance(node, tuple):
        return node
    if node[0] == "param":
        if node[1] not in values:
            raise sqlparse.ParseError("placeholder %r has no parameter" % (node[1],))
        return ("lit", values[node[1]])
    return tuple(_subst_params(x, values) if isinstance(x, (tuple, list)) else x for x in node)


def _literals(node, out):
    if isinstance(node, list):
        for x in node:
            _literals(x, out)
    elif isinstance(node, tuple):
        if node[0] == "lit":
            v = node[1]
            if (isinstance(v, int) and not isinstance(v, bool) and abs(v) >= 100) or (isinstance(v, str) and v.startswith("s")):
                out.add(v)
        else:
            for x in node[1:]:
                if isinstance(x, (tuple, list)):
                    _literals(x, out)


def check_one(spec, dname: str, mode: str) -> Dict[str, Any]:
    """mode: literal (literal_binds=True) | bound (placeholders + parameters)."""
    coltypes: Dict[str, str] = {}
    built = sqlsem.build(spec, dname, coltypes)
    d = dialect_obj(dname)
    pd = d.paramstyle in ("format", "pyformat")
    res: Dict[str, Any] = {"spec": spec, "dialect": dname, "mode": mode}
    if mode == "literal":
        compiled = built.sa.compile(dialect=d, compile_kwargs={"literal_binds": True})
        sql = str(compiled)
        values: Dict[Any, Any] = {}
    else:
        compiled = built.sa.compile(dialect=d, compile_kwargs={"render_postcompile": True})
        sql = str(compiled)
        params = compiled.params
        values = dict(params)
        if compiled.positional:
            for i, n in enumerate(compiled.positiontup):
                values[i] = params[n]
    res["sql"] = sql
    try:
        parsed = sqlparse.parse_expr(sql, dname, pd)
        parsed_n = _subst_params(sqlsem.normalize(parsed, dname), values)
    except sqlparse.ParseError as e:
        res["verdict"] = "parse_error"
        res["detail"] = str(e)
        return res
    intended = sqlsem.normalize(built.ast, dname)
    symlits = set()
    if mode == "bound":
        _literals(intended, symlits)
    try:
        verdict, model, dt = sqlsem.decide(intended, parsed_n, coltypes, symlits)
    except sqlparse.ParseError as e:
        res["verdict"] = "parse_error"
        res["detail"] = "no semantics: " + str(e)
        return res
    res["verdict"] = verdict
    res["solver_s"] = dt
    res["model"] = model
    res["coltypes"] = coltypes
    if verdict == "differ" and model and model.get("unknown_cols"):
        res["detail"] = "emitted SQL references unknown names %s" % model["unknown_cols"]
    return res


def confirm_sqlite(spec, mode: str, model) -> Dict[str, Any]:
    """Ground truth for SQLite: run the emitted SQL and the fully parenthesised rendering of the
    intended tree on the linked sqlite3 with the model row, then adversarial rows."""
    coltypes: Dict[str, str] = {}
    built = sqlsem.build(spec, "sqlite", coltypes)
    d = dialect_obj("sqlite")
    if mode == "literal":
        compiled = built.sa.compile(dialect=d, compile_kwargs={"literal_binds": True})
        params: Tuple = ()
    else:
        compiled = built.sa.compile(dialect=d, compile_kwargs={"render_postcompile": True})
        params = tuple(compiled.params[n] for n in compiled.positiontup)
    emitted = str(compiled)
    try:
        reference = sqlsem.render_full(built.ast)
    except ValueError as e:
        return {"confirmed": False, "why": "cannot render reference: %s" % e}
    rows = []
    if model:
        row = {}
        for n, t in coltypes.items():
            v = model["cols"].get(n)
            if v is not None and t == STR:
                v = str(v)
            row[n] = v
        rows.append(row)
    names = sorted(coltypes)
    pools = [sqlsem.ADVERSARIAL[coltypes[n]] for n in names]
    count = 0
    for combo in itertools.product(*pools):
        rows.append(dict(zip(names, combo)))
        count += 1
        if count > 150:
            break
    for row in rows:
        got = sqlsem.sqlite_eval([emitted], coltypes, row, params)[0]
        exp = sqlsem.sqlite_eval([reference], coltypes, row, ())[0]
        if _val_differs(got, exp):
            return {"confirmed": True, "row": row, "emitted": emitted, "emitted_value": got,
                    "reference": reference, "reference_value": exp, "params": list(params)}
    return {"confirmed": False, "emitted": emitted, "reference": reference, "rows_tried": len(rows)}


def _val_differs(a, b):
    ea = isinstance(a, tuple) and a and a[0] == "error"
    eb = isinstance(b, tuple) and b and b[0] == "error"
    if ea and eb:
        return False
    if ea != eb:
        return True
    if a is None or b is None:
        return (a is None) != (b is None)
    if isinstance(a, (int, float)) and isinstance(b, (int, float)):
        return abs(a - b) > 1e-9
    return a != b or type(a) is not type(b)


# ------------------------------------------------------------------------------------------------
# signatures for classification (known findings are keyed by minimal failing sub-shape)


def signature(spec) -> str:
    if spec[0] == "col":
        return "c"
    if spec[0] == "lit":
        v = spec[1]
        if v is None:
            return "N"
        if isinstance(v, bool):
            return "b"
        if isinstance(v, int) and v < 0:
            return "n"
        return "l"
    return "%s(%s)" % (spec[0], ",".join(signature(c) if isinstance(c, list) else str(c) for c in spec[1:]))


def _fail_kind(spec, dname, mode) -> Optional[str]:
    try:
        r = check_one(_name_leaves(spec, [0]), dname, mode)
    except Exception:
        return None
    if r["verdict"] == "differ":
        return "sem"
    if r["verdict"] == "parse_error":
        return "parse"
    return None


def _node_paths(spec, path=()):
    yield path, spec
    if spec[0] in ("col", "lit"):
        return
    for i, c in enumerate(spec[1:], 1):
        if isinstance(c, list):
            yield from _node_paths(c, path + (i,))


def minimal_failing(spec, dname, mode):
    """Greedy delta-minimisation: (1) descend into a failing child sub-tree, (2) replace any inner
    node by a column leaf of its type, (3) replace any literal leaf by a column; keep a step only if
    the same kind of failure persists."""
    kind = _fail_kind(spec, dname, mode)
    if kind is None:
        return spec
    cur = spec
    progress = True
    while progress:
        progress = False
        for c in cur[1:]:
            if isinstance(c, list) and c[0] not in ("col", "lit") and _fail_kind(c, dname, mode) == kind:
                cur = c
                progress = True
                break
        if progress:
            continue
        for path, node in list(_node_paths(cur)):
            if not path:
                continue
            if node[0] == "col":
                continue
            ty = _type_of(node)
            cand = _replace(cur, path, ["col", None, ty])
            if _fail_kind(cand, dname, mode) == kind:
                cur = cand
                progress = True
                break
    return cur


def op_key(mini) -> str:
    """Operator-level identity of a minimal failing shape: top operator with the operators of its
    non-leaf children (leaf children as c=column, l=literal, n=negative literal, N=NULL, b=boolean)."""
    if mini[0] in ("col", "lit"):
        return signature(mini)
    parts = []
    for c in mini[1:]:
        if isinstance(c, list):
            parts.append(signature(c) if c[0] in ("col", "lit") else c[0])
        else:
            parts.append(str(c))
    return "%s(%s)" % (mini[0], ",".join(parts))


def _type_of(spec):
    if spec[0] in ("col", "lit"):
        return spec[2]
    for name, rty, argtys in OPS_FULL:
        if name == spec[0]:
            if name in ("case",):
                return _type_of(spec[2])
            return rty
    return INT


# ------------------------------------------------------------------------------------------------
# chunk worker + orchestration


def _classify_candidate(r, cache: Dict[str, Any]) -> Dict[str, Any]:
    spec, dname, mode = r["spec"], r["dialect"], r["mode"]
    try:
        mini = minimal_failing(spec, dname, mode)
    except Exception:
        mini = spec
    kind = "parse" if r["verdict"] == "parse_error" else "sem"
    key = "C01:%s:%s:%s" % (dname, kind, op_key(mini))
    rec = {"property": PID, "engine": "sqlsem", "module": __name__, "spec": spec, "dialect": dname, "mode": mode,
           "sql": r["sql"], "verdict": r["verdict"], "detail": r.get("detail"), "model": r.get("model"), "minimal": mini,
           "key": key, "sig": signature(spec)}
    if key in cache:
        rec["confirmed"] = cache[key]["confirmed"]
        rec["dup"] = True
        return rec
    if dname == "sqlite":
        conf = confirm_sqlite(_name_leaves(mini, [0]), mode, None)
        if not conf.get("confirmed"):
            conf = confirm_sqlite(spec, mode, r.get("model"))
        rec["sqlite"] = conf
        rec["confirmed"] = bool(conf.get("confirmed"))
        if rec["confirmed"]:
            rec["what"] = "sqlite: emitted `%s` evaluates to %r but the fully parenthesised tree `%s` to %r on row %s" % (
                conf["emitted"], conf["emitted_value"], conf["reference"], conf["reference_value"], conf["row"])
    else:
        rec["backend_unavailable"] = True
        rec["confirmed"] = True
        if r["verdict"] == "parse_error":
            rec["what"] = "%s: emitted `%s` is not a valid expression of the backend grammar: %s" % (dname, r["sql"], r.get("detail"))
        else:
            rec["what"] = "%s: emitted `%s` parses (backend grammar) to a tree whose value differs from the intended %s for %s" % (
                dname, r["sql"], signature(spec), (r.get("model") or {}).get("cols"))
    cache[key] = rec
    return rec


def chunk(tier: str, i: int, n: int) -> Dict[str, Any]:
    sh = shapes(tier)
    out = {"checked": 0, "equal": 0, "unknown": 0, "solver_s": 0.0, "candidates": 0, "confirmed": {}, "unconfirmed": [],
           "samples": [], "errors": [], "rejected_by_constructor": 0}
    import sqlalchemy.exc as saexc

    cache: Dict[str, Any] = {}
    idx = 0
    for spec in sh:
        for dname in DIALECTS:
            for mode in ("literal", "bound"):
                idx += 1
                if idx % n != i:
                    continue
                try:
                    r = check_one(spec, dname, mode)
                except (saexc.SQLAlchemyError, NotImplementedError):
                    out["rejected_by_constructor"] += 1  # a construct SQLAlchemy itself rejects is not a shape
                    continue
                except Exception as e:
                    out["errors"].append({"spec": spec, "dialect": dname, "mode": mode, "error": repr(e)[:300]})
                    continue
                out["checked"] += 1
                out["solver_s"] += r.get("solver_s", 0.0)
                if r["verdict"] == "equal":
                    out["equal"] += 1
                    if len(out["samples"]) < 2 and idx % 97 == 0:
                        out["samples"].append({"spec": signature(spec), "dialect": dname, "mode": mode, "sql": r["sql"], "verdict": "unsat (equal for all values)"})
                elif r["verdict"] == "unknown":
                    out["unknown"] += 1
                else:
                    out["candidates"] += 1
                    rec = _classify_candidate(r, cache)
                    if rec.get("dup"):
                        continue
                    if rec["confirmed"]:
                        out["confirmed"][rec["key"]] = rec
                    else:
                        out["unconfirmed"].append({"sig": rec["sig"], "sql": r["sql"], "dialect": dname, "mode": mode, "verdict": r["verdict"], "detail": r.get("detail")})
    return out


META = {
    "functions": [
        "sql.operators._PRECEDENCE / is_precedent / is_associative", "sql.elements.*.self_group", "OperatorExpression._construct_for_op (flattening)",
        "ColumnElement._negate / operators.inv rewriting", "sql.default_comparator (operator dispatch, None/True/False coercion)",
        "SQLCompiler.visit_binary / visit_unary / visit_grouping / visit_clauselist / visit_case / visit_cast / visit_between / visit_*_op_binary",
        "sqlite / postgresql / mysql dialect compiler overrides (truediv, floordiv, concat, is_distinct_from, boolean rendering)",
        "SQLCompiler.render_literal_value + type literal processors (literal mode)",
    ],
    "outside": ["scalar subqueries, EXISTS, window functions (opaque)", "float arithmetic; `*`, `/`, `%`, `||`, LIKE, CAST are uninterpreted (structure-sensitive, null-propagating)",
                "PostgreSQL/MySQL results are decided against the reference grammar only (no server in the sandbox)",
                "depth > 2 outside the spine shapes of the thorough tier"],
}


def run(tier: str, seed: int) -> Outcome:
    parts = framework.run_chunks(__name__, "chunk", tier)
    out = Outcome(PID, level="translation_validation")
    tot = {"checked": 0, "equal": 0, "unknown": 0, "solver_s": 0.0, "candidates": 0, "rejected_by_constructor": 0}
    samples, unconfirmed = [], []
    confirmed: Dict[str, Any] = {}
    for p in parts:
        if p.get("error"):
            out.inconclusive.append("chunk failed: " + p["error"][-800:])
            continue
        for k in tot:
            tot[k] += p[k]
        samples.extend(p["samples"])
        unconfirmed.extend(p["unconfirmed"])
        for k, rec in p["confirmed"].items():
            confirmed.setdefault(k, rec)
        for e in p["errors"]:
            out.inconclusive.append("internal error while checking %s: %s" % (signature(e["spec"]), e["error"]))
    for key in sorted(confirmed):
        rec = confirmed[key]
        out.failures.append(Failure(PID, key, rec.pop("what", key), rec))
    out.artifacts = unconfirmed
    out.coverage = {
        "explanation": "Every constructor tree of the bounded grammar is built with the real expression API, compiled by the real "
                       "compiler for the real dialect object (literal_binds and bound-parameter modes), re-parsed with the backend's "
                       "reference grammar, and z3 decides whether the parsed tree and the intended tree can differ for any column / "
                       "parameter value (NULLs included). sat answers are replayed on the linked sqlite3 for the SQLite dialect.",
        "programs": tot["checked"],
        "disagreements_checked": tot["candidates"],
        "distinct_confirmed_disagreements": len(confirmed),
        "unconfirmed_disagreements": unconfirmed[:10],
        "unconfirmed_count": len(unconfirmed),
        "equal_unsat": tot["equal"],
        "solver_unknown": tot["unknown"],
        "rejected_by_constructor": tot["rejected_by_constructor"],
        "solver_queries": tot["checked"],
        "solver_time_s": round(tot["solver_s"], 2),
        "shapes": len(shapes(tier)),
        "dialects": DIALECTS,
        "modes": ["literal", "bound"],
        "bounds": {"quick": "all constructor trees of depth <= 2 over %d typed operator signatures (column leaves); every single-leaf replacement by +literal / -literal / NULL / boolean constant for depth 1; all-positive-literal, all-negative-literal and first-leaf-NULL variants for depth 2" % len(OPS_FULL),
                   "thorough": "all trees of depth <= 2 with every single-leaf replacement, plus depth-3 spine trees (one depth-2 child, other children leaves) over the reduced operator set %s" % sorted(REDUCED)}[tier],
        "functions_encoded": META["functions"],
        "outside_bounds": META["outside"],
        "samples": samples[:10] or [{"note": "none"}],
        "trusted_base": ["vlib/sqlparse.py reference grammars (SQLite parse.y, PostgreSQL gram.y, MySQL sql_yacc.yy precedence)",
                         "vlib/sqlsem.py SQL value semantics (3VL, NULL propagation)", "z3", "linked sqlite3 library (replay)"],
        "exhaustive": tot["unknown"] == 0 and not unconfirmed,
        "verdict": "holds-within-bounds" if not out.failures and tot["unknown"] == 0 and not unconfirmed else "see violations / known findings / inconclusive entries",
    }
    if tot["unknown"]:
        out.inconclusive.append("%d solver queries returned unknown" % tot["unknown"])
    out.assumptions = ["Boolean columns hold 0/1/NULL", "distinct string literals denote distinct values", "integer semantics are mathematical integers"]
    return out


def replay(rec) -> Dict[str, Any]:
    spec, dname, mode = rec["spec"], rec["dialect"], rec["mode"]
    r = check_one(spec, dname, mode)
    if r["verdict"] == "equal":
        return {"holds": True, "sql": r["sql"]}
    if dname == "sqlite":
        conf = confirm_sqlite(rec.get("minimal") and _name_leaves(rec["minimal"], [0]) or spec, mode, None)
        if not conf.get("confirmed"):
            conf = confirm_sqlite(spec, mode, r.get("model"))
        return {"holds": not conf.get("confirmed"), "sqlite": conf, "sql": r["sql"]}
    return {"holds": False, "sql": r["sql"], "verdict": r["verdict"], "detail": r.get("detail"), "model": r.get("model"),
            "backend_unavailable": True}


def classify(*a):
    raise NotImplementedError
