"""C24 Pooled connections carry no state from a previous checkout (E1 symx).

Real Engine / Connection / Pool classes over the transactional fake DBAPI.  A symbolic history of checkouts
("sessions"): each session optionally changes the isolation level / autocommit through
``Connection.execution_options``, leaves work of a symbolic shape (autobegun or explicit transaction, open
savepoint) and ends in a symbolic way (close, commit+close, exception leaving a ``with`` block, dropped without
close and garbage collected, invalidated, DBAPI commit() failing followed by close).  At every checkout the
fake DBAPI connection handed out must carry nothing of the previous sessions.
"""
from __future__ import annotations

import gc
import warnings
import weakref
from typing import List, Tuple

from vlib import fakedb, framework
from vlib.framework import Harness
from vlib.symx import Assume, assume, native

try:  # warm import: symx.native()/assume() look at the tracer state (also in tracer-less replays)
    import crosshair.tracers  # noqa: F401
except ImportError:
    pass

from sqlalchemy import exc as sa_exc
from sqlalchemy import pool as sa_pool

PID = "C24"

POOLS = ["QueuePool", "StaticPool", "SingletonThreadPool", "NullPool", "AssertionPool"]
RESETS = ["rollback", "commit", "none"]

# a session = (ending, isolation, work)
ISOS = [None, "SERIALIZABLE", "AUTOCOMMIT", "token+SERIALIZABLE", "SERIALIZABLE+AUTOCOMMIT"]  # "a+b": two successive execution_options() calls
WORKS = ["nothing", "insert", "begin+insert", "insert+begin_nested+insert"]
ENDINGS = ["close", "commit+close", "exception-in-with-block", "dropped+gc", "invalidate+close", "failed-dbapi-commit+close", "dropped+gc+failing-pool-reset"]
E_CLOSE, E_COMMIT, E_EXC, E_GC, E_INVALIDATE, E_FAILCOMMIT, E_GCFAIL = range(7)
NISO, NWORK, NEND = len(ISOS), len(WORKS), len(ENDINGS)
# menus: "F" full; "R" reduced (the work shapes that leave most state behind)
MENU_WORKS = {"F": [0, 1, 2, 3], "R": [3]}
MENU_ISOS = {"F": [0, 1, 2, 3, 4], "R": [0, 2]}  # restricted menu: default / AUTOCOMMIT only


class PropertyViolation(Exception):
    pass


class _BlockError(Exception):
    pass


def _fail(tag: str, detail: str = ""):
    raise PropertyViolation("[[%s]] %s" % (tag, detail))


def _pick(x, lo: int, hi: int) -> int:
    """Concrete value of the symbolic int ``x`` (known to be in [lo, hi)): binary search over solver-decided
    comparisons, one path per feasible value."""
    while hi - lo > 1:
        mid = (lo + hi) // 2
        if x < mid:
            hi = mid
        else:
            lo = mid
    return lo


def table(menu: str, fc: int) -> List[Tuple[int, int, int]]:
    """The session alphabet of a menu, ending-major: index -> (ending, isolation, work); without the
    'failed-dbapi-commit+close' ending when ``fc == 0``."""
    endings = [e for e in range(NEND) if fc or e != E_FAILCOMMIT]
    return [(e, i, w) for e in endings for i in MENU_ISOS[menu] for w in MENU_WORKS[menu]]


def _h_pool(n: int, pool: str, reset: str, menus: str, fc: int, e0: int, codes) -> bool:
    """``codes[i]`` indexes ``table(menus[i], fc)``: session i.  ``fc == 0``: no session ends with a failing
    DBAPI commit; ``fc == 1``: at least one does.  The ending of the first session is fixed by the slice if
    ``e0 >= 0``."""
    tables = [table(menus[i], fc) for i in range(n)]
    per_end = len(MENU_ISOS[menus[0]]) * len(MENU_WORKS[menus[0]])
    lo0, hi0 = (e0 * per_end, (e0 + 1) * per_end) if e0 >= 0 else (0, len(tables[0]))
    ok = (lo0 <= codes[0]) & (codes[0] < hi0)
    for i in range(1, n):
        ok = ok & (0 <= codes[i]) & (codes[i] < len(tables[i]))
    assume(ok)  # one fork for all bounds
    sessions = []
    for i in range(n):
        c = _pick(codes[i], lo0, hi0) if i == 0 else _pick(codes[i], 0, len(tables[i]))
        sessions.append(tables[i][c])
    if fc:
        assume(any(e == E_FAILCOMMIT for e, _, _ in sessions))
    # from here on everything is concrete: the real SQLAlchemy code runs with the tracer paused
    try:
        return native(_run_concrete, pool, reset, sessions)
    except Assume:
        assume(False)


def _make(n: int):
    def h(pool, reset, menus, fc, e0, codes):
        return _h_pool(n, pool, reset, menus, fc, e0, codes)

    h.__name__ = h.__qualname__ = "h_pool_%d" % n
    h.__annotations__ = {"pool": str, "reset": str, "menus": str, "fc": int, "e0": int, "codes": Tuple[(int,) * n], "return": bool}
    return h


MAXN = 4
H_POOL = {n: _make(n) for n in range(1, MAXN + 1)}
globals().update({h.__name__: h for h in H_POOL.values()})


def _run_concrete(pool, reset, sessions) -> bool:
    with warnings.catch_warnings():
        warnings.simplefilter("ignore")
        was_enabled = gc.isenabled()
        gc.disable()  # collections happen exactly where the history says so
        try:
            return _run(pool, reset, sessions)
        finally:
            if was_enabled:
                gc.enable()


def _setup(pool: str, reset: str):
    kw = dict(poolclass=getattr(sa_pool, pool), pool_reset_on_return=(None if reset == "none" else reset))
    eng, srv = fakedb.make_engine(**kw)
    eng.connect().close()  # first connect: dialect initialisation (default isolation level)
    return eng, srv


def _state(raw) -> str:
    return "pending=%r savepoints=%r in_txn=%r isolation=%r autocommit=%r" % (
        raw.pending, raw.savepoints, raw.in_txn, raw.isolation_level, raw.autocommit)


def _check_checkout(raw, reset: str, where: str, dirty_allowed: bool) -> None:
    """The oracle at every checkout."""
    if raw.closed or raw.dead:
        _fail("%s:closed-dbapi-connection-handed-out" % where)
    if raw.isolation_level != fakedb.DEFAULT_ISOLATION or raw.autocommit:
        _fail("%s:isolation-level-not-reset" % where, _state(raw))
    if not dirty_allowed:
        if raw.pending:
            _fail("%s:uncommitted-rows-of-previous-user" % where, _state(raw))
        if raw.savepoints:
            _fail("%s:savepoints-of-previous-user" % where, _state(raw))
        if raw.in_txn:
            _fail("%s:open-transaction-of-previous-user" % where, _state(raw))


def _run(pool: str, reset: str, sessions) -> bool:
    eng, srv = _setup(pool, reset)
    committed: List[int] = []  # model: rows every connection must see
    dirty_allowed = False      # reset_on_return=None and a session ended without the Connection's own rollback
    prev = "first-checkout"
    v = 0
    for i in range(len(sessions)):
        ending, iso, work = sessions[i]
        what = "%s/%s" % (ENDINGS[ending], WORKS[work]) + ("/" + ISOS[iso] if iso else "")
        conn = eng.connect()
        raw = conn.connection.dbapi_connection
        _check_checkout(raw, reset, "checkout-after:" + prev, dirty_allowed)
        if srv.committed != committed and not dirty_allowed:
            _fail("checkout-after:%s:committed-rows" % prev, "server %r model %r" % (srv.committed, committed))
        inherited = list(raw.pending)  # only possible when dirty_allowed
        autocommit = False
        if ISOS[iso] is not None:
            steps = ISOS[iso].split("+")
            for st in steps:
                if st == "token":
                    conn.execution_options(logging_token="tok")  # an unrelated connection-level option first
                else:
                    conn.execution_options(isolation_level=st)
            autocommit = steps[-1] == "AUTOCOMMIT"
            if autocommit:
                if not raw.autocommit:
                    _fail("%s:isolation-level-not-set" % what, _state(raw))
            elif (raw.autocommit, raw.isolation_level) != (False, steps[-1]):
                _fail("%s:isolation-level-not-set" % what, _state(raw))
        pending: List[int] = []
        if work in (1, 2, 3):
            if work == 2:
                conn.begin()
            v += 1
            conn.exec_driver_sql("INSERT %d" % v)
            (committed if autocommit else pending).append(v)
            if work == 3:
                conn.begin_nested()
                v += 1
                conn.exec_driver_sql("INSERT %d" % v)
                (committed if autocommit else pending).append(v)
        # ---- the session ends: first what the user does, then the release of the connection
        own_rollback = False  # released through Connection.close(), which is documented to roll back
        if ending == E_COMMIT:
            conn.commit()
            committed.extend(inherited + pending)
            pending = []
            inherited = []
        elif ending == E_INVALIDATE:
            conn.invalidate()
            if not raw.closed:
                _fail("%s:invalidated-dbapi-connection-not-closed" % what)
            pending = []
            inherited = []
        elif ending == E_FAILCOMMIT:
            if conn.in_transaction():
                srv.faults[srv.calls + 1] = "error"
                try:
                    conn.commit()
                    _fail("%s:injected-commit-failure-not-raised" % what)
                except sa_exc.DBAPIError:
                    pass
                srv.faults.clear()
            else:
                own_rollback = True  # nothing was begun, nothing to roll back
        before = list(srv.committed)
        if ending in (E_CLOSE, E_COMMIT):
            conn.close()
            own_rollback = True
        elif ending == E_EXC:
            try:
                with conn:
                    raise _BlockError("raised inside the with block")
            except _BlockError:
                pass
            own_rollback = True
        elif ending in (E_GC, E_GCFAIL):
            if ending == E_GCFAIL:
                # the DBAPI rollback()/commit() the pool issues as its reset-on-return fails
                srv.fault_ops = {"rollback", "commit"}
                for k in range(1, 9):
                    srv.faults[srv.calls + k] = "error"
            alive = weakref.ref(conn)
            conn = None
            gc.collect(0)  # gc is disabled during the history: everything allocated since is in generation 0
            if alive() is not None:
                gc.collect()
            if alive() is not None:
                _fail("harness:dropped-connection-not-collected")
            if ending == E_GCFAIL:
                srv.faults.clear()
                srv.fault_ops = None
                pending = []
                inherited = []
        else:
            conn.close()
        conn = None
        # ---- what the release may have done to the rows
        after = list(srv.committed)
        left = inherited + pending
        if reset == "commit":
            # Connection.close() is documented to roll back, the pool to commit: either, but all or nothing
            if after != before and after != before + left:
                _fail("%s:return-to-pool-commits-partially" % what, "before %r after %r uncommitted %r" % (before, after, left))
            committed = list(after)
        elif after != before:
            # rows the user did not commit are never committed ("rollback"), nothing is done at all (None)
            _fail("%s:return-to-pool-commits-rows" % what, "before %r after %r" % (before, after))
        if reset == "none":
            committed = list(srv.committed)  # rows are not tracked when reset-on-return is disabled
        elif srv.committed != committed:
            _fail("%s:committed-rows" % what, "server %r model %r" % (srv.committed, committed))
        # reset_on_return=None: whatever the Connection did not clean up itself may stay
        dirty_allowed = reset == "none" and (dirty_allowed or not own_rollback) and pool != "NullPool"
        if pool == "NullPool" and not raw.closed:
            _fail("%s:NullPool-leaves-dbapi-connection-open" % what)
        prev = what
    # ---- a later user: clean connection, and its commit commits only its own rows
    conn = eng.connect()
    raw = conn.connection.dbapi_connection
    _check_checkout(raw, reset, "checkout-after:" + prev, dirty_allowed)
    conn.exec_driver_sql("INSERT 99")
    conn.commit()
    conn.close()
    if not dirty_allowed and srv.committed != committed + [99]:
        _fail("later-users-commit-after:%s:committed-rows" % prev, "server %r model %r" % (srv.committed, committed + [99]))
    return True


# --------------------------------------------------------------------------------------------------

META = {
    "explanation": "Real Engine/Connection and the five Pool classes over a transactional fake DBAPI, for each pool_reset_on_return; "
                   "a symbolic history of sessions (isolation level option, shape of the work left behind, way of ending): the solver "
                   "decides every session code (binary search over z3-decided comparisons), the SQLAlchemy code then runs on the realised "
                   "history (no symbolic value can reach it). At each "
                   "checkout the fake DBAPI connection handed out is inspected (uncommitted rows, savepoints, open transaction, "
                   "isolation level, autocommit) and the rows visible to other connections are compared with a model.",
    "functions": [
        "pool.base._ConnectionFairy.{_checkout,_checkin,_reset,_close_special,close,invalidate}, pool.base._finalize_fairy (explicit and "
        "weakref/gc path), pool.base._ConnectionRecord.{checkout,checkin,finalize_callback,invalidate,get_connection}",
        "pool.impl.{QueuePool,StaticPool,SingletonThreadPool,NullPool,AssertionPool}._do_get/_do_return_conn",
        "engine.base.Connection.{close,__exit__,execution_options,invalidate,commit,begin,begin_nested,exec_driver_sql}, RootTransaction._close_impl",
        "engine.default.DefaultDialect.{set_connection_execution_options,_set_connection_characteristics,_reset_characteristics,do_rollback,do_commit,"
        "reset_isolation_level}, engine.characteristics.IsolationLevelCharacteristic",
    ],
    "bounds": {
        "quick": {"sessions": "<=2 (second session: work shape 'insert+begin_nested+insert' only)", "per session": "isolation %s x work %s x ending %s" % (ISOS, WORKS, ENDINGS),
                  "pools": POOLS, "reset_on_return": RESETS},
        "thorough": {"sessions": "<=2 full menu for every pool/reset; 3 for QueuePool, StaticPool and SingletonThreadPool (second and third session: work shape 'insert+begin_nested+insert' only)", "per session": "as quick", "pools": POOLS, "reset_on_return": RESETS},
    },
    "outside": [
        "real servers; threads; asyncio terminate path; detach(); Pool.dispose()",
        "reset_on_return='commit': whether rows left by a session are committed or rolled back at return (Connection.close documents an "
        "unconditional rollback, the pool parameter an unconditional commit) -- only all-or-nothing is required",
        "reset_on_return=None: uncommitted rows / open transactions left by sessions that did not end with Connection.close() may stay "
        "(reset explicitly disabled); the isolation level must still be reset",
        "faults other than one ordinary DBAPI error in commit() (C26, C27)",
    ],
    "stubs": ["vlib/fakedb.py fake DBAPI + FakeDialect (isolation level and autocommit are attributes of the fake connection)"],
    "assumptions": ["garbage collection runs exactly where the history says (gc disabled during a history, gc.collect() at 'dropped+gc')",
                    "engine creation and everything after the solver has fixed the history run concretely"],
}


def _slices(menus: str, split: bool, pools=POOLS, resets=RESETS):
    """Histories without a failing DBAPI commit (optionally one slice per ending of the first session) and,
    separately, histories with at least one."""
    out = []
    for p in pools:
        for r in resets:
            for e in (range(NEND - 1) if split else (-1,)):
                out.append(dict(pool=p, reset=r, menus=menus, fc=0, e0=e))
            out.append(dict(pool=p, reset=r, menus=menus, fc=1, e0=-1))
    return out


def harnesses(tier: str) -> List[Harness]:
    q = tier == "quick"
    per_n = {1: _slices("F", False), 2: _slices("FR" if q else "FF", not q)}
    if not q:
        per_n[3] = _slices("FRR", True, pools=["QueuePool", "StaticPool", "SingletonThreadPool"])
    return [Harness("pool_sessions_n%d" % n, H_POOL[n], sl, budget_s=150 if q else 800) for n, sl in per_n.items()]


def _tag(rep) -> str:
    s = (rep or {}).get("exception") or ""
    if "[[" in s and "]]" in s:
        return s.split("[[", 1)[1].split("]]", 1)[0]
    return ""


def classify(hname, args, rep):
    tag = _tag(rep)
    exc_s = (rep or {}).get("exception") or ""
    sess = []
    for i, c in enumerate(args["codes"]):
        ending, iso, work = table(args["menus"][i], args["fc"])[c]
        sess.append("%s/%s%s" % (ENDINGS[ending], WORKS[work], "/" + ISOS[iso] if iso else ""))
    desc = "%s reset_on_return=%s sessions %s" % (args["pool"], args["reset"], sess)
    if tag.startswith("checkout-after:failed-dbapi-commit+close/") and args["reset"] == "rollback" and (
            tag.endswith(":uncommitted-rows-of-previous-user") or tag.endswith(":savepoints-of-previous-user")
            or tag.endswith(":open-transaction-of-previous-user")):
        key = "C24:close-after-failed-commit:connection-returned-to-pool-without-rollback"
        return key, ("after the DBAPI commit() failed, Connection.close() hands the DBAPI connection back to the pool without any rollback "
                     "(neither by the Connection nor by reset_on_return='rollback'); the next checkout inherits the open transaction: "
                     "%s: %s  [key %s]" % (desc, exc_s[:200], key))
    key = "C24:" + (tag or "sessions:%s" % "|".join(sess))
    if tag:
        key = "C24:%s:%s:%s" % (args["pool"], args["reset"], tag)
    return key, "%s: %s  [key %s]" % (desc, exc_s[:300], key)


def run(tier: str, seed: int):
    return framework.run_symx(PID, __name__, tier, seed, harnesses(tier), classify, META)
