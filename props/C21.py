"""C21 Generated and truncated names are bounded, deterministic and unique (E1 symx).

Length limits (``max_identifier_length``, ``label_length``), truncation counters and the md5 suffix
are symbolic ints flowing through the real truncation kernels; names themselves are ``str`` subclasses
(``_truncated_label``/``conv``/``_anonymous_label``) whose construction realises them, so name *content*
is chosen by the solver from tables (style (b)); statements and DDL are compiled concretely.
"""
from __future__ import annotations

import re
from typing import List, Optional

from vlib import framework
from vlib.framework import Harness
from vlib.symx import assume, concrete, native, _tracing

import sqlalchemy as sa
from sqlalchemy import exc, util
from sqlalchemy.engine.default import DefaultDialect
from sqlalchemy.dialects import mysql, oracle, postgresql, sqlite
from sqlalchemy.schema import AddConstraint, CreateIndex, CreateTable
from sqlalchemy.sql import elements, naming
from sqlalchemy.sql._util_cy import prefix_anon_map
from sqlalchemy.sql.elements import _anonymous_label, _truncated_label, conv

PID = "C21"

NAME = ("abcdefghij" * 40)  # deterministic name content; only its length matters to the kernels
DIALECT = DefaultDialect()
PREP = DIALECT.identifier_preparer
COMPILER = DIALECT.statement_compiler(DIALECT, None)


def _pin(code, n: int) -> int:
    assume(0 <= code)
    assume(code < n)
    lo, hi = 0, n - 1
    while lo < hi:
        mid = (lo + hi) // 2
        if code <= mid:
            hi = mid
        else:
            lo = mid + 1
    return lo


def _hexlow(d):
    return chr(d + 48 + 39 * ((d + 6) // 16))  # 0-9 -> '0'-'9', 10-15 -> 'a'-'f'


class _Md5Stub:
    """Contract of util.md5_hex (C, hashlib): *some* string of 32 lower-case hex digits, a function of
    its argument.  The last four digits (the only ones the code uses) come from the symbolic int h."""

    def __init__(self, h):
        self.h = h
        self.calls = []

    def __call__(self, x):
        self.calls.append(x)
        h = self.h
        return "0" * 28 + _hexlow(h // 4096) + _hexlow((h // 256) % 16) + _hexlow((h // 16) % 16) + _hexlow(h % 16)


# (a) symbolic max_ and md5 digits: IdentifierPreparer._truncate_and_render_maxlen_name on a
# convention-generated name (conv / _truncated_label) of length L
def h_maxlen(L: int, lo: int, hi: int, max_: int, h: int) -> bool:
    assume(lo <= max_)
    assume(max_ <= hi)
    assume(0 <= h)
    assume(h < 65536)
    name = conv(NAME[:L])
    stub = _Md5Stub(h)
    saved = util.md5_hex
    util.md5_hex = stub
    try:
        out1 = PREP._truncate_and_render_maxlen_name(name, max_, False)
        out2 = PREP._truncate_and_render_maxlen_name(name, max_, False)
    finally:
        util.md5_hex = saved
    if out1 != out2:
        return False  # determinism
    if L <= max_:
        return out1 == NAME[:L] and len(stub.calls) == 0
    if len(out1) > max_:
        return False  # bounded
    # reference truncation: prefix + "_" + last four md5 digits of the *whole* name
    if max_ >= 8:
        want = NAME[:L][0:max_ - 8] + "_" + stub(name)[-4:]
        return out1 == want and stub.calls[0] == NAME[:L]
    return True


# (a) symbolic dialect.max_identifier_length: explicit (plain str) names are validated, never truncated
def h_validate(L: int, M: int) -> bool:
    assume(1 <= M)
    assume(M <= 300)
    d = DefaultDialect()
    d.max_identifier_length = M
    prep = d.identifier_preparer
    name = NAME[:L]
    try:
        d.validate_identifier(name)
        raised = False
    except exc.IdentifierError:
        raised = True
    if raised != (L > M):
        return False
    try:
        out = prep._truncate_and_render_maxlen_name(name, M, False)
    except exc.IdentifierError:
        return L > M
    return L <= M and out == name


# (a) symbolic label_length: SQLCompiler._truncated_identifier
COUNTERS = [1, 2, 15, 16, 255, 256, 4095, 4096, 0xFFFFE]


def h_truncated_identifier(kind: str, L: int, c0: int, lo: int, hi: int, ll: int) -> bool:
    assume(lo <= ll)
    assume(ll <= hi)
    comp = COMPILER
    comp.label_length = ll
    comp.truncated_names = {}
    comp._truncated_counters = {"colident": c0} if c0 != 1 else {}
    comp.anon_map = prefix_anon_map()
    if kind == "anon":
        name = _anonymous_label.safe_construct(12345, NAME[:L])
        full = NAME[:L] + "_1"
    else:
        name = _truncated_label(NAME[:L])
        full = NAME[:L]
    out1 = comp._truncated_identifier("colident", name)
    out2 = comp._truncated_identifier("colident", name)  # memoised: same element -> same name
    if out1 != out2:
        return False
    if len(full) <= ll - 6:
        return out1 == full and comp._truncated_counters.get("colident", 1) == c0
    if len(out1) > ll:
        return False
    if comp._truncated_counters.get("colident") != c0 + 1:
        return False
    if out1 != full[0:ll - 6] + "_" + hex(c0)[2:]:
        return False
    # a different element with the same text prefix gets a different name (the counter is part of it)
    other = _truncated_label(full[0:ll - 6] + "zzzzzzzzzz") if kind != "anon" else _anonymous_label.safe_construct(777, NAME[:L])
    out3 = comp._truncated_identifier("colident", other)
    return out3 != out1 and len(out3) <= ll


# (b) anonymous labels: format-string safety, counters, determinism
BODY_ALPHABET = ["a", "%", "(", ")", " ", "$", "s", "_", '"', "d"]
BODIES = [""] + BODY_ALPHABET + [x + y for x in BODY_ALPHABET for y in BODY_ALPHABET] + ["%(x)s", "%%", "a b c", "anon"]
_ESC = re.compile(r"[%\(\) \$]+")


def _anon_body(idx: int) -> bool:
    body = BODIES[idx]
    clean = _ESC.sub("_", body)
    m = prefix_anon_map()
    l1 = _anonymous_label.safe_construct(1, body)
    l2 = _anonymous_label.safe_construct(2, body)
    l1b = _anonymous_label.safe_construct(1, body)
    a, b, c = l1.apply_map(m), l2.apply_map(m), l1b.apply_map(m)
    if a != clean + "_1" or b != clean + "_2" or c != a:
        return False
    lab, key = _anonymous_label.safe_construct_with_key(3, body)
    if lab.apply_map(m) != clean + "_3" or m[key % ()] != clean + "_3":
        return False
    # concatenation keeps the anonymous part substitutable and the literal part literal
    return (l1 + "_%x").apply_map(prefix_anon_map()) == clean + "_1_%x" and ("%y_" + l1).apply_map(prefix_anon_map()) == "%y_" + clean + "_1"


def h_anon(idx: int) -> bool:
    return native(_anon_body, _pin(idx, len(BODIES)))


# (b) naming conventions: token expansion against a reference expansion
TOKENS = ["%(table_name)s", "%(column_0_name)s", "%(column_1_name)s", "%(column_0N_name)s", "%(column_0_N_name)s",
          "%(column_0_key)s", "%(column_0N_key)s", "%(column_0_label)s", "%(column_0_N_label)s", "%(constraint_name)s",
          "%(referred_table_name)s", "%(referred_column_0_name)s", "%(referred_column_0_N_name)s"]
TEMPLATES = ["ix_" + t for t in TOKENS[:10]] + ["%(table_name)s_%(column_0_N_name)s_x", "fk_%(table_name)s_%(column_0_name)s_%(referred_table_name)s",
                                               "%(column_0_name)s%(column_0_name)s", "lit"] + ["q_" + t for t in TOKENS[10:]]
NAMES = ["t", "a%b", "A B", "x" * 40, "%(table_name)s", "é"]
KINDS = ["ix", "uq", "ck", "fk"]


def _ref_expand(template: str, kind: str, tname: str, cols, keys, cname: Optional[str], ref):
    def repl(m):
        tok = m.group(1)
        if tok == "table_name":
            return tname
        if tok == "constraint_name":
            if cname is None:
                raise exc.InvalidRequestError("needs a name")
            return cname
        if tok == "referred_table_name":
            return ref[0]
        mm = re.fullmatch(r"(referred_)?column_(\d+)(_?N)?_(name|key|label)", tok)
        if mm:
            if mm.group(1):
                if mm.group(4) != "name":
                    raise KeyError(tok)
                vals = list(ref[1])
            elif mm.group(4) == "name":
                vals = list(cols)
            elif mm.group(4) == "key":
                vals = list(keys)
            else:
                vals = [tname + "_" + c for c in cols]
            if mm.group(3):
                return ("_" if mm.group(3).startswith("_") else "").join(vals)
            i = int(mm.group(2))
            if mm.group(1):
                return vals[i]
            return vals[i] if i < len(vals) else ""
        raise KeyError(tok)

    return re.sub(r"%\((\w+)\)s", repl, template)


def _naming_body(kind: str, tpl: int, ncols: int, nm: int, named: bool) -> bool:
    template = TEMPLATES[tpl]
    tname = NAMES[nm]
    cols = [NAMES[(nm + 1 + i) % len(NAMES)] + str(i) for i in range(ncols)]
    keys = ["k_" + c for c in cols]
    md = sa.MetaData(naming_convention={kind: template})
    other = sa.Table("other tbl", md, sa.Column("id", sa.Integer), sa.Column("id2", sa.Integer))
    t = sa.Table(tname, md, *[sa.Column(c, sa.Integer, key=k) for c, k in zip(cols, keys)], sa.Column("zz", sa.Integer))
    tcols = [t.c[k] for k in keys]
    cname = "cn" if named else None
    uses_ref = "referred" in template
    if kind != "fk" and uses_ref:
        return True  # referred_* tokens only exist for foreign keys
    if ncols == 0 and kind != "ck":
        return True  # only a textual CHECK constraint can have no columns
    ref = ("other tbl", ["id", "id2"][:max(ncols, 1)])
    try:
        want = _ref_expand(template, kind, tname, cols, keys, cname, ref)
        want_exc = None
    except (exc.InvalidRequestError, KeyError, IndexError) as e:
        want, want_exc = None, type(e)
    try:
        if kind == "ix":
            const = sa.Index(cname, *tcols, _table=t) if tcols else sa.Index(cname, _table=t)
        elif kind == "uq":
            const = sa.UniqueConstraint(*tcols, name=cname)
            t.append_constraint(const)
        elif kind == "ck":
            const = sa.CheckConstraint(sa.and_(*[c > 5 for c in tcols]) if tcols else sa.text("1=1"), name=cname)
            t.append_constraint(const)
        else:
            const = sa.ForeignKeyConstraint(tcols, [other.c.id, other.c.id2][:ncols], name=cname)
            t.append_constraint(const)
        got = const.name
        got_exc = None
    except (exc.InvalidRequestError, KeyError, IndexError) as e:
        got, got_exc = None, type(e)
    if want_exc is not None or got_exc is not None:
        return want_exc is not None and got_exc is not None
    if named and "constraint_name" not in template:
        return got == "cn"  # an explicit name wins over a convention without the constraint_name token
    if want == "":
        return not got  # an empty expansion names nothing
    if not isinstance(got, conv) or str(got) != want:
        return False
    # deterministic: asking again gives the same text; rendering respects the dialect's limit
    again = naming._constraint_name_for_table(const, t)
    if again is not None and str(again) != want:
        return False
    for d in (DefaultDialect(max_identifier_length=30), mysql.dialect(), postgresql.dialect(), oracle.dialect()):
        r1 = d.identifier_preparer.format_constraint(const, _alembic_quote=False)
        r2 = d.identifier_preparer.format_constraint(const, _alembic_quote=False)
        limit = (d.max_index_name_length if kind == "ix" else d.max_constraint_name_length) or d.max_identifier_length
        if r1 != r2 or len(r1) > limit or (len(want) <= limit and r1 != want):
            return False
    return True


NAMING_SLICES = [(k, n, named) for k in KINDS for n in (0, 1, 2) for named in (False, True)]


def h_naming(kind: str, ncols: int, named: bool, code: int) -> bool:
    c = _pin(code, len(TEMPLATES) * len(NAMES))
    return native(_naming_body, kind, c % len(TEMPLATES), ncols, c // len(TEMPLATES), named)


# (b) explicit (user-given) index / constraint names in DDL: IdentifierError exactly when the name is
# longer than what the dialect says such a name may be; convention names are truncated to that limit
DDL_DIALECTS = {"default30": lambda: DefaultDialect(max_identifier_length=30), "mysql": mysql.dialect,
                "postgresql": postgresql.dialect, "oracle": oracle.dialect, "sqlite": sqlite.dialect}
DDL_DELTAS = [-40, -1, 0, 1, 2, 40]


def _ddl_body(dn: str, what: str, explicit: bool, delta: int) -> bool:
    d = DDL_DIALECTS[dn]()
    limit = (d.max_index_name_length if what == "ix" else d.max_constraint_name_length) or d.max_identifier_length
    if limit > 2000:
        limit = 64  # sqlite: no limit; any length must render unchanged
    L = max(limit + delta, 1)
    md = sa.MetaData() if explicit else sa.MetaData(naming_convention={"ix": "%(column_0_label)s", "uq": "%(column_0_label)s"})
    colname = NAME[: max(L - 2, 1)]
    t = sa.Table("t", md, sa.Column(colname if not explicit else "c", sa.Integer))
    col = list(t.c)[0]
    name = NAME[:L] if explicit else None
    if what == "ix":
        obj = sa.Index(name, col)
        ddl = CreateIndex(obj)
    else:
        obj = sa.UniqueConstraint(col, name=name)
        t.append_constraint(obj)
        ddl = AddConstraint(obj)
    eff = len(name) if explicit else len(str(obj.name))
    real_limit = (d.max_index_name_length if what == "ix" else d.max_constraint_name_length) or d.max_identifier_length
    try:
        s1 = str(ddl.compile(dialect=d))
        s2 = str(ddl.compile(dialect=d))
        raised = False
    except exc.IdentifierError:
        raised = True
    if explicit:
        if raised != (eff > real_limit):
            return False
        return raised or (s1 == s2 and name in s1)
    if raised or s1 != s2:
        return False
    rendered = d.identifier_preparer.format_constraint(obj, _alembic_quote=False)
    return len(rendered) <= real_limit and rendered in s1 and (eff > real_limit or rendered == str(obj.name))


def h_ddl(dn: str, what: str, explicit: bool, code: int) -> bool:
    return native(_ddl_body, dn, what, explicit, DDL_DELTAS[_pin(code, len(DDL_DELTAS))])


# (b) collisions within one compiled statement: labels generated from table/column names
# (LABEL_STYLE_TABLENAME_PLUS_COL -> _truncated_label), anonymous labels, and user-given labels
SHAPES = [(pl, tl) for pl in (0, 1, 3, 4, 5, 9, 20) for tl in (1, 3, 4, 5, 6, 10, 11, 21, 30) if tl > pl or (pl, tl) == (0, 1)]
LABEL_LENGTHS = [None, 7, 8, 10, 12, 20, 30]


def _mkname(shape, salt: str) -> str:
    pl, tl = shape
    return ("p" * pl + salt + "q" * 40)[:tl] if tl - pl >= len(salt) else ("p" * pl + salt)[: max(tl, pl + len(salt))]


def _collision_body(ll_idx: int, ncols: int, s1: int, s2: int) -> bool:
    k = LABEL_LENGTHS[ll_idx]
    d = DefaultDialect(label_length=k) if k else DefaultDialect()
    names = []
    for i, si in enumerate((s1, s2, (s1 + s2) % len(SHAPES))[:ncols]):
        names.append(_mkname(SHAPES[si], "c%d" % i))
    if len(set(names)) != len(names):
        return True  # the user gave two columns the same name: not a generated-name collision
    t = sa.table("tab", *[sa.column(n) for n in names])
    stmt = sa.select(t).set_label_style(sa.LABEL_STYLE_TABLENAME_PLUS_COL)
    c1 = stmt.compile(dialect=d)
    c2 = stmt.compile(dialect=d)
    keys = [rc[0] for rc in c1._result_columns]
    if str(c1) != str(c2) or keys != [rc[0] for rc in c2._result_columns]:
        return False
    if len(set(keys)) != len(keys):
        return False
    limit = k or d.max_identifier_length
    return all(len(x) <= limit for x in keys)


def h_collision(ll_idx: int, ncols: int, code: int) -> bool:
    c = _pin(code, len(SHAPES) ** 2)
    return native(_collision_body, ll_idx, ncols, c % len(SHAPES), c // len(SHAPES))


USER_LABELS = [None, "anon_1", "anon_2", "x", "tab_a", "a", "a_1", "param_1"]


def _userlabel_body(style: int, i1: int, i2: int, i3: int) -> bool:
    t = sa.table("tab", sa.column("a"), sa.column("b"))
    exprs = [t.c.a + 1, t.c.b + 2, t.c.a]
    labs = [USER_LABELS[i1], USER_LABELS[i2], USER_LABELS[i3]]
    given = [x for x in labs if x is not None]
    if len(set(given)) != len(given):
        return True  # same explicit label twice: the user's own choice
    cols = []
    for e, lab in zip(exprs, labs):
        cols.append(e.label(lab) if lab is not None else e)
    stmt = sa.select(*cols)
    if style:
        stmt = stmt.set_label_style(sa.LABEL_STYLE_TABLENAME_PLUS_COL)
    comp = stmt.compile(dialect=DefaultDialect())
    keys = [rc[0] for rc in comp._result_columns]
    return len(set(keys)) == len(keys)


def h_userlabel(style: int, code: int) -> bool:
    n = len(USER_LABELS)
    c = _pin(code, n ** 3)
    return native(_userlabel_body, style, c % n, (c // n) % n, c // (n * n))


# ------------------------------------------------------------------------------------------

LENS = [0, 1, 4, 7, 8, 9, 12, 30, 63, 64, 65, 128, 255, 256, 300]

META = {
    "explanation": "Style (a), symbolic ints through the real kernels: max_ (IdentifierPreparer._truncate_and_render_maxlen_name), "
                   "dialect.max_identifier_length (DefaultDialect.validate_identifier), label_length "
                   "(SQLCompiler._truncated_identifier) and the md5 suffix digits are CrossHair symbolic ints, name lengths are "
                   "slice parameters (names are str subclasses: constructing one realises its text, and only its length "
                   "matters to the kernels); oracle: rendered length <= limit, same output on a second call, untouched when "
                   "short enough, reference truncation text, counter consumed exactly once and part of the name. Style (b), "
                   "solver-chosen table index, concrete execution: _anonymous_label construction/apply_map (format-string "
                   "safety), naming-convention token expansion against a reference expansion (+ format_constraint per dialect), "
                   "explicit vs convention names in CREATE INDEX / ADD CONSTRAINT per dialect, and collisions among result "
                   "column names of one compiled SELECT (statements are compiled concretely, never under the tracer).",
    "functions": ["sql.compiler.IdentifierPreparer.{_truncate_and_render_maxlen_name,truncate_and_render_index_name,"
                  "truncate_and_render_constraint_name,format_constraint}", "engine.default.DefaultDialect.validate_identifier",
                  "sql.compiler.SQLCompiler._truncated_identifier", "sql.elements.{_truncated_label,conv,_anonymous_label}."
                  "{safe_construct,safe_construct_with_key,apply_map,__add__,__radd__}", "sql._util_cy.prefix_anon_map.__missing__",
                  "sql.naming.{ConventionDict.__getitem__,_constraint_name_for_table,_constraint_name}",
                  "DDLCompiler.visit_create_index / visit_add_constraint (name formatting)",
                  "SQLCompiler label generation for LABEL_STYLE_TABLENAME_PLUS_COL / anonymous labels (collision sub-harness)"],
    "bounds": {
        "quick": {"name length": LENS, "max_ / max_identifier_length": "symbolic 1..300 (ranges 1..7, 8, 9..255, 256..300)",
                  "label_length": "symbolic 7..255", "truncation counter start": COUNTERS, "md5": "any 4 trailing hex digits",
                  "anonymous label bodies": "%d strings over %r" % (len(BODIES), "".join(BODY_ALPHABET)),
                  "naming": "%d templates x %d names x 4 constraint kinds (ix, uq, ck, fk) x 0..2 columns x named/unnamed" % (len(TEMPLATES), len(NAMES)),
                  "collisions": "2..3 generated labels from %d (prefix_len,total_len) shapes, label_length in %r; 3 user labels from %r" % (len(SHAPES), LABEL_LENGTHS, USER_LABELS)},
        "thorough": {"as quick, plus": "max_ and label_length up to 1000, all %d name lengths x %d counter starts for _truncated_identifier" % (len(LENS), len(COUNTERS))},
    },
    "outside": ["label_length < 7 (the brief's bound; '_' + counter alone is 2+ characters)", "more than 0xFFFFF truncated names in one statement (6 hex digits)",
                "naming conventions with user callables", "name *content* beyond the tables (the kernels only slice and measure)",
                "two columns given the same explicit label by the user", "collisions across different statements"],
    "stubs": ["sqlalchemy.util.md5_hex (hashlib, C) replaced inside the harness by its contract: an arbitrary 32-hex-digit string whose last four digits are a symbolic int"],
    "assumptions": ["the dialect attributes max_index_name_length / max_constraint_name_length / max_identifier_length state the backend's limit for that kind of name"],
}


def harnesses(tier: str) -> List[Harness]:
    q = tier == "quick"
    hs: List[Harness] = []
    top = 300 if q else 1000
    ranges = [(1, 7), (8, 8), (9, 255), (256, top)]
    hs.append(Harness("maxlen", h_maxlen, [dict(L=L, lo=lo, hi=hi) for L in LENS for lo, hi in ranges], budget_s=60))
    hs.append(Harness("validate", h_validate, [dict(L=L) for L in LENS], budget_s=120))
    hs.append(Harness("truncated_identifier", h_truncated_identifier,
                      [dict(kind=k, L=L, c0=c, lo=lo, hi=hi) for k in ("label", "anon")
                       for L in ((0, 4, 12, 64, 300) if q else LENS) for c in ((1, 16, 0xFFFFE) if q else COUNTERS)
                       for lo, hi in ((7, 255),) + (() if q else ((256, top),))], budget_s=90))
    hs.append(Harness("anon", h_anon, [dict()], budget_s=60))
    hs.append(Harness("naming", h_naming, [dict(kind=k, ncols=n, named=nm) for k, n, nm in NAMING_SLICES], budget_s=120))
    hs.append(Harness("ddl", h_ddl, [dict(dn=d, what=w, explicit=e) for d in DDL_DIALECTS for w in ("ix", "uq") for e in (False, True)],
                      budget_s=60))
    hs.append(Harness("collision", h_collision, [dict(ll_idx=i, ncols=n) for i in range(len(LABEL_LENGTHS)) for n in (2, 3)],
                      budget_s=240))
    hs.append(Harness("userlabel", h_userlabel, [dict(style=s) for s in (0, 1)], budget_s=120))
    return hs


def classify(hname, args, rep):
    if hname == "maxlen":
        if args["max_"] < 8:
            return ("C21:maxlen:max_identifier_length<8",
                    "_truncate_and_render_maxlen_name(conv(%d chars), max_=%d): name[0:max_-8] is a negative slice, the "
                    "result is longer than max_" % (args["L"], args["max_"]))
        return ("C21:maxlen:L=%s:max>=8" % args["L"], "_truncate_and_render_maxlen_name fails on %s" % (args,))
    if hname == "ddl":
        delta = DDL_DELTAS[args["code"]]
        if args["explicit"] and args["dn"] == "mysql":
            return ("C21:ddl:mysql:explicit-%s-name-validated-against-max_identifier_length" % args["what"],
                    "mysql: an explicit %s name of %d characters is validated against max_identifier_length=255, not "
                    "against max_%s_name_length=64: no IdentifierError, the name is rendered unchanged"
                    % ("index" if args["what"] == "ix" else "constraint", 64 + delta, "index" if args["what"] == "ix" else "constraint"))
        return ("C21:ddl:%s:%s:%s:%+d" % (args["dn"], args["what"], "explicit" if args["explicit"] else "convention", delta),
                "DDL name rendering fails on %s" % (args,))
    if hname == "userlabel":
        n = len(USER_LABELS)
        c = args["code"]
        labs = [USER_LABELS[c % n], USER_LABELS[(c // n) % n], USER_LABELS[c // (n * n)]]
        t = sa.table("tab", sa.column("a"), sa.column("b"))
        exprs = [t.c.a + 1, t.c.b + 2, t.c.a]
        stmt = sa.select(*[e.label(lab) if lab is not None else e for e, lab in zip(exprs, labs)])
        if args["style"]:
            stmt = stmt.set_label_style(sa.LABEL_STYLE_TABLENAME_PLUS_COL)
        keys = [rc[0] for rc in stmt.compile(dialect=DefaultDialect())._result_columns]
        dup = sorted(set(k for k in keys if keys.count(k) > 1))
        return ("C21:collision:user-label-equals-generated-name:%s" % "+".join(sorted(set(re.sub(r"\d+", "N", d) for d in dup))),
                "select() with labels %r (None = generated) has result columns %r: the user-given label %r is also "
                "handed out as a generated name" % (labs, keys, dup))
    if hname == "collision":
        return ("C21:collision:generated:ll=%s:n=%d" % (LABEL_LENGTHS[args["ll_idx"]], args["ncols"]),
                "generated labels collide or exceed label_length: %s" % (args,))
    if hname == "naming":
        c = args["code"]
        return ("C21:naming:%s:%s" % (args["kind"], TEMPLATES[c % len(TEMPLATES)]),
                "naming convention expansion differs from the reference: %s table=%r" % (args, NAMES[c // len(TEMPLATES)]))
    return ("C21:%s:%s" % (hname, {k: v for k, v in sorted(args.items()) if isinstance(v, (str, bool))}),
            "%s fails on %s (%s)" % (hname, args, rep.get("exception")))


def run(tier: str, seed: int):
    return framework.run_symx(PID, __name__, tier, seed, harnesses(tier), classify, META)
