"""C05 Literal rendering is equivalent to binding and cannot inject SQL (E1 symx).

Symbolic ``str`` values flow through the real literal processors / ``render_literal_value`` of every
dialect; the oracle is a hand-written reference *lexer* of each backend's string-literal grammar: the
rendered text must be exactly one literal token that decodes to the input.  Numbers and booleans are
checked against the numeric-literal grammar; on SQLite every failure is re-confirmed at replay by
executing the literal_binds statement and the bound statement through the public API.
"""
from __future__ import annotations

import decimal
import math
import re
import sqlite3
from typing import List, Optional

from vlib import framework
from vlib.framework import Harness
from vlib.symx import assume, concrete, native, _tracing

import sqlalchemy as sa
from sqlalchemy import types as sqltypes
from sqlalchemy.engine import default
from sqlalchemy.engine.url import URL
from sqlalchemy.dialects import mssql, mysql, oracle, postgresql, sqlite
from sqlalchemy.dialects.mssql import pymssql
from sqlalchemy.dialects.mysql import mysqlconnector
from sqlalchemy.dialects.postgresql import asyncpg, pg8000, psycopg2

PID = "C05"


# ------------------------------------------------------------------------------------------
# Engine shim (CrossHair's model of Python, not code under test): ``"'%s'" % value`` realises its
# argument ("almost nobody uses percent formatting anymore").  Exact model for templates whose only
# conversions are plain %s / %% applied to str arguments: concatenation.


def _install_engine_shims() -> bool:
    try:
        import crosshair.core_and_libs  # noqa: F401
        from crosshair import core as ch_core
        from crosshair.libimpl.builtinslib import AnySymbolicStr
    except ImportError:
        return False
    if getattr(ch_core, "_verif_c05_shims", False):
        return True
    from crosshair.core import deep_realize
    from crosshair.tracers import NoTracing

    orig = ch_core._PATCH_REGISTRATIONS[str.__mod__]
    simple = re.compile(r"%[s%]")

    def str_percent_format(self, other):
        if type(self) is str and "%" in self:
            with NoTracing():
                args = other if type(other) is tuple else (other,)
                pieces = simple.split(self)
                convs = simple.findall(self)
                ok = ("%" not in "".join(pieces) and [c for c in convs if c == "%s"].__len__() == len(args)
                      and all(isinstance(a, (str, AnySymbolicStr)) for a in args))
            if ok:
                out = pieces[0]
                k = 0
                for i, c in enumerate(convs):
                    if c == "%s":
                        out = out + args[k]
                        k += 1
                    else:
                        out = out + "%"
                    out = out + pieces[i + 1]
                return out
        return orig(self, other)

    ch_core._PATCH_REGISTRATIONS[str.__mod__] = str_percent_format
    ch_core._verif_c05_shims = True
    return True


_install_engine_shims()


# ------------------------------------------------------------------------------------------
# Dialect variants.  lex: reference string-literal grammar; double: '%' must be doubled in the SQL
# string (format/pyformat drivers except the three SQLAlchemy documents as not needing it).


def _pg(cls, backslash):
    d = cls()
    d._backslash_escapes = backslash  # what initialize() sets for standard_conforming_strings=off
    return d


def _my(cls, backslash):
    d = cls()
    d._backslash_escapes = backslash  # what initialize() sets from sql_mode NO_BACKSLASH_ESCAPES
    return d


DIALECTS = {
    "default": default.DefaultDialect(),
    "sqlite": sqlite.dialect(),
    "postgresql": _pg(postgresql.dialect, False),
    "postgresql:scs_off": _pg(postgresql.dialect, True),
    "postgresql+psycopg2": _pg(psycopg2.dialect, False),
    "postgresql+pg8000": _pg(pg8000.dialect, False),
    "postgresql+asyncpg": _pg(asyncpg.dialect, False),
    "mysql": _my(mysql.dialect, True),
    "mysql:no_backslash_escapes": _my(mysql.dialect, False),
    "mysql+mysqlconnector": _my(mysqlconnector.dialect, True),
    "mariadb": _my(URL.create("mariadb+mysqldb").get_dialect(), True),
    "mssql": mssql.dialect(paramstyle="qmark"),
    "mssql+pymssql": pymssql.dialect(paramstyle="pyformat"),
    "oracle": oracle.dialect(),
}
COMPILERS = {k: d.statement_compiler(d, None) for k, d in DIALECTS.items()}
LEX = {k: "standard" for k in DIALECTS}
for _k in ("mysql", "mysql+mysqlconnector", "mariadb"):
    LEX[_k] = "mysql-backslash"
LEX["postgresql:scs_off"] = "pg-backslash"
DOUBLE = {k: (d.paramstyle in ("format", "pyformat")) for k, d in DIALECTS.items()}
DOUBLE["postgresql+pg8000"] = False
DOUBLE["mysql+mysqlconnector"] = False
DOUBLE["mssql+pymssql"] = False
BOOL_NATIVE = {k: (k.split("+")[0].split(":")[0] in ("postgresql", "mysql", "mariadb")) for k in DIALECTS}

STRING_TYPES = {
    "String": sqltypes.String(), "Unicode": sqltypes.Unicode(), "Text": sqltypes.Text(),
    "UnicodeText": sqltypes.UnicodeText(), "VARCHAR": sqltypes.VARCHAR(30), "NVARCHAR": sqltypes.NVARCHAR(30),
}


def _n_prefix(dn: str, tname: str) -> bool:
    # T-SQL national character literal for the Unicode types of the mssql dialect
    return dn.startswith("mssql") and tname in ("Unicode", "UnicodeText", "NVARCHAR")


# ------------------------------------------------------------------------------------------
# Reference lexers (trusted)

_MYSQL_ESC = {"0": "\x00", "b": "\x08", "n": "\n", "r": "\r", "t": "\t", "Z": "\x1a"}


def _undouble_percent(text):
    """The DBAPI applies ``sql % params`` first: %% -> %, any other % is a conversion (error)."""
    out = []
    i, n = 0, len(text)
    while i < n:
        ch = text[i]
        if ch == "%":
            if i + 1 < n and text[i + 1] == "%":
                out.append("%")
                i += 2
                continue
            return None
        out.append(ch)
        i += 1
    return "".join(out)


def _lex_string(text, mode: str, nprefix: bool):
    """Decode ``text`` as exactly one string literal token; None if it is anything else
    (unterminated, early terminated + trailing text, missing quote).
    standard: '...' with '' -> '.   mysql-backslash: additionally \\x escapes (MySQL manual, table of
    special character escape sequences; \\% and \\_ keep the backslash).  pg-backslash
    (standard_conforming_strings=off): \\\\ -> \\, \\' -> ', any other escape is read as a different
    character (reported as mismatch)."""
    i = 0
    n = len(text)
    if nprefix:
        if n < 1 or text[0] != "N":
            return None
        i = 1
    if i >= n or text[i] != "'":
        return None
    i += 1
    out = []
    while True:
        if i >= n:
            return None  # unterminated
        ch = text[i]
        if ch == "'":
            if i + 1 < n and text[i + 1] == "'":
                out.append("'")
                i += 2
                continue
            if i != n - 1:
                return None  # literal ends early, trailing text follows
            break
        if ch == "\\" and mode != "standard":
            if i + 1 >= n:
                return None
            nx = text[i + 1]
            if nx == "\\" or nx == "'":
                out.append(nx)
            elif mode == "mysql-backslash":
                if nx == "%" or nx == "_":
                    out.append("\\")
                    out.append(nx)
                elif nx == '"':
                    out.append(nx)
                else:
                    rep = None
                    for k in _MYSQL_ESC:
                        if nx == k:
                            rep = _MYSQL_ESC[k]
                    out.append(nx if rep is None else rep)
            else:
                return None
            i += 2
            continue
        out.append(ch)
        i += 1
    return "".join(out)


def _decode(dn: str, tname: str, rendered):
    if DOUBLE[dn]:
        rendered = _undouble_percent(rendered)
        if rendered is None:
            return None
    return _lex_string(rendered, LEX[dn], _n_prefix(dn, tname))


def _sqlite_select_literal(rendered: str):
    con = sqlite3.connect(":memory:")
    try:
        return con.execute("SELECT " + rendered).fetchall()
    except (sqlite3.Error, ValueError) as e:
        return repr(e)
    finally:
        con.close()


def _valid_chars(s) -> None:
    cond = None
    for ch in s:
        o = ord(ch)
        c = (o != 0) & ((o < 0xD800) | (o > 0xDFFF))
        cond = c if cond is None else (cond & c)
    if cond is not None:
        assume(cond)


# (a) symbolic: string literal through SQLCompiler.render_literal_value (includes the MySQL/PostgreSQL
# backslash doubling) and directly through the type's literal processor
def h_string(dn: str, tname: str, n: int, s: str) -> bool:
    assume(len(s) == n)
    _valid_chars(s)
    comp = COMPILERS[dn]
    typ = STRING_TYPES[tname]
    out = comp.render_literal_value(s, typ)
    dec = _decode(dn, tname, out)
    ok = dec is not None and dec == s
    if LEX[dn] == "standard":
        # no compiler-level post-processing for these: the bare processor gives the same text
        proc = typ._cached_literal_processor(DIALECTS[dn])
        direct = proc(s)
        ok = ok and direct == out
    if dn == "sqlite" and not _tracing():
        return _sqlite_select_literal(out) == [(s,)]  # the real backend decides at replay
    return ok


# (a) symbolic: escape_literal_column (percent doubling of literal_column()/text fragments)
def h_escape_literal_column(dn: str, n: int, s: str) -> bool:
    assume(len(s) == n)
    out = COMPILERS[dn].escape_literal_column(s)
    if DOUBLE[dn]:
        back = _undouble_percent(out)
        return back is not None and back == s
    return out == s


# (b)/(a) integers: every value of -256..256 (binary case split by the solver) and a boundary table.
# str(int) of a symbolic int is a non-linear int->string query for z3 (UnknownSatisfiability), so the
# value is pinned before the call.
INT_TYPES = {"Integer": sqltypes.Integer(), "BigInteger": sqltypes.BigInteger(), "SmallInteger": sqltypes.SmallInteger()}
INT_TABLE = [2 ** 31 - 1, 2 ** 31, -2 ** 31, -2 ** 31 - 1, 2 ** 63 - 1, 2 ** 63, -2 ** 63, -2 ** 63 - 1, 2 ** 64, 10 ** 30,
             -10 ** 30, 123456789012345678901234567890]
NSMALL = 513  # -256..256
_INT_RE = re.compile(r"-?[0-9]+\Z")


def _pin(code, n: int) -> int:
    assume(0 <= code)
    assume(code < n)
    lo, hi = 0, n - 1
    while lo < hi:
        mid = (lo + hi) // 2
        if code <= mid:
            hi = mid
        else:
            lo = mid + 1
    return lo


def _int_body(dn: str, tname: str, v) -> bool:
    out = COMPILERS[dn].render_literal_value(v, INT_TYPES[tname])
    if not isinstance(out, str) or not _INT_RE.match(out) or int(out) != v:
        return False
    if dn == "sqlite" and abs(v) < 2 ** 63:
        return _sqlite_select_literal(out) == [(int(v),)]
    return True


def h_int(dn: str, tname: str, code: int) -> bool:
    k = _pin(code, NSMALL + len(INT_TABLE) + 2)
    if k < NSMALL:
        v = k - NSMALL // 2
    elif k < NSMALL + len(INT_TABLE):
        v = INT_TABLE[k - NSMALL]
    else:
        v = bool(k - NSMALL - len(INT_TABLE))  # bool is an int: renders 0 / 1
    return native(_int_body, dn, tname, v)


# (a) symbolic: booleans (bool and the ints 0/1 that Boolean accepts; anything else must raise)
def h_bool(dn: str, as_int: bool, b: bool, i: int) -> bool:
    assume(-2 <= i <= 3)
    comp = COMPILERS[dn]
    typ = sqltypes.Boolean()
    v = i if as_int else b
    try:
        out = comp.render_literal_value(v, typ)
    except sa.exc.CompileError:
        return as_int and not (i == 0 or i == 1)
    if as_int and not (i == 0 or i == 1):
        return False
    truth = (i == 1) if as_int else b
    want = ("true" if truth else "false") if BOOL_NATIVE[dn] else ("1" if truth else "0")
    return out == want


# (b) Numeric / Float: Decimal() is C; a solver-chosen index into an adversarial table.
_NUM_RE = re.compile(r"[+-]?(?:[0-9]+(?:\.[0-9]*)?|\.[0-9]+)(?:[eE][+-]?[0-9]+)?\Z")
NUM_STR = ["0", "-0", "1", "+1", "-1.5", "1.", ".5", "1E+3", "1e-3", "0E-10", "1.0000", "12345678901234567890.123456789",
           "NaN", "nan", "sNaN", "-NaN", "Infinity", "-Infinity", "inf", "+inf", "1_0", "1_000.5", "_1", "1__0",
           "١٢", "１２", "१", " 1", "1 ", "\t1\n", " 1", "1 ", "1\x0b", "1\x1f", "\xa01",
           "1e", "e1", "1e+", "--1", "1-1", "1;2", "1 2", "1--", "1/*", "(1)", "1 OR 1=1", "0x10", "1,5", "1..2", "",
           "1'", "'1'", "1 UNION SELECT 1", "NULL", "1\x00"]
NUM_OBJ = [("float", "1.5"), ("float", "-0.0"), ("float", "1e300"), ("float", "1e-300"), ("float", "1e16"), ("float", "nan"),
           ("float", "inf"), ("float", "-inf"), ("Decimal", "1.50"), ("Decimal", "-0"), ("Decimal", "1E+3"),
           ("Decimal", "0E-10"), ("Decimal", "NaN"), ("Decimal", "sNaN"), ("Decimal", "Infinity"), ("Decimal", "-Infinity"),
           ("Decimal", "1E+400"), ("int", "7"), ("int", "-7"), ("int", str(10 ** 30))]
NUM_TYPES = {"Numeric": sqltypes.Numeric(), "Numeric(10,2)": sqltypes.Numeric(10, 2), "Float": sqltypes.Float(),
             "Float(asdecimal)": sqltypes.Float(asdecimal=True), "Double": sqltypes.Double()}


def _num_value(kind: str, idx: int):
    if kind == "str":
        return NUM_STR[idx]
    k, txt = NUM_OBJ[idx]
    return {"float": float, "Decimal": decimal.Decimal, "int": int}[k](txt)


def _sqlite_public_api(value, typ):
    """(literal_binds result, bound result) of SELECT <literal> through the public API on sqlite3."""
    eng = sa.create_engine("sqlite://")
    stmt = sa.select(sa.literal(value, typ))

    def norm(x):
        if isinstance(x, (float, decimal.Decimal)):
            x = float(x)
            return "nan" if math.isnan(x) else x
        return x

    with eng.connect() as c:
        try:
            # same statement with the value rendered inline by the literal processor (literal_execute
            # goes through render_literal_value exactly like literal_binds, and through the same
            # result processing as the bound run)
            lstmt = sa.select(sa.bindparam("p", value, type_=typ, literal_execute=True))
            lit = ("rows", [tuple(norm(v) for v in r) for r in c.execute(lstmt).fetchall()])
        except Exception as e:  # noqa: BLE001 - the failure is the observation
            lit = ("error", type(e).__name__)
        try:
            bound = ("rows", [tuple(norm(v) for v in r) for r in c.execute(stmt).fetchall()])
        except Exception as e:  # noqa: BLE001
            bound = ("error", type(e).__name__)
    return lit, bound


def _num_body(dn: str, tname: str, kind: str, idx: int) -> bool:
    value = _num_value(kind, idx)
    typ = NUM_TYPES[tname]
    try:
        out = COMPILERS[dn].render_literal_value(value, typ)
    except sa.exc.CompileError:
        return True  # refusing to render is always safe
    if isinstance(out, str) and _NUM_RE.match(out):
        if dn == "sqlite":
            lit, bound = _sqlite_public_api(value, typ)
            return bound[0] == "error" or lit == bound
        return True
    # not a numeric literal of any backend's grammar: a finding candidate, reported only when the
    # public API on the real backend shows a different outcome than the bound execution
    lit, bound = _sqlite_public_api(value, typ)
    return bound[0] == "error" or lit == bound


def h_numeric(dn: str, tname: str, kind: str, code: int) -> bool:
    n = len(NUM_STR) if kind == "str" else len(NUM_OBJ)
    return native(_num_body, dn, tname, kind, _pin(code, n))


# (b) None renders NULL for every type (handled in the compiler, not in the processors)
def _none_body(dn: str, tname: str) -> bool:
    typ = dict(STRING_TYPES, **INT_TYPES, **NUM_TYPES, Boolean=sqltypes.Boolean())[tname]
    return COMPILERS[dn].render_literal_value(None, typ) == "NULL"


def h_none(dn: str, code: int) -> bool:
    names = sorted(dict(STRING_TYPES, **INT_TYPES, **NUM_TYPES, Boolean=1))
    return native(_none_body, dn, names[_pin(code, len(names))])


# ------------------------------------------------------------------------------------------

MAIN = ["default", "sqlite", "postgresql", "mysql", "mssql", "oracle"]

META = {
    "explanation": "Style (a), truly symbolic values through the real code: SQLCompiler.render_literal_value -> "
                   "String/Unicode/Text literal processors (and the MySQL / PostgreSQL compiler-level backslash doubling, "
                   "MSSQL N'' prefix) run on CrossHair symbolic strings over all of Unicode minus NUL and surrogates; the "
                   "rendered text is decoded by a hand-written reference lexer of the backend's string-literal grammar "
                   "(standard '' doubling; MySQL backslash escapes; PostgreSQL with standard_conforming_strings=off; %% "
                   "un-doubling for format/pyformat drivers) and must be exactly one literal token decoding to the input. "
                   "Boolean and escape_literal_column likewise symbolic. Style (b), solver-chosen index, concrete "
                   "execution: integers (all of -256..256 plus a boundary table; str(int) of a symbolic int is "
                   "undecidable for z3), Numeric/Float on an adversarial table of str/float/Decimal inputs (Decimal() is C), "
                   "None. On SQLite failing inputs are re-confirmed at replay on sqlite3: SELECT <literal> must return the "
                   "input, and for numerics the literal_binds statement and the bound statement are both executed "
                   "through the public API.",
    "functions": [
        "sql.sqltypes.String.literal_processor (String, Unicode, Text, UnicodeText, VARCHAR, NVARCHAR)",
        "dialects.mssql.base._UnicodeLiteral.literal_processor", "sql.compiler.SQLCompiler.render_literal_value",
        "dialects.mysql.base.MySQLCompiler.render_literal_value", "dialects.postgresql.base.PGCompiler.render_literal_value",
        "dialects.mssql.base.MSSQLCompiler.render_literal_value", "sql.compiler.SQLCompiler.escape_literal_column",
        "sql.sqltypes.Integer.literal_processor", "sql.sqltypes.Boolean.{literal_processor,_strict_as_bool}",
        "sql.sqltypes.Numeric.literal_processor (Numeric, Float, Double)", "SQLCompiler.visit_true/visit_false per dialect",
    ],
    "bounds": {
        "quick": {"strings": "symbolic str, length 0..3, all of Unicode minus NUL/surrogates, 14 dialect/driver/server-mode variants x 6 string types (length 3: String and Unicode only)",
                  "escape_literal_column": "symbolic str, length 0..3", "integers": "-256..256 and %d boundary values, bool" % len(INT_TABLE),
                  "booleans": "bool, ints -2..3", "numerics": "%d str inputs, %d float/Decimal/int inputs, 5 types" % (len(NUM_STR), len(NUM_OBJ))},
        "thorough": {"strings": "as quick with length 0..4 (length 4: String only)", "escape_literal_column": "length 0..4",
                     "integers": "as quick", "booleans": "as quick", "numerics": "as quick"},
    },
    "outside": ["NUL characters and lone surrogates in strings", "execution on PostgreSQL/MySQL/MSSQL/Oracle servers (only their lexical grammar is asserted)",
                "date/time/interval/binary/JSON/UUID/Enum literal processors", "numeric inputs outside the adversarial table",
                "literal_execute post-compile replacement (same processors, reached through compilation which cannot run under the tracer)"],
    "stubs": ["engine shim (CrossHair's model of Python): exact concatenation model of \"template % str\" for templates with only %s/%% conversions (CrossHair realises the argument)"],
    "assumptions": ["reference lexers in props/C05.py are the specification of each backend's string-literal syntax",
                    "MySQL default sql_mode (backslash escapes) unless the NO_BACKSLASH_ESCAPES variant; PostgreSQL standard_conforming_strings=on unless the scs_off variant",
                    "'%' must be doubled exactly for format/pyformat drivers except pg8000, mysql-connector and pymssql"],
}


def harnesses(tier: str) -> List[Harness]:
    q = tier == "quick"
    hs: List[Harness] = []
    nmax = 3 if q else 4
    sl = []
    for d in DIALECTS:
        for t in STRING_TYPES:
            for n in range(0, nmax + 1):
                if n == nmax and t not in (("String", "Unicode") if q else ("String",)):
                    continue
                sl.append(dict(dn=d, tname=t, n=n))
    hs.append(Harness("string", h_string, sl, budget_s=60 if q else 400))
    hs.append(Harness("escape_literal_column", h_escape_literal_column,
                      [dict(dn=d, n=n) for d in ("default", "postgresql", "postgresql+pg8000", "mysql", "mssql+pymssql")
                       for n in range(0, nmax + 1)], budget_s=30 if q else 120))
    hs.append(Harness("int", h_int, [dict(dn=d, tname="Integer") for d in MAIN] +
                      [dict(dn="default", tname=t) for t in ("BigInteger", "SmallInteger")], budget_s=120))
    hs.append(Harness("bool", h_bool, [dict(dn=d, as_int=a) for d in DIALECTS for a in (False, True)], budget_s=20))
    hs.append(Harness("numeric", h_numeric, [dict(dn="sqlite", tname=t, kind=k) for t in NUM_TYPES for k in ("str", "obj")],
                      budget_s=120))
    hs.append(Harness("none", h_none, [dict(dn=d) for d in MAIN], budget_s=30))
    return hs


def _feature(s: str) -> str:
    f = [nm for nm, ch in (("quote", "'"), ("backslash", "\\"), ("percent", "%")) if ch in s]
    return "+".join(f) or "plain"


def classify(hname, args, rep):
    dn = args.get("dn")
    if hname == "string":
        s = args["s"]
        try:
            out = COMPILERS[dn].render_literal_value(s, STRING_TYPES[args["tname"]])
        except Exception as e:  # noqa: BLE001
            out = repr(e)
        return ("C05:%s:string:%s:%s" % (dn, args["tname"], _feature(s)),
                "%s: %s literal of %r renders %r, which is not one string literal decoding to the input" % (dn, args["tname"], s, out))
    if hname == "escape_literal_column":
        return ("C05:%s:escape_literal_column:%s" % (dn, _feature(args["s"])),
                "%s: escape_literal_column(%r) does not double '%%' exactly" % (dn, args["s"]))
    if hname == "numeric":
        v = _num_value(args["kind"], args["code"])
        try:
            out = COMPILERS[dn].render_literal_value(v, NUM_TYPES[args["tname"]])
        except Exception as e:  # noqa: BLE001
            out = repr(e)
        if isinstance(v, str):
            if v.strip().lower().lstrip("+-") in ("nan", "snan", "inf", "infinity"):
                kind = "str-nan-inf"
            elif "_" in v:
                kind = "str-underscore"
            elif any(ord(c) > 127 and c.isdigit() for c in v):
                kind = "str-nonascii-digit"
            elif v != v.strip() or any(c.isspace() and c not in " \t\n\r" for c in v):
                kind = "str-whitespace"
            else:
                kind = "str-other"
        else:
            f = float(v)
            kind = type(v).__name__ + ("-nan-inf" if (math.isnan(f) or math.isinf(f)) else "-finite")
        lit, bound = _sqlite_public_api(v, NUM_TYPES[args["tname"]]) if dn == "sqlite" else (None, None)
        return ("C05:numeric:%s" % kind,
                "%s: %s literal of %r renders %r which is not a numeric literal; on sqlite3 literal_binds gives %s, bound "
                "execution gives %s" % (dn, args["tname"], v, out, lit, bound))
    return ("C05:%s:%s:%s" % (dn, hname, {k: v for k, v in sorted(args.items()) if k != "dn"}),
            "%s fails on %s (%s)" % (hname, args, rep.get("exception")))


def run(tier: str, seed: int):
    return framework.run_symx(PID, __name__, tier, seed, harnesses(tier), classify, META)
