"""C06 Identifier quoting round-trips every representable name (E1 symx).

Symbolic ``str`` values flow through the real ``IdentifierPreparer`` code of every dialect; the
oracle is a hand-written reference *lexer* of each backend's delimited-identifier grammar plus the
backend's bare-identifier grammar.  For SQLite the keyword set comes from the linked sqlite3
library (probed at import), and every SQLite failure is re-confirmed end-to-end on sqlite3 at replay.
"""
from __future__ import annotations

import itertools
import re
import sqlite3
import sys
from typing import List, Optional

from vlib import framework
from vlib.framework import Harness
from vlib.symx import assume, concrete, native, _tracing

import sqlalchemy as sa
from sqlalchemy.engine import default
from sqlalchemy.engine.url import URL
from sqlalchemy.dialects import mssql, mysql, oracle, postgresql, sqlite
from sqlalchemy.dialects.mssql import pymssql
from sqlalchemy.dialects.mysql import mysqlconnector
from sqlalchemy.dialects.postgresql import asyncpg, pg8000, psycopg2
from sqlalchemy.sql.elements import quoted_name

PID = "C06"


# ------------------------------------------------------------------------------------------
# Engine shims: fixes to CrossHair's *model of Python* (never to code under test).  All four are
# needed for ``LEGAL_CHARACTERS = re.compile(r"^[A-Z0-9_$]+$", re.I)`` and ``value.lower()``:
#  (1) relib.unicode_ignorecase_mask compiles the literal unescaped ('$' -> crash);
#  (2) relib's IGNORECASE range mask misses U+0130 U+0131 U+017F U+212A (Python's re matches them);
#  (3) relib's '$' (no MULTILINE) does not match before a string-final newline (Python's re does);
#  (4) str.lower() is modelled by an uninterpreted function with ~1400 point axioms (50 ms/query);
#      replaced by the exact piecewise "codepoint + delta" map as one balanced if-then-else term
#      (table computed from the running interpreter's own str.lower for every code point);
#  (5) re.Pattern.findall realises the subject string; re-expressed through relib's symbolic finditer.


def _install_engine_shims() -> bool:
    try:
        import crosshair.core_and_libs  # noqa: F401
        from crosshair.libimpl import relib
    except ImportError:
        return False
    if getattr(relib, "_verif_c06_shims", False):
        return True
    import builtins

    import z3
    from crosshair.libimpl.builtinslib import LazyIntSymbolicStr, SymbolicInt
    from crosshair.statespace import context_statespace
    from crosshair.tracers import NoTracing, ResumedTracing
    from crosshair.unicode_categories import CharMask

    b_chr, b_ord = builtins.chr, builtins.ord
    coerce = SymbolicInt._coerce_to_smt_sort

    lit_masks = {}

    def unicode_ignorecase_mask(cp):
        m = lit_masks.get(cp)
        if m is None:
            rx = re.compile(re.escape(b_chr(cp)), re.IGNORECASE)
            m = CharMask(sorted(set(b_ord(c) for c in rx.findall(relib.caseable_chars())) | {cp}))
            lit_masks[cp] = m
        return m

    relib.unicode_ignorecase_mask = unicode_ignorecase_mask

    rng_masks = {}
    orig_scm = relib.single_char_mask

    def single_char_mask(parsed, flags, ord=ord, chr=chr):
        op, arg = parsed
        if op is relib.RANGE and (re.IGNORECASE & flags) and chr is b_chr:
            key = (arg, bool(re.ASCII & flags))
            m = rng_masks.get(key)
            if m is None:
                lo, hi = arg
                rx = re.compile("[%s-%s]" % (re.escape(b_chr(lo)), re.escape(b_chr(hi))),
                                re.IGNORECASE | (re.ASCII & flags))
                pts = sorted(set(b_ord(c) for c in rx.findall(relib.caseable_chars())) | set(range(lo, hi + 1)))
                m = CharMask([])
                for p in pts:
                    m.maybe_add_bounds(p, p + 1)
                rng_masks[key] = m
            return m
        return orig_scm(parsed, flags, ord=ord, chr=chr)

    relib.single_char_mask = single_char_mask

    orig_imp = relib._internal_match_patterns

    def _internal_match_patterns(top_patterns, flags, string, offset, allow_empty=True, ord=ord, chr=chr):
        if len(top_patterns) and not (flags & re.MULTILINE):
            first = top_patterns[0]
            if first[0] is relib.AT and first[1] is relib.AT_END:
                space = context_statespace()
                with ResumedTracing():
                    rem = len(string) - offset
                ok = space.smt_fork(coerce(rem) == 0)
                if not ok and space.smt_fork(coerce(rem) == 1):
                    with ResumedTracing():
                        nxt = ord(string[offset])
                    ok = space.smt_fork(coerce(nxt) == 10)
                if not ok:
                    return None
                suffix = _internal_match_patterns(top_patterns[1:], flags, string, offset, allow_empty, ord=ord, chr=chr)
                if suffix is None:
                    return None
                return relib._MatchPart([(offset, offset)])._add_match(suffix)
        return orig_imp(top_patterns, flags, string, offset, allow_empty, ord=ord, chr=chr)

    relib._internal_match_patterns = _internal_match_patterns

    # exact table of str.lower() for single characters, from the running interpreter
    starts: List[int] = []  # code points >= 128 whose lower() differs, grouped in runs of equal delta
    ends: List[int] = []
    deltas: List[int] = []
    multi = {}
    for cp in range(128, sys.maxunicode + 1):
        low = b_chr(cp).lower()
        if len(low) != 1:
            multi[cp] = low
            continue
        d = b_ord(low) - cp
        if d == 0:
            continue
        if b_ord(low) < 128:
            multi[cp] = low  # U+212A KELVIN SIGN -> 'k'
            continue
        if starts and ends[-1] == cp and deltas[-1] == d:
            ends[-1] = cp + 1
        else:
            starts.append(cp)
            ends.append(cp + 1)
            deltas.append(d)
    var = z3.Int("c06_lower_cp")

    def tree(lo, hi):
        # only evaluated for code points inside one of the runs
        if hi - lo == 1:
            return z3.IntVal(deltas[lo])
        mid = (lo + hi) // 2
        return z3.If(var < starts[mid], tree(lo, mid), tree(mid, hi))

    delta_tree = tree(0, len(starts))
    changed = z3.Or(*[(var == starts[i]) if ends[i] == starts[i] + 1 else z3.And(var >= starts[i], var < ends[i])
                      for i in range(len(starts))])

    def lower(self):
        if len(self) != 1:
            return "".join([ch.lower() for ch in self])
        char = self[0]
        codepoint = ord(char)
        with NoTracing():
            if type(codepoint) is int:
                return b_chr(codepoint).lower()
            space = context_statespace()
            x = coerce(codepoint)
            if space.smt_fork(x < 128):
                if space.smt_fork(z3.And(x >= 65, x <= 90)):
                    return LazyIntSymbolicStr([SymbolicInt(x + 32)])
                return char
            for cp, low in multi.items():
                if space.smt_fork(x == cp):
                    return low
            if not space.smt_fork(z3.substitute(changed, (var, x))):
                return char
            return LazyIntSymbolicStr([SymbolicInt(x + z3.substitute(delta_tree, (var, x)))])

    LazyIntSymbolicStr.lower = lower

    # (5) re.Pattern.findall realises its argument; express it through the symbolic finditer
    from crosshair import core as ch_core

    def findall(self, string, pos=0, endpos=None):
        out = []
        ng = self.groups
        for m in relib._finditer(self, string, pos, endpos):
            if ng == 0:
                out.append(m.group(0))
            elif ng == 1:
                g = m.group(1)
                out.append("" if g is None else g)
            else:
                out.append(tuple(["" if g is None else g for g in m.groups()]))
        return out

    ch_core._PATCH_REGISTRATIONS[re.Pattern.findall] = findall
    relib._verif_c06_shims = True
    return True


_install_engine_shims()


# ------------------------------------------------------------------------------------------
# Dialects.  FAMILY decides the reference grammar; DOUBLE is the *reference* statement of which
# drivers need '%' doubled inside the SQL string (format/pyformat paramstyles, minus the three
# drivers SQLAlchemy documents as not needing it).

DIALECTS = {
    "default": default.DefaultDialect(),
    "sqlite": sqlite.dialect(),
    "postgresql": postgresql.dialect(),  # psycopg, pyformat
    "postgresql+psycopg2": psycopg2.dialect(),
    "postgresql+pg8000": pg8000.dialect(),
    "postgresql+asyncpg": asyncpg.dialect(),
    "mysql": mysql.dialect(),  # mysqldb, format
    "mysql+mysqlconnector": mysqlconnector.dialect(),
    "mariadb": URL.create("mariadb+mysqldb").get_dialect()(),
    "mssql": mssql.dialect(paramstyle="qmark"),  # pyodbc
    "mssql+pymssql": pymssql.dialect(paramstyle="pyformat"),
    "oracle": oracle.dialect(),
}
FAMILY = {k: k.split("+")[0] for k in DIALECTS}
FAMILY["mariadb"] = "mysql"
DELIMS = {"default": ('"', '"'), "sqlite": ('"', '"'), "postgresql": ('"', '"'), "oracle": ('"', '"'),
          "mysql": ("`", "`"), "mssql": ("[", "]")}
DOUBLE = {k: (d.paramstyle in ("format", "pyformat")) for k, d in DIALECTS.items()}
DOUBLE["postgresql+pg8000"] = False  # pg8000: "format" paramstyle, driver does not need doubled percents
DOUBLE["mysql+mysqlconnector"] = False  # mysql-connector: likewise
DOUBLE["mssql+pymssql"] = False  # pymssql: "pyformat", does not need doubled percents
MAIN = ["default", "sqlite", "postgresql", "mysql", "mariadb", "mssql", "oracle"]  # distinct reserved_words / grammar
assert DIALECTS["mariadb"].is_mariadb and DIALECTS["mariadb"].identifier_preparer.reserved_words is not \
    DIALECTS["mysql"].identifier_preparer.reserved_words


class _LinearMemo:
    """Stand-in for the ``IdentifierPreparer._strings`` memo dict: same mapping semantics, but keys
    are compared with ``==`` instead of hashed (hashing a symbolic str realises it)."""

    def __init__(self):
        self.k = []
        self.v = []

    def __contains__(self, key):
        for x in self.k:
            if x is key or x == key:
                return True
        return False

    def __getitem__(self, key):
        for i in range(len(self.k)):
            if self.k[i] is key or self.k[i] == key:
                return self.v[i]
        raise KeyError(key)

    def __setitem__(self, key, val):
        self.k.append(key)
        self.v.append(val)


def _prep(dn: str):
    p = DIALECTS[dn].identifier_preparer
    p._strings = _LinearMemo()
    return p


# ------------------------------------------------------------------------------------------
# Reference grammar (trusted): delimited identifiers


def _lex_delimited(text, opn: str, cls: str, undouble: bool):
    """Decode ``text`` as exactly one delimited identifier token; None if it is not one.
    "x" with "" -> " ;  `x` with `` -> ` ;  [x] with ]] -> ]  (a '[' inside brackets is literal).
    With ``undouble`` the text is a DBAPI format string: %% -> %, a lone % is an error."""
    n = len(text)
    if n < 2 or text[0] != opn:
        return None
    out = []
    i = 1
    while True:
        if i >= n:
            return None  # unterminated
        ch = text[i]
        if ch == cls:
            if i + 1 < n and text[i + 1] == cls:
                out.append(cls)
                i += 2
                continue
            if i != n - 1:
                return None  # token ends early: trailing text
            break
        if undouble and ch == "%":
            if i + 1 < n and text[i + 1] == "%":
                out.append("%")
                i += 2
                continue
            return None
        out.append(ch)
        i += 1
    return "".join(out)


def _lex_dotted(text: str, opn: str, cls: str, undouble: bool):
    """Concrete only: split ``a.b.c`` of delimited / bare tokens into decoded components."""
    out = []
    i, n = 0, len(text)
    while True:
        if i < n and text[i] == opn:
            j = i + 1
            while True:
                if j >= n:
                    return None
                if text[j] == cls:
                    if j + 1 < n and text[j + 1] == cls:
                        j += 2
                        continue
                    break
                j += 1
            dec = _lex_delimited(text[i:j + 1], opn, cls, undouble)
            if dec is None:
                return None
            out.append(dec)
            i = j + 1
        else:
            j = i
            while j < n and text[j] != ".":
                if text[j] in (opn, cls):
                    return None
                j += 1
            if j == i:
                return None
            out.append(text[i:j])
            i = j
        if i == n:
            return out
        if text[i] != ".":
            return None
        i += 1


# Reference grammar (trusted): bare identifiers, the intersection of what the backends' published
# lexical grammars guarantee to read back as the same single identifier:
#   first char: ASCII letter or '_' (Oracle: letter only) or a non-ASCII *letter*;
#   then: letters, digits, '_', '$' (MSSQL/Oracle also '#', MSSQL '@');
#   no upper/title-case character (bare names are case-folded by PostgreSQL and Oracle and matched
#   case-insensitively elsewhere; SQLAlchemy's convention is "all lower case = case insensitive").


def _nonascii_bare_ok(fam: str, ch: str) -> bool:
    if fam == "mysql" and ord(ch) > 0xFFFF:
        return False
    return ch.isalpha() and not ch.isupper() and not ch.istitle() and ch.lower() == ch


def _bare_problem(fam: str, s) -> Optional[str]:
    for i in range(len(s)):
        ch = s[i]
        o = ord(ch)
        if 97 <= o <= 122:
            continue
        if o == 95:
            if i == 0 and fam == "oracle":
                return "initial"
            continue
        if 65 <= o <= 90:
            return "uppercase"
        if (48 <= o <= 57) or o == 36:
            if i == 0:
                return "initial"
            continue
        if o >= 128:
            if native(_nonascii_bare_ok, fam, ch):
                continue
            return "nonascii"
        return "illegal-char"
    return None


def _in_words(s, words) -> bool:
    for w in words:
        if s == w:
            return True
    return False


def _by_len(words):
    d = {}
    for w in sorted(words):
        d.setdefault(len(w), []).append(w)
    return d


RESERVED = {dn: _by_len(DIALECTS[dn].identifier_preparer.reserved_words) for dn in DIALECTS}

# ------------------------------------------------------------------------------------------
# SQLite keyword oracle: derived from the linked library, nothing hand-copied is trusted.

_SQL_KEYWORDS = """
abort absolute action add after all allocate alter always analyse analyze and any are array as asc asensitive
assertion asymmetric at atomic attach authorization autoincrement avg before begin between bigint binary bit blob
boolean both by call called cascade cascaded case cast char character check clob close coalesce collate collation
column commit condition conflict connect connection constraint constraints continue convert corresponding count
create cross cube current current_date current_default_transform_group current_path current_role current_row
current_schema current_time current_timestamp current_transform_group_for_type current_user cursor cycle database
date day deallocate dec decimal declare default deferrable deferred delete dense_rank deref desc describe
deterministic detach disconnect distinct do domain double drop dynamic each element else end end-exec escape every
except exclude exclusive exec execute exists explain external extract fail false fetch filter first float following
for foreign free freeze from full function fusion generated get glob global grant group grouping groups having hold
hour identity if ignore ilike immediate in index indexed indicator initially inner inout input insensitive insert
instead int integer intersect interval into is isnull isolation join key language large last lateral leading left
level like limit local localtime localtimestamp lower match materialized max member merge method min minute
modifies module month multiset names national natural nchar nclob new next no none normalize not nothing notnull
null nullif nulls numeric of off offset old on only open option or order others out outer over overlaps overlay
parameter partition placing plan position pragma precision preceding prepare primary prior procedure query raise
range rank reads real recursive ref references referencing regexp reindex release rename replace restrict result
return returning returns revoke right rollback rollup row row_number rows rowid savepoint schema scope scroll search
second section select sensitive session session_user set similar size smallint some space specific specifictype sql
sqlexception sqlstate sqlwarning start static stored strict submultiset substring sum symmetric system system_user
table tablesample temp temporary then ties time timestamp timezone_hour timezone_minute to trailing transaction
translate translation treat trigger trim true uescape unbounded union unique unknown unnest update upper usage user
using vacuum value values varchar varying verbose view virtual when whenever where width_bucket window with within
without work write year zone
""".split()


def _sqlite_probe(con, w: str) -> bool:
    """True if the bare word cannot be used as a column name in the statements SQLAlchemy emits."""
    try:
        con.execute("DROP TABLE IF EXISTS t")
        con.execute("CREATE TABLE t (%s INTEGER)" % w)
        con.execute("INSERT INTO t (%s) VALUES (42)" % w)
        rows = con.execute("SELECT t.%s FROM t" % w).fetchall()
        cols = [r[1] for r in con.execute("PRAGMA table_info(t)")]
        return not (rows == [(42,)] and cols == [w])
    except sqlite3.Error:
        return True


def _derive_sqlite_keywords():
    cand = set(_SQL_KEYWORDS)
    for d in DIALECTS.values():
        cand.update(w.lower() for w in d.identifier_preparer.reserved_words)
    cand = sorted(w for w in cand if re.fullmatch(r"[a-z_][a-z0-9_]*", w))
    con = sqlite3.connect(":memory:")
    kw = [w for w in cand if _sqlite_probe(con, w)]
    con.close()
    return cand, kw


CANDIDATE_WORDS, SQLITE_KEYWORDS = _derive_sqlite_keywords()
SQLITE_KW_BY_LEN = _by_len(SQLITE_KEYWORDS)
assert "select" in SQLITE_KEYWORDS and "a" not in SQLITE_KEYWORDS


def _sqlite_e2e_ok(name: str) -> bool:
    """Public-API confirmation on the real backend: DDL + DML execute and reflection returns ``name``."""
    try:
        e = sa.create_engine("sqlite://")
        m = sa.MetaData()
        t = sa.Table("t", m, sa.Column(name, sa.Integer))
        with e.begin() as c:
            m.create_all(c)
            c.execute(t.insert().values({name: 42}))
            got = c.execute(sa.select(t.c[name])).scalar()
            cols = [r["name"] for r in sa.inspect(c).get_columns("t")]
        return got == 42 and cols == [name]
    except sa.exc.DBAPIError:
        return False


def _sqlite_label_ok(rendered: str, name: str) -> bool:
    """``SELECT 1 AS <rendered>`` on sqlite3 must yield a column called ``name``."""
    con = sqlite3.connect(":memory:")
    try:
        cur = con.execute("SELECT 1 AS " + rendered)
        return cur.description[0][0] == name and cur.fetchall() == [(1,)]
    except (sqlite3.Error, ValueError):
        return False
    finally:
        con.close()


# ------------------------------------------------------------------------------------------
# The oracle for one rendered name


def _check_rendered(dn: str, s, out, force: Optional[bool], n: int) -> bool:
    fam = FAMILY[dn]
    opn, cls = DELIMS[fam]
    if force is False:
        return out == s  # quote=False: the user's decision, rendered verbatim
    if len(out) == len(s):
        # not quoted (a quoted rendering is at least two characters longer)
        if force or out != s:
            return False
        bad = _bare_problem(fam, s) is not None
        bad = bad or _in_words(s, RESERVED[dn].get(n, ()))
        if fam == "sqlite":
            bad = bad or _in_words(s, SQLITE_KW_BY_LEN.get(n, ()))
            if bad and not _tracing():
                return _sqlite_e2e_ok(s)  # replay: confirmed on the real backend through the public API
        return not bad
    dec = _lex_delimited(out, opn, cls, DOUBLE[dn])
    ok = dec is not None and dec == s
    if fam == "sqlite" and not _tracing() and not ok:
        return _sqlite_label_ok(out, s)
    return ok


def _no_nul(s) -> None:
    for ch in s:
        assume(ch != "\x00")


def _pin(code, n: int) -> int:
    """Binary case split of a symbolic int over 0..n-1 (one path per value, log2(n) decisions)."""
    assume(0 <= code)
    assume(code < n)
    lo, hi = 0, n - 1
    while lo < hi:
        mid = (lo + hi) // 2
        if code <= mid:
            hi = mid
        else:
            lo = mid + 1
    return lo


CLASSES = ["lower", "upper", "digit", "other", "nonascii"]


def _assume_class(ch, cls: str) -> None:
    # '&' / '|' on symbolic booleans build one z3 term: a single assume, no fork per comparison
    o = ord(ch)
    lower = (o >= 97) & (o <= 122)
    upper = (o >= 65) & (o <= 90)
    digit = ((o >= 48) & (o <= 57)) | (o == 95) | (o == 36)
    if cls == "lower":
        assume(lower)
    elif cls == "upper":
        assume(upper)
    elif cls == "digit":
        assume(digit)
    elif cls == "other":
        assume((o > 0) & (o < 128) & ~lower & ~upper & ~digit)
    else:
        assume(o >= 128)


def _make_roomy(nlocals: int = 8300):
    """CPython 3.12 keeps interpreter frames in 16 KiB 'data stack chunks' that are mmap'ed when a call does
    not fit and munmap'ed as soon as they are empty: a loop that calls a function right at a chunk boundary
    pays one mmap+munmap per call (measured: up to 3x wall time, 70% system time, depending on the stack
    depth at which the worker happens to run).  A frame larger than a chunk makes CPython allocate one big
    chunk and everything called from it runs in the free remainder (~60 KiB): no chunk boundary inside the
    symbolic regex recursion.  Pure performance device, no semantic effect."""
    names = ",".join("v%d" % i for i in range(nlocals))
    ns = {}
    exec("def roomy(fn, arg):\n    %s = [None] * %d\n    return fn(arg)\n" % (names, nlocals), ns)
    return ns["roomy"]


_roomy = _make_roomy()


# (a) symbolic: quote() with quote flag None -- the quoting decision and the rendering
def h_quote(dn: str, n: int, cls: str, s: str) -> bool:
    return _roomy(_h_quote, (dn, n, cls, s))


def _h_quote(args) -> bool:
    dn, n, cls, s = args
    # cls: one character class per position (slices partition the alphabet, together they cover it)
    assume(len(s) == n)
    cv = cls.split(",")
    for i in range(n):
        _assume_class(s[i], cv[i])
    prep = _prep(dn)
    out = prep.quote(s)
    for again in (prep.quote(s), prep.format_schema(s), prep.format_alias(None, s), prep.format_label_name(s),
                  out if FAMILY[dn] == "mssql" else prep.quote_schema(s)):
        if again is not out and again != out:  # memoised: normally the very same object
            return False
    return _check_rendered(dn, s, out, None, n)


# (a) symbolic: unconditional quoting -- escape / unescape kernels for every driver variant
def h_escape(dn: str, n: int, s: str) -> bool:
    return _roomy(_h_escape, (dn, n, s))


def _h_escape(args) -> bool:
    dn, n, s = args
    assume(len(s) == n)
    _no_nul(s)
    prep = _prep(dn)
    fam = FAMILY[dn]
    opn, cls = DELIMS[fam]
    out = prep.quote_identifier(s)
    dec = _lex_delimited(out, opn, cls, DOUBLE[dn])
    if dec is None or dec != s:
        return False
    esc = prep._escape_identifier(s)
    if opn + esc + cls != out:
        return False
    if not DOUBLE[dn] and prep._unescape_identifier(esc) != s:
        return False
    if fam == "sqlite" and not _tracing():
        return _sqlite_label_ok(out, s)
    return True


# (a) symbolic: lower-case names of a given length -- every reserved word and every keyword of the
# linked SQLite library is reached by the solver through the membership scans
def _underscore_positions(n: int):
    return sorted({i for w in CANDIDATE_WORDS if len(w) == n for i, ch in enumerate(w) if ch == "_"})


def h_keyword(dn: str, n: int, s: str) -> bool:
    return _roomy(_h_keyword, (dn, n, s))


def _h_keyword(args) -> bool:
    dn, n, s = args
    assume(len(s) == n)
    us = _underscore_positions(n)
    cond = True
    for i in range(n):
        o = ord(s[i])
        c = (o >= 97) & (o <= 122)
        if i in us:
            c = c | (o == 95)
        cond = cond & c
    assume(cond)
    prep = _prep(dn)
    out = prep.quote(s)
    if len(out) == len(s):
        # unquoted (every character is a legal bare-identifier character by construction)
        bad = out != s or _in_words(s, RESERVED[dn].get(n, ())) or _in_words(s, SQLITE_KW_BY_LEN.get(n, ()))
        if bad and not _tracing():
            return _sqlite_e2e_ok(s)
        return not bad
    opn, cls = DELIMS[FAMILY[dn]]
    dec = _lex_delimited(out, opn, cls, DOUBLE[dn])
    return dec is not None and dec == s


# (b) every word of the dialect's own reserved_words, in three spellings, is quoted
def _reserved_body(dn: str, idx: int) -> bool:
    w = sorted(DIALECTS[dn].identifier_preparer.reserved_words)[idx]
    prep = _prep(dn)
    opn, cls = DELIMS[FAMILY[dn]]
    for v in (w, w.upper(), w.capitalize()):
        out = prep.quote(v)
        if len(out) == len(v) or _lex_delimited(out, opn, cls, DOUBLE[dn]) != v:
            return False
    return True


def h_reserved(dn: str, nwords: int, idx: int) -> bool:
    return native(_reserved_body, dn, _pin(idx, nwords))


# (b) solver-chosen inputs, concrete execution: quoted_name with quote=True/False/None (constructing
# a str subclass realises the value), quote_schema, format_table / format_column on real objects
ALPHABET = ["a", "A", "_", "1", "$", '"', "`", "[", "]", ".", "%", " ", "\n", "é", "ı"]
POOL2 = [x for x in ALPHABET] + [x + y for x in ALPHABET for y in ALPHABET]
FLAGS = {"none": None, "true": True, "false": False}


def _flag_body(dn: str, flag: str, s: str) -> bool:
    prep = _prep(dn)
    force = FLAGS[flag]
    name = quoted_name(s, force)
    out = prep.quote(name)
    if not _check_rendered(dn, s, out, force, len(s)):
        return False
    fam = FAMILY[dn]
    if fam != "mssql":
        return prep.quote_schema(name) == out
    # MSSQL: "a.b" is documented to mean database.owner and brackets in the name control the split;
    # only names without '.', '[' and ']' (or quote=True) are single-token schema names
    if force is False:
        return True  # the schema is re-tokenised into plain strings: the quote=False request does not survive
    if force or not any(c in s for c in ".[]"):
        return prep.quote_schema(name) == out
    return True


def h_flag(dn: str, flag: str, code: int) -> bool:
    return native(_flag_body, dn, flag, POOL2[_pin(code, len(POOL2))])


DOT_ALPHABET = ["a", "A", '"', "`", "]", ".", "%", " "]


def _dotted_body(dn: str, schema: Optional[str], tname: str, cname: str) -> bool:
    prep = _prep(dn)
    fam = FAMILY[dn]
    opn, cls = DELIMS[fam]
    t = sa.table(tname, sa.column(cname), schema=schema)
    want = ([schema] if schema is not None else []) + [tname]
    if fam == "mssql" and schema is not None and any(c in schema for c in ".[]"):
        return True  # documented multipart interpretation of the schema name
    got = _lex_dotted(prep.format_table(t), opn, cls, DOUBLE[dn])
    if got != want:
        return False
    col = list(t.c)[0]
    got = _lex_dotted(prep.format_column(col, use_table=True, use_schema=True), opn, cls, DOUBLE[dn])
    if got != want + [cname]:
        return False
    if tuple(prep.format_table_seq(t)) != tuple(prep.quote(x) for x in want):
        return False
    return _lex_dotted(prep.format_column(col), opn, cls, DOUBLE[dn]) == [cname]


def h_dotted(dn: str, with_schema: bool, code: int) -> bool:
    k = len(DOT_ALPHABET)
    code = _pin(code, k ** 3)
    a, b, c = DOT_ALPHABET[code % k], DOT_ALPHABET[(code // k) % k], DOT_ALPHABET[code // (k * k)]
    return native(_dotted_body, dn, a if with_schema else None, b, c)


# (a) symbolic: unformat_identifiers(format(a) + "." + format(b)) == [a, b]
UNF_POOL = ["a", "A", '"', "`", "]", "[", ".", " ", "a.b", '""', "``", "]]", "\n"]


def h_unformat(dn: str, la: int, lb: int, fixed: str, a: str, b: str) -> bool:
    return _roomy(_h_unformat, (dn, la, lb, fixed, a, b))


def _h_unformat(args) -> bool:
    dn, la, lb, fixed, a, b = args
    # fixed: "" = both names symbolic; "a:<k>" / "b:<k>" = that name is UNF_POOL[k]
    if fixed.startswith("a:"):
        a = UNF_POOL[int(fixed[2:])]
    else:
        assume(len(a) == la)
        _no_nul(a)
    if fixed.startswith("b:"):
        b = UNF_POOL[int(fixed[2:])]
    else:
        assume(len(b) == lb)
        _no_nul(b)
    if DOUBLE[dn]:
        # the %%-doubled form only exists on the way to the DBAPI; unformat_identifiers reads
        # server-side text (SHOW CREATE TABLE), where '%' is never doubled
        for ch in a:
            assume(ch != "%")
        for ch in b:
            assume(ch != "%")
    prep = _prep(dn)
    text = prep.quote(a) + "." + prep.quote(b)
    got = prep.unformat_identifiers(text)
    return len(got) == 2 and got[0] == a and got[1] == b


# ------------------------------------------------------------------------------------------

META = {
    "explanation": "Style (a), truly symbolic str values through the real code: IdentifierPreparer.quote/_requires_quotes/"
                   "quote_identifier/_escape_identifier/_unescape_identifier/unformat_identifiers of every dialect run on "
                   "CrossHair symbolic strings (all of Unicode minus NUL); the rendered text is decoded by a hand-written "
                   "reference lexer of the backend's delimited-identifier grammar and must give back the input as exactly one "
                   "token; a name left unquoted must satisfy the backend's bare-identifier grammar, be case-fold stable, not be "
                   "in the dialect's reserved_words and (SQLite) not be a keyword of the linked sqlite3 library (keyword set "
                   "probed at import with CREATE TABLE/INSERT/SELECT). Style (b), solver-chosen index into a table, concrete "
                   "execution: quoted_name(quote=True/False/None) (building the str subclass realises the value), "
                   "quote_schema, format_table/format_column/format_table_seq on real table()/column() objects. SQLite "
                   "failures are re-confirmed at replay on sqlite3 through the public API (create_all + insert + select + "
                   "Inspector.get_columns).",
    "functions": [
        "sql.compiler.IdentifierPreparer.{quote,quote_schema,quote_identifier,_requires_quotes,_escape_identifier,"
        "_unescape_identifier,format_schema,format_alias,format_label_name,format_table,format_column,format_table_seq,"
        "_r_identifiers,unformat_identifiers}",
        "sql.compiler.{RESERVED_WORDS,LEGAL_CHARACTERS,ILLEGAL_INITIAL_CHARACTERS}",
        "dialects.sqlite.base.SQLiteIdentifierPreparer", "dialects.postgresql.base.PGIdentifierPreparer (+psycopg2, pg8000, asyncpg)",
        "dialects.mysql.base.MySQLIdentifierPreparer (+mysqlconnector, MariaDB reserved words)",
        "dialects.mssql.base.MSIdentifierPreparer (+pymssql)", "dialects.oracle.base.OracleIdentifierPreparer",
        "sql.elements.quoted_name",
    ],
    "bounds": {
        "quick": {"quote() decision": "symbolic str, length 1..2 (default, mariadb: length 1; they share _requires_quotes and differ only in reserved words), all of Unicode minus NUL, 7 dialects",
                  "forced quoting / escape": "symbolic str, length 0..3, 12 dialect+driver variants",
                  "keywords": "sqlite: symbolic lower-case ASCII-letter(/underscore) names of length 2..18; every dialect: each word of its reserved_words in 3 spellings",
                  "quoted_name flags": "names of length 1..2 over %r, flags None/True/False, 12 variants" % "".join(ALPHABET),
                  "dotted names": "schema/table/column of length 1 over %r" % "".join(DOT_ALPHABET),
                  "unformat_identifiers": "one name symbolic (length 1), the other from {a, A, ., closing quote}; sqlite, mysql, mssql grammars"},
        "thorough": {"quote() decision": "symbolic str, length 1..3 (sqlite, postgresql, mssql, oracle), 1..2 (default, mysql, mariadb)", "forced quoting / escape": "length 0..4",
                     "keywords": "as quick, length 1..24", "quoted_name flags": "as quick", "dotted names": "as quick",
                     "unformat_identifiers": "one name symbolic (length 1) and the other from a pool of %d (4 grammars); one symbolic of length 2 and the other from {A, closing quote} (3 grammars)" % len(UNF_POOL)},
    },
    "outside": ["the empty identifier (no backend accepts a zero-length name; _requires_quotes('') raises IndexError)",
                "NUL characters (backends reject them)",
                "keyword sets of PostgreSQL/MariaDB/MSSQL/Oracle (no server offline): only the dialect's own reserved_words are checked there",
                "SQLite keywords outside the probed candidate list (union of all dialects' reserved words + a SQL:2016/SQLite keyword list, %d words)" % len(CANDIDATE_WORDS),
                "MSSQL schema names containing '.', '[' or ']' without quote=True (documented database.owner splitting) and MSSQL schema names with quote=False",
                "'%' in names passed to unformat_identifiers under a %%-doubling paramstyle (that text form never reaches it)",
                "quote=False names that are not valid bare identifiers (rendered verbatim by definition)",
                "DDL execution / reflection on servers other than sqlite3"],
    "stubs": ["IdentifierPreparer._strings (memoisation dict) replaced by an association list with == lookup (hashing a symbolic str would realise it)",
              "engine shims (CrossHair's model of Python, not code under test): re IGNORECASE masks for literals/ranges, '$' before a final newline, exact if-then-else model of str.lower()"],
    "assumptions": ["reference lexers/grammars in props/C06.py are the specification of each backend's identifier syntax",
                    "a rendering of the same length as the name is the unquoted rendering",
                    "'%' must be doubled exactly for format/pyformat drivers except pg8000, mysql-connector and pymssql (as documented in the dialects)"],
}


def harnesses(tier: str) -> List[Harness]:
    q = tier == "quick"
    hs: List[Harness] = []
    # _requires_quotes is shared code: "default" and "mariadb" differ from postgresql / mysql only in the
    # reserved-word set (covered by "reserved"), so the quick tier runs them at length 1 only
    for d in MAIN:
        nmax = (2 if d not in ("default", "mariadb") else 1) if q else (3 if d in ("sqlite", "postgresql", "mssql", "oracle") else 2)
        hs.append(Harness("quote", h_quote, [dict(dn=d, n=n, cls=",".join(cv)) for n in range(1, nmax + 1)
                                              for cv in itertools.product(CLASSES, repeat=n)],
                          budget_s=60 if q else 400))
    hs = [Harness("quote", h_quote, [sl for h in hs for sl in h.slices], budget_s=90 if q else 900,
                  per_path_timeout=30)]
    hs.append(Harness("escape", h_escape,
                      [dict(dn=d, n=n) for d in DIALECTS for n in range(0, (3 if q else 4) + 1)],
                      budget_s=30 if q else 200))
    hs.append(Harness("keyword", h_keyword, [dict(dn="sqlite", n=n) for n in (range(2, 19) if q else range(1, 25))],
                      budget_s=60 if q else 200))
    hs.append(Harness("reserved", h_reserved,
                      [dict(dn=d, nwords=len(DIALECTS[d].identifier_preparer.reserved_words)) for d in MAIN], budget_s=60))
    hs.append(Harness("flag", h_flag, [dict(dn=d, flag=f) for d in DIALECTS for f in FLAGS], budget_s=40))
    hs.append(Harness("dotted", h_dotted, [dict(dn=d, with_schema=w) for d in MAIN for w in (False, True)], budget_s=60))
    unf = []
    # unformat_identifiers is shared code; the grammars differ: "..." (sqlite), `...` (mysql), [...] (mssql),
    # "..." with %% doubling (postgresql, thorough only).  The regex runs symbolically: ~1 s per path.
    for d in (("sqlite", "mysql", "mssql") if q else ("sqlite", "mysql", "mssql", "postgresql")):
        close = DELIMS[FAMILY[d]][1]
        small = [k for k, v in enumerate(UNF_POOL) if v in ("a", "A", ".", close)]
        for k in (small if q else range(len(UNF_POOL))):
            unf.append(dict(dn=d, la=0, lb=1, fixed="a:%d" % k))
            unf.append(dict(dn=d, la=1, lb=0, fixed="b:%d" % k))
        if not q and d != "postgresql":
            for k in small:
                if UNF_POOL[k] in ("A", close):
                    unf.append(dict(dn=d, la=0, lb=2, fixed="a:%d" % k))
                    unf.append(dict(dn=d, la=2, lb=0, fixed="b:%d" % k))
    hs.append(Harness("unformat", h_unformat, unf, budget_s=90 if q else 900, per_path_timeout=30))
    return hs


def _diagnose(dn: str, s: str, out: str, force) -> str:
    fam = FAMILY[dn]
    if force is False:
        return "verbatim"
    if len(out) == len(s):
        if s.endswith("\n") and _bare_problem(fam, s[:-1]) is None and len(s) > 1:
            return "unquoted-trailing-newline"
        if fam == "sqlite" and s in SQLITE_KEYWORDS:
            return "unquoted-keyword:" + s
        if s.lower() in DIALECTS[dn].identifier_preparer.reserved_words:
            return "unquoted-own-reserved:" + s.lower()
        return "unquoted:%s" % (_bare_problem(fam, s) or "?")
    feats = [nm for nm, ch in (("close-delim", DELIMS[fam][1]), ("percent", "%")) if ch in s]
    return "quoted-not-roundtrip:" + ("+".join(feats) or "other")


def classify(hname, args, rep):
    dn = args.get("dn")
    try:
        prep = _prep(dn)
        if hname in ("quote", "keyword"):
            s = args["s"]
            d = _diagnose(dn, s, prep.quote(s), None)
            if d == "unquoted-trailing-newline":
                return ("C06:quote:unquoted-trailing-newline",
                        "quote(%r) leaves the name unquoted on every dialect (LEGAL_CHARACTERS uses '$', which matches "
                        "before a final newline): the backend reads identifier %r" % (s, s[:-1]))
            if d.startswith("unquoted-keyword:"):
                return ("C06:sqlite:" + d, "sqlite: %r is a keyword of the linked SQLite %s but is rendered unquoted "
                        "(missing from SQLiteIdentifierPreparer.reserved_words)" % (s, sqlite3.sqlite_version))
            return ("C06:%s:%s" % (dn, d), "%s: quote(%r) -> %r violates the identifier grammar (%s)" % (dn, s, prep.quote(s), d))
        if hname == "escape":
            s = args["s"]
            out = prep.quote_identifier(s)
            return ("C06:%s:escape:%s" % (dn, _diagnose(dn, s, out, True)),
                    "%s: quote_identifier(%r) -> %r does not decode to the name" % (dn, s, out))
        if hname == "flag":
            s = POOL2[args["code"]]
            force = FLAGS[args["flag"]]
            out = prep.quote(quoted_name(s, force))
            d = _diagnose(dn, s, out, force)
            if d == "unquoted-trailing-newline":
                return ("C06:quote:unquoted-trailing-newline", "quote(%r) leaves the name unquoted (%s)" % (s, dn))
            return ("C06:%s:flag-%s:%s" % (dn, args["flag"], d),
                    "%s: quote(quoted_name(%r, %r)) -> %r / quote_schema disagree with the grammar" % (dn, s, force, out))
        if hname == "dotted":
            k = len(DOT_ALPHABET)
            code = args["code"]
            parts = [DOT_ALPHABET[code % k], DOT_ALPHABET[(code // k) % k], DOT_ALPHABET[code // (k * k)]]
            return ("C06:%s:dotted:%s" % (dn, "+".join(sorted(set(parts)))),
                    "%s: format_table/format_column of schema/table/column %r does not lex back" % (dn, parts))
        if hname == "unformat":
            a, b = args.get("a"), args.get("b")
            if args["fixed"].startswith("a:"):
                a = UNF_POOL[int(args["fixed"][2:])]
            if args["fixed"].startswith("b:"):
                b = UNF_POOL[int(args["fixed"][2:])]
            text = prep.quote(a) + "." + prep.quote(b)
            feats = sorted(set(ch for ch in a + b if not ch.isalnum()))
            return ("C06:%s:unformat:%s" % (dn, "".join("U+%04X" % ord(c) for c in feats) or "plain"),
                    "%s: unformat_identifiers(%r) -> %r, expected %r" % (dn, text, list(prep.unformat_identifiers(text)), [a, b]))
    except Exception as e:  # noqa: BLE001
        return ("C06:%s:%s:error" % (dn, hname), "%s fails on %s (%r / %s)" % (hname, args, e, rep.get("exception")))
    return ("C06:%s:%s" % (dn, hname), "%s fails on %s" % (hname, args))


def run(tier: str, seed: int):
    return framework.run_symx(PID, __name__, tier, seed, harnesses(tier), classify, META)
