"""C38 Instrumented relationship collections behave exactly like list / set / dict (E1 symx).

Differential check of the real ``InstrumentedList`` / ``InstrumentedSet`` / ``KeyFuncDict`` objects
attached to a real relationship against the builtin applied to a plain copy (contents, return value,
exception type), plus an event ledger: the ``append`` / ``remove`` attribute events fired by the
operation must account exactly (as a signed multiset) for the change of the contents.
"""
from __future__ import annotations

import functools
import json
import operator
import sys
from typing import List

from vlib import framework
from vlib.framework import Harness
from vlib.symx import assume

from sqlalchemy import Column, ForeignKey, Integer, String, event
from sqlalchemy.orm import attribute_keyed_dict, column_keyed_dict, mapped_collection, registry, relationship

PID = "C38"

# ------------------------------------------------------------------------------------------
# mappings (built once at import; no database, no SQL)

_reg = registry()
POOL = 7  # child objects per run (index = identity)


def _child_init(self, ix):
    self.ix = ix
    self.k = "k%d" % ix


def _mk(kind, cc_factory):
    child = type("C38Child_" + kind, (), dict(
        __tablename__="c38_child_" + kind,
        id=Column(Integer, primary_key=True),
        pid=Column(ForeignKey("c38_parent_%s.id" % kind)),
        k=Column(String),
        __init__=_child_init,
        __repr__=lambda self: "c%d" % self.ix,
    ))
    child = _reg.mapped(child)
    parent = type("C38Parent_" + kind, (), dict(
        __tablename__="c38_parent_" + kind,
        id=Column(Integer, primary_key=True),
        coll=relationship(child, collection_class=cc_factory(child)),
    ))
    parent = _reg.mapped(parent)
    return parent, child


KINDS = {
    "list": _mk("list", lambda c: list),
    "set": _mk("set", lambda c: set),
    "attr_dict": _mk("attr_dict", lambda c: attribute_keyed_dict("k")),
    "col_dict": _mk("col_dict", lambda c: column_keyed_dict(c.__table__.c.k)),
    "fn_dict": _mk("fn_dict", lambda c: mapped_collection(lambda o: o.k)),
}
DICT_KINDS = ["attr_dict", "col_dict", "fn_dict"]
_reg.configure()

LEDGER: List[tuple] = []
_CUR: List[object] = [None]  # the parent under test (events of helper parents are not recorded)


def _log(target, tag, payload):
    if target is _CUR[0]:
        LEDGER.append((tag, payload))


def _listen(parent):
    event.listen(parent.coll, "append", lambda t, v, i: _log(t, "a", getattr(v, "ix", None)))
    event.listen(parent.coll, "remove", lambda t, v, i: _log(t, "r", getattr(v, "ix", None)))
    event.listen(parent.coll, "append_wo_mutation", lambda t, v, i: _log(t, "w", getattr(v, "ix", None)))
    event.listen(parent.coll, "bulk_replace", lambda t, vs, i: _log(t, "b", [getattr(v, "ix", None) for v in vs]))


for _k in KINDS:
    _listen(KINDS[_k][0])


class _IdPool:
    """pool[i] == i: lets one op-applier drive both the real collection and the int model."""

    def __getitem__(self, i):
        return i


IDPOOL = _IdPool()


def _tracing():
    # (not vlib.symx._tracing: that imports CrossHair, which costs ~1 s in every forked replay child)
    m = sys.modules.get("crosshair.tracers")
    return bool(m is not None and m.is_tracing())


def native(fn, *args):
    """Run ``fn`` with the tracer paused.  Unlike ``vlib.symx.native`` the arguments are NOT deep-realised
    (that would deep-copy the mapped instances): every argument is already a plain Python value (`pin`)
    or a live ORM object."""
    if not _tracing():
        return fn(*args)
    from crosshair.tracers import NoTracing

    with NoTracing():
        return fn(*args)


# CrossHair models ``weakref.ref.__call__`` as ``gc.collect(); r()``; the ORM dereferences weakrefs
# (InstanceState.obj, CollectionAdapter._data) several times per operation.  Freezing the import-time heap
# keeps those collections cheap (engine cost only, no semantic effect).
import gc as _gc  # noqa: E402

_gc.collect()
_gc.freeze()


_GC_N = [0]


def _gc_mark():
    """Called (untraced) at the start of every path: drop the previous path's cyclic garbage, then freeze
    what is alive (search tree, solver state) so that the per-weakref collections only scan this path's objects.
    Every 64th path everything is thawed and collected, otherwise the state spaces of finished paths (frozen
    while alive, cyclic) would never be reclaimed."""
    _GC_N[0] += 1
    if _GC_N[0] % 64 == 0:
        _gc.unfreeze()
    _gc.collect()
    _gc.freeze()


def pin_code(code, n):
    """Binary case-split of a symbolic int over 0..n-1 by solver-decided comparisons: one path per value,
    and the code under test receives plain Python values (list/set/dict are C containers that would
    realise every argument anyway)."""
    assume(0 <= code)
    assume(code < n)
    lo, hi = 0, n - 1
    while lo < hi:
        mid = (lo + hi) // 2
        if code <= mid:
            hi = mid
        else:
            lo = mid + 1
    return lo


def _pick(code, table_fn, *cfg):
    """(index, input tuple) number ``code`` of the cached, deterministic input table of this slice."""
    tbl = native(table_fn, *cfg)
    c = pin_code(code, len(tbl))
    return c, tbl[c]


def _product(*doms):
    out = [()]
    for d in doms:
        out = [t + (v,) for t in out for v in d]
    return out


def _opt(lo, hi, nozero=False):
    return [None] + [v for v in range(lo, hi + 1) if not (nozero and v == 0)]


# Reporting cap: a defect family can make thousands of inputs of one slice fail, and each reported failure
# costs one forked concrete replay.  After CAP failing paths with the same classify() key in the same slice,
# further failing inputs *with that key* are abandoned as "precondition unmet" (never counted as passing);
# failures with any other key are still reported.  Without a defect the cap is never reached.
CAP = 2
_SEEN = {}


def _over_cap(hname, names, values, code):
    fixed = dict(zip(names.split(), values))
    args = dict(fixed)
    args["code"] = code
    key = (hname, json.dumps(fixed, sort_keys=True), classify(hname, args, {})[0])
    _SEEN[key] = _SEEN.get(key, 0) + 1
    return _SEEN[key] > CAP


def _report(ok, hname, names, values, code):
    if ok or not _tracing():
        return ok
    if native(_over_cap, hname, names, values, code):
        assume(False)
    return False


def _run(fn, *args):
    try:
        return ("ok", fn(*args))
    except Exception as e:  # noqa: BLE001 - the exception type is the observation
        if type(e).__name__ == "NotDeterministic":
            raise
        return ("exc", type(e).__name__)


def _norm(ret, c):
    if ret is c:
        return "self"
    if ret is None or isinstance(ret, (int, str)):
        return ret
    if isinstance(ret, tuple):
        return [_norm(x, c) for x in ret]
    if ret is NotImplemented:
        return "NotImplemented"
    return getattr(ret, "ix", "?" + type(ret).__name__)


def _norm_res(res, c):
    return [res[0], _norm(res[1], c)] if res[0] == "ok" else [res[0], res[1]]


def _signed(before, after):
    d = {}
    for x in after:
        d[x] = d.get(x, 0) + 1
    for x in before:
        d[x] = d.get(x, 0) - 1
    return {k: v for k, v in d.items() if v}


def _ledger_net(ledger):
    d = {}
    for tag, ix in ledger:
        if tag == "a":
            d[ix] = d.get(ix, 0) + 1
        elif tag == "r":
            d[ix] = d.get(ix, 0) - 1
    return {k: v for k, v in d.items() if v}


def _verdict(before_vals, got_vals, got_shape, model_shape, got_res, model_res, ledger, events=True):
    """Pure comparison (run natively): contents, return/exception, event accounting."""
    if got_shape != model_shape:
        return False
    if got_res != model_res:
        return False
    if events and _ledger_net(ledger) != _signed(before_vals, got_vals):
        return False
    return True


# ------------------------------------------------------------------------------------------
# list

def _setup(kind, init, keys=None):
    _gc_mark()
    parent_cls, child_cls = KINDS[kind]
    pool = [child_cls(i) for i in range(POOL)]
    p = parent_cls()
    coll = p.coll
    if kind == "list":
        for i in init:
            coll.append(pool[i])
    elif kind == "set":
        for i in init:
            coll.add(pool[i])
    else:
        for key, i in zip(keys, init):
            coll[key] = pool[i]
    del LEDGER[:]
    _CUR[0] = p
    return p, pool, coll


def _mk_rhs(c, pool, rk, rhs):
    items = [pool[i] for i in rhs]
    if rk == "list":
        return items
    if rk == "tuple":
        return tuple(items)
    if rk == "iter":
        return iter(items)
    if rk == "gen":
        return (x for x in items)
    if rk == "self":
        return c
    if rk == "int":
        return 5
    if rk == "none":
        return None
    raise AssertionError(rk)


def _key_ix(c):
    return c if isinstance(c, int) else c.ix


LIST_POINT_OPS = ["append", "remove", "insert", "setitem", "delitem", "pop", "pop_noarg", "clear", "reverse",
                  "sort", "sort_reverse", "imul", "extend_self", "iadd_self"]


def _list_point(c, pool, op, x, i, k):
    if op == "append":
        return c.append(pool[x])
    if op == "remove":
        return c.remove(pool[x])
    if op == "insert":
        return c.insert(i, pool[x])
    if op == "setitem":
        return operator.setitem(c, i, pool[x])
    if op == "delitem":
        return operator.delitem(c, i)
    if op == "pop":
        return c.pop(i)
    if op == "pop_noarg":
        return c.pop()
    if op == "clear":
        return c.clear()
    if op == "reverse":
        return c.reverse()
    if op == "sort":
        return c.sort(key=_key_ix)
    if op == "sort_reverse":
        return c.sort(key=_key_ix, reverse=True)
    if op == "imul":
        return operator.imul(c, k)
    if op == "extend_self":
        return c.extend(c)
    if op == "iadd_self":
        return operator.iadd(c, c)
    raise AssertionError(op)


def _model_list_point(init, op, x, i, k):
    m = list(init)
    res = _run(_list_point, m, IDPOOL, op, x, i, k)
    return m, _norm_res(res, m)


def _finish_list(p, coll, init, got_res, model, model_res, events=True):
    same = p.coll is coll
    got = [c.ix for c in coll]
    return same and _verdict(list(init), got, got, model, got_res, model_res, list(LEDGER), events)


@functools.lru_cache(maxsize=None)
def t_list_point(op, nsel, nmax, hi):
    """(init, x, i, k)"""
    out = []
    xs = [0, 1, 2, 3] if op in ("append", "remove", "insert", "setitem") else [0]
    is_ = list(range(-hi, hi + 1)) if op in ("insert", "setitem", "delitem", "pop") else [0]
    ks = [-1, 0, 1, 2] if op == "imul" else [0]
    for n in (range(nmax + 1) if nsel < 0 else [nsel]):
        for init in _product(*[[0, 1, 2]] * n):
            out += [(list(init), x, i, k) for x in xs for i in is_ for k in ks]
    return out


def h_list_point(op: str, nsel: int, nmax: int, hi: int, code: int) -> bool:
    c, (init, x, i, k) = _pick(code, t_list_point, op, nsel, nmax, hi)
    p, pool, coll = native(_setup, "list", init)
    res = _run(_list_point, coll, pool, op, x, i, k)
    model, model_res = native(_model_list_point, init, op, x, i, k)
    # `*=` with k >= 1: deliberately not instrumented (source comment: "all members of the collection
    # are already present, so no need to fire appends"); contents still compared.
    events = not (op == "imul" and k >= 1)
    ok = native(_finish_list, p, coll, init, _norm_res(res, coll), model, model_res, events)
    return _report(ok, "list_point", "op nsel nmax hi", (op, nsel, nmax, hi,), c)


LIST_SEQ_OPS = ["extend", "iadd"]
RHS_KINDS = ["list", "tuple", "iter", "gen", "int", "none"]


def _list_seq(c, pool, op, rk, rhs):
    other = _mk_rhs(c, pool, rk, rhs)
    if op == "extend":
        return c.extend(other)
    if op == "iadd":
        return operator.iadd(c, other)
    raise AssertionError(op)


def _model_list_seq(init, op, rk, rhs):
    m = list(init)
    res = _run(_list_seq, m, IDPOOL, op, rk, rhs)
    return m, _norm_res(res, m)


@functools.lru_cache(maxsize=None)
def t_list_seq(nmax, mmax):
    """(init, rhs)"""
    out = []
    for n in range(nmax + 1):
        for m in range(mmax + 1):
            out += [(list(a), list(b)) for a in _product(*[[0, 1, 2]] * n) for b in _product(*[[0, 1, 2, 3]] * m)]
    return out


def h_list_seq(op: str, rk: str, nmax: int, mmax: int, code: int) -> bool:
    c, (init, rhs) = _pick(code, t_list_seq, nmax, mmax)
    p, pool, coll = native(_setup, "list", init)
    res = _run(_list_seq, coll, pool, op, rk, rhs)
    model, model_res = native(_model_list_seq, init, op, rk, rhs)
    ok = native(_finish_list, p, coll, init, _norm_res(res, coll), model, model_res)
    return _report(ok, "list_seq", "op rk nmax mmax", (op, rk, nmax, mmax,), c)


# slices.  The input space is partitioned into three regions of the slice arguments:
#   "in"  : step None or > 0, start/stop None or within -len..len
#   "oob" : step None or > 0, some bound outside -len..len
#   "neg" : step < 0
REGIONS = ["in", "oob", "neg"]
# variant -> (kind of the right-hand side, initial members, right-hand-side members)
VARIANTS = {
    "primary": ("list", "distinct", "fresh"),
    "tuple": ("tuple", "distinct", "fresh"),
    "iter": ("iter", "distinct", "fresh"),
    "self": ("self", "distinct", "fresh"),
    "existing": ("list", "distinct", "existing"),  # members already in the collection, other order
    "dup": ("list", "dup", "dupfresh"),  # duplicates in the collection and in the right-hand side
}
INIT_PATS = {"distinct": [0, 1, 2, 3], "dup": [0, 0, 1, 0]}


def _slice_inputs(n, m, ipat, rpat):
    init = INIT_PATS[ipat][:n]
    if rpat == "fresh":
        rhs = [4, 5, 6][:m]
    elif rpat == "existing":
        rhs = [[2, 1, 0, 3][j] % n if n else 4 + j for j in range(m)]
    else:
        rhs = [4] * m
    return init, rhs


def _region(n, start, stop, step):
    if step is not None and step < 0:
        return "neg"
    for b in (start, stop):
        if b is not None and (b < -n or b > n):
            return "oob"
    return "in"


@functools.lru_cache(maxsize=None)
def t_slices(reg, ns, ms, margin, hi, smax):
    """(n, m, start, stop, step); bounds range over -(n+margin)..(n+margin) if margin else -hi..hi."""
    out = []
    for n in ns:
        b = n + margin if margin else hi
        for m in ms:
            for start, stop, step in _product(_opt(-b, b), _opt(-b, b), _opt(-smax, smax, nozero=True)):
                if _region(n, start, stop, step) == reg:
                    out.append((n, m, start, stop, step))
    return out


def _list_setslice(c, pool, rk, rhs, start, stop, step):
    return operator.setitem(c, slice(start, stop, step), _mk_rhs(c, pool, rk, rhs))


def _model_list_setslice(init, rk, rhs, start, stop, step):
    m = list(init)
    res = _run(_list_setslice, m, IDPOOL, rk, rhs, start, stop, step)
    return m, _norm_res(res, m)


def h_list_setslice(reg: str, variant: str, ns: str, ms: str, margin: int, hi: int, smax: int, code: int) -> bool:
    c, (n, m, start, stop, step) = _pick(code, t_slices, reg, _ints(ns), _ints(ms), margin, hi, smax)
    rk, ipat, rpat = VARIANTS[variant]
    init, rhs = _slice_inputs(n, m, ipat, rpat)
    p, pool, coll = native(_setup, "list", init)
    res = _run(_list_setslice, coll, pool, rk, rhs, start, stop, step)
    model, model_res = native(_model_list_setslice, init, rk, rhs, start, stop, step)
    ok = native(_finish_list, p, coll, init, _norm_res(res, coll), model, model_res)
    return _report(ok, "list_setslice", "reg variant ns ms margin hi smax", (reg, variant, ns, ms, margin, hi, smax,), c)


def _ints(s):
    return tuple(int(x) for x in s.split(",") if x != "")


def _list_delslice(c, start, stop, step):
    return operator.delitem(c, slice(start, stop, step))


def _model_list_delslice(init, start, stop, step):
    m = list(init)
    res = _run(_list_delslice, m, start, stop, step)
    return m, _norm_res(res, m)


def h_list_delslice(reg: str, ipat: str, ns: str, margin: int, hi: int, smax: int, code: int) -> bool:
    c, (n, _m, start, stop, step) = _pick(code, t_slices, reg, _ints(ns), (0,), margin, hi, smax)
    init = INIT_PATS[ipat][:n]
    p, pool, coll = native(_setup, "list", init)
    res = _run(_list_delslice, coll, start, stop, step)
    model, model_res = native(_model_list_delslice, init, start, stop, step)
    ok = native(_finish_list, p, coll, init, _norm_res(res, coll), model, model_res)
    return _report(ok, "list_delslice", "reg ipat ns margin hi smax", (reg, ipat, ns, margin, hi, smax,), c)


# ------------------------------------------------------------------------------------------
# set

SET_ELEM_OPS = ["add", "discard", "remove", "pop", "clear"]
SET_BULK_OPS = ["update", "ior", "intersection_update", "iand", "difference_update", "isub",
                "symmetric_difference_update", "ixor"]
SET_NARGS_OPS = ["update", "intersection_update", "difference_update"]  # builtin accepts *others
SET_ARG_KINDS = ["set", "frozenset", "list", "iter", "iset", "int"]


def _bits(mask, npool):
    return [j for j in range(npool) if mask & (1 << j)]


def _mk_setarg(kind, items, pool, ak):
    if ak == "set":
        return set(items)
    if ak == "frozenset":
        return frozenset(items)
    if ak == "list":
        return list(items) + list(items[:1])  # with a duplicate
    if ak == "iter":
        return iter(list(items))
    if ak == "int":
        return 5
    if ak == "iset":
        if pool is IDPOOL:
            return set(items)  # for the builtin an InstrumentedSet is just a set subclass instance
        other_parent = KINDS["set"][0]()
        oc = other_parent.coll
        for it in items:
            oc.add(it)
        return oc
    raise AssertionError(ak)


def _set_op(c, pool, op, ak, x, b, b2, nargs):
    if op == "add":
        return c.add(pool[x])
    if op == "discard":
        return c.discard(pool[x])
    if op == "remove":
        return c.remove(pool[x])
    if op == "pop":
        return c.pop()
    if op == "clear":
        return c.clear()
    others = [_mk_setarg("set", [pool[j] for j in bs], pool, ak) for bs in ([b, b2][:nargs])]
    if op == "ior":
        return operator.ior(c, others[0])
    if op == "iand":
        return operator.iand(c, others[0])
    if op == "isub":
        return operator.isub(c, others[0])
    if op == "ixor":
        return operator.ixor(c, others[0])
    return getattr(c, op)(*others)


def _model_set(init, op, ak, x, b, b2, nargs):
    m = set(init)
    res = _run(_set_op, m, IDPOOL, op, ak, x, b, b2, nargs)
    return sorted(m), _norm_res(res, m)


def _finish_set(p, coll, init, op, got_res, model, model_res):
    if p.coll is not coll:
        return False
    got = sorted(c.ix for c in coll)
    if op == "pop" and got_res[0] == "ok" and model_res[0] == "ok":
        # set.pop() removes an arbitrary member: any member of the receiver is a conforming result
        r = got_res[1]
        if r not in init:
            return False
        model = sorted(x for x in init if x != r)
        model_res = got_res
    return _verdict(list(init), got, got, model, got_res, model_res, list(LEDGER))


@functools.lru_cache(maxsize=None)
def t_set(op, nargs, npool):
    """(a, x, b, b2, nargs): bit masks over the pool; nargs < 0 = the builtin's *others signature with 0 and 2 arguments"""
    masks = list(range(1 << npool))
    if op in SET_ELEM_OPS:
        xs = list(range(npool)) if op in ("add", "discard", "remove") else [0]
        return [(a, x, 0, 0, 0) for a in masks for x in xs]
    if nargs < 0:
        return [(a, 0, 0, 0, 0) for a in masks] + [(a, 0, b, b2, 2) for a in masks for b in masks for b2 in masks]
    return [(a, 0, b, 0, 1) for a in masks for b in masks]


def h_set(op: str, ak: str, nargs: int, npool: int, code: int) -> bool:
    c, (a, x, b, b2, na) = _pick(code, t_set, op, nargs, npool)
    init, bl, b2l = _bits(a, npool), _bits(b, npool), _bits(b2, npool)
    p, pool, coll = native(_setup, "set", init)
    res = _run(_set_op, coll, pool, op, ak, x, bl, b2l, na)
    model, model_res = native(_model_set, init, op, ak, x, bl, b2l, na)
    ok = native(_finish_set, p, coll, init, op, _norm_res(res, coll), model, model_res)
    return _report(ok, "set", "op ak nargs npool", (op, ak, nargs, npool,), c)


# ------------------------------------------------------------------------------------------
# keyed dicts (attribute_keyed_dict / column_keyed_dict / mapped_collection): plain dict protocol

DICT_OPS = ["setitem", "delitem", "pop", "pop_default", "popitem", "setdefault", "clear",
            "update_dict", "update_pairs", "update_kw", "update_dict_kw", "update_noarg", "update_keyed", "ior",
            "keyed_set", "keyed_remove"]
DICT_ONEKEY = ["setitem", "delitem", "pop", "pop_default", "setdefault"]
DICT_BULK = ["update_dict", "update_pairs", "update_kw", "update_dict_kw", "update_keyed", "ior"]


def _dict_op(c, pool, kind, op, key, x, okeys, ovals):
    if op == "setitem":
        return operator.setitem(c, key, pool[x])
    if op == "delitem":
        return operator.delitem(c, key)
    if op == "pop":
        return c.pop(key)
    if op == "pop_default":
        return c.pop(key, pool[x])
    if op == "popitem":
        return c.popitem()
    if op == "setdefault":
        return c.setdefault(key, pool[x])
    if op == "clear":
        return c.clear()
    if op == "update_noarg":
        return c.update()
    if op == "keyed_set":
        # KeyFuncDict.set(value) == d[keyfunc(value)] = value
        if pool is IDPOOL:
            return operator.setitem(c, "k%d" % x, x)
        return c.set(pool[x])
    if op == "keyed_remove":
        # KeyFuncDict.remove(value) == del d[keyfunc(value)] provided that slot holds value
        if pool is IDPOOL:
            if ("k%d" % x) in c and c["k%d" % x] != x:
                raise _Mismatch()
            return operator.delitem(c, "k%d" % x)
        return c.remove(pool[x])
    other = {}
    for kk, vv in zip(okeys, ovals):
        other[kk] = pool[vv]
    if op == "update_dict":
        return c.update(other)
    if op == "update_pairs":
        return c.update(list(other.items()))
    if op == "update_kw":
        return c.update(**other)
    if op == "update_dict_kw":
        first = dict(list(other.items())[:1])
        rest = dict(list(other.items())[1:])
        return c.update(first, **rest)
    if op == "update_keyed":
        if pool is IDPOOL:
            return c.update(dict(other))
        op_ = KINDS[kind][0]()
        oc = op_.coll
        for kk, vv in other.items():
            oc[kk] = vv
        return c.update(oc)
    if op == "ior":
        return operator.ior(c, other)
    raise AssertionError(op)


class _Mismatch(Exception):
    pass


_Mismatch.__name__ = "InvalidRequestError"  # what KeyFuncDict.remove raises for a slot holding another value


def _model_dict(kind, keys, init, op, key, x, okeys, ovals):
    m = {}
    for kk, vv in zip(keys, init):
        m[kk] = vv
    res = _run(_dict_op, m, IDPOOL, kind, op, key, x, okeys, ovals)
    return [[kk, vv] for kk, vv in m.items()], _norm_res(res, m)


def _finish_dict(p, coll, init, got_res, model, model_res):
    if p.coll is not coll:
        return False
    got = [[kk, vv.ix] for kk, vv in dict.items(coll)]
    return _verdict(list(init), [v for _, v in got], got, model, got_res, model_res, list(LEDGER))


@functools.lru_cache(maxsize=None)
def t_dict(op, nk, nv, revs):
    """(present, other, key, x, rev): present[j]/other[j] = pool index stored under key "k<j>", -1 = absent"""
    vals = list(range(-1, nv))
    keys = list(range(nk)) if op in DICT_ONEKEY else [0]
    xs = list(range(nv)) if op in ("setitem", "pop_default", "setdefault", "keyed_set", "keyed_remove") else [0]
    others = _product(*[vals] * nk) if op in DICT_BULK else [(-1,) * nk]
    return [(list(pr), list(ov), key, x, rev) for rev in ((False, True) if revs else (False,))
            for pr in _product(*[vals] * nk) for ov in others for key in keys for x in xs]


def h_dict(kind: str, op: str, nk: int, nv: int, revs: bool, code: int) -> bool:
    c, (present, ov, key, x, rev) = _pick(code, t_dict, op, nk, nv, revs)
    order = list(range(nk))
    if rev:
        order.reverse()
    keys = ["k%d" % j for j in order if present[j] >= 0]
    init = [present[j] for j in order if present[j] >= 0]
    okeys = ["k%d" % j for j in range(nk) if ov[j] >= 0]
    ovals = [ov[j] for j in range(nk) if ov[j] >= 0]
    p, pool, coll = native(_setup, kind, init, keys)
    res = _run(_dict_op, coll, pool, kind, op, "k%d" % key, x, okeys, ovals)
    model, model_res = native(_model_dict, kind, keys, init, op, "k%d" % key, x, okeys, ovals)
    ok = native(_finish_dict, p, coll, init, _norm_res(res, coll), model, model_res)
    return _report(ok, "dict", "kind op nk nv revs", (kind, op, nk, nv, revs,), c)


# ------------------------------------------------------------------------------------------
# wholesale assignment  parent.coll = <new collection>  (attributes.py: set -> bulk_replace)

def _assign(kind, p, pool, new):
    if kind == "list":
        p.coll = [pool[i] for i in new]
    elif kind == "set":
        p.coll = {pool[i] for i in new}
    else:
        p.coll = {"k%d" % i: pool[i] for i in new}


def _finish_assign(kind, p, old, init, new, got_res):
    if got_res != ["ok", None]:
        return False
    cur = p.coll
    if cur is old:
        return False
    if kind == "list":
        got = [c.ix for c in cur]
        shape_ok = got == list(new)
    elif kind == "set":
        got = sorted(c.ix for c in cur)
        shape_ok = got == sorted(new)
    else:
        got = [c.ix for c in dict.values(cur)]
        shape_ok = [[k, v.ix] for k, v in dict.items(cur)] == [["k%d" % i, i] for i in new]
    if not shape_ok:
        return False
    bulk = [e for e in LEDGER if e[0] == "b"]
    if len(bulk) != 1 or sorted(bulk[0][1]) != sorted(new):
        return False
    return _ledger_net(list(LEDGER)) == _signed(list(init), got)


@functools.lru_cache(maxsize=None)
def t_assign(npool, nmax):
    """(a, new): old members as a bit mask, new members as a duplicate-free sequence (bulk_replace works on
    identity sets; see META.outside)"""
    out = []
    for a in range(1 << npool):
        for nn in range(nmax + 1):
            out += [(a, list(t)) for t in _product(*[list(range(npool))] * nn) if len(set(t)) == len(t)]
    return out


def h_assign(kind: str, npool: int, nmax: int, code: int) -> bool:
    c, (a, new) = _pick(code, t_assign, npool, nmax)
    init = _bits(a, npool)
    keys = ["k%d" % i for i in init]
    p, pool, coll = native(_setup, kind, init, keys)
    res = _run(_assign, kind, p, pool, new)
    ok = native(_finish_assign, kind, p, coll, init, new, _norm_res(res, coll))
    return _report(ok, "assign", "kind npool nmax", (kind, npool, nmax,), c)


# ------------------------------------------------------------------------------------------

META = {
    "explanation": "Real InstrumentedList / InstrumentedSet / KeyFuncDict (attribute_keyed_dict, column_keyed_dict, "
                   "mapped_collection) collections on real relationship() attributes of transient parents; every "
                   "mutator is applied to the instrumented collection and to a builtin list/set/dict copy; contents, "
                   "return value and exception type must agree and the append/remove attribute events must equal "
                   "the signed multiset difference of the contents. Each slice has a deterministic table of input "
                   "tuples (members, indices, slice start/stop/step, argument contents); the symbolic input is the "
                   "table index, case-split by z3-decided comparisons: one path per input tuple, because "
                   "list/set/dict are C containers that realise every argument anyway.",
    "functions": [
        "orm.collections._list_decorators.{append,remove,insert,__setitem__,__delitem__,extend,__iadd__,pop,clear}",
        "orm.collections._set_decorators.{add,discard,remove,pop,clear,update,__ior__,difference_update,__isub__,"
        "intersection_update,__iand__,symmetric_difference_update,__ixor__}",
        "orm.collections._dict_decorators.{__setitem__,__delitem__,clear,pop,popitem,setdefault,update}",
        "orm.collections.CollectionAdapter.{fire_append_event,fire_remove_event,fire_pre_remove_event,"
        "fire_append_wo_mutation_event,_reset_empty}", "orm.collections.bulk_replace",
        "orm.mapped_collection.KeyFuncDict.{set,remove}",
        "orm.attributes._CollectionAttributeImpl.{fire_append_event,fire_remove_event,set}",
        "uninstrumented inherited mutators: list.{reverse,sort,__imul__}, dict.__ior__",
    ],
    "bounds": {
        "quick": {"list size": "0..3 (members from a pool, duplicates allowed)", "index": "-5..5",
                  "slice start/stop": "None, -(len+2)..len+2", "slice step": "None, -2..2 (!=0)", "RHS length": "0..3",
                  "RHS kinds": "list, tuple, iterator, generator, the collection itself, non-iterable",
                  "set": "all subsets of a 3-member pool x all subsets as argument; argument kinds " + ", ".join(SET_ARG_KINDS),
                  "dict": "keys k0..k2, values from a 2-member pool, both insertion orders; 3 keyed-dict flavours"},
        "thorough": {"list size": "0..4", "index": "-6..6", "slice start/stop": "None, -6..6",
                     "slice step": "None, -6..6 (!=0)", "RHS length": "0..3",
                     "set": "all subsets of a 4-member pool", "dict": "keys k0..k2, values from a 3-member pool"},
    },
    "outside": [
        "custom user collection classes (@collection.appender etc.)",
        "`coll *= k` with k >= 1: deliberately not instrumented (source comment in _list_decorators: members are "
        "already present, no append events); only contents are compared for it",
        "None as a collection member (setdefault(key) without default)",
        "wholesale assignment of a collection containing the same object twice (bulk_replace is defined on identity sets)",
        "backref side effects (C37), flush / persistence, pickling, collection invalidation after expiry",
        "set.pop() element choice (any member conforms)",
    ],
    "stubs": [],
    "assumptions": ["children compare by identity (default object equality), like the int pool indices of the model",
                    "list/set/dict are C containers: symbolic indices are realised value by value; the solver "
                    "enumerates the bounded domain (one path per input tuple)",
                    "reporting cap: after %d failing inputs with the same defect key in one slice, further failing inputs "
                    "with that key are abandoned (counted as precondition-unmet, never as passing)" % CAP],
}


def harnesses(tier: str) -> List[Harness]:
    q = tier == "quick"
    hs: List[Harness] = []
    nmax = 3 if q else 4
    hi = 5 if q else 6
    B = 120 if q else 900
    allns = ",".join(str(n) for n in range(nmax + 1))
    # list: single-element / index operations
    lp = []
    for o in LIST_POINT_OPS:
        if o in ("insert", "setitem"):
            lp += [dict(op=o, nsel=n, nmax=nmax, hi=hi) for n in range(nmax + 1)]
        else:
            lp.append(dict(op=o, nsel=-1, nmax=nmax, hi=hi))
    hs.append(Harness("list_point", h_list_point, lp, budget_s=B))
    hs.append(Harness("list_seq", h_list_seq,
                      [dict(op=o, rk=rk, nmax=(2 if q else 3), mmax={"list": 3, "iter": 3, "tuple": 1, "gen": 1}.get(rk, 0))
                       for o in LIST_SEQ_OPS for rk in RHS_KINDS], budget_s=B))
    # slice assignment
    margin, shi, smax = (2, 0, 2) if q else (0, 6, 6)
    ss = []
    for reg in REGIONS:
        if reg == "in" or not q:
            ss += [dict(reg=reg, variant="primary", ns=str(n), ms="0,1,2,3", margin=margin, hi=shi, smax=smax) for n in range(nmax + 1)]
        else:
            ss.append(dict(reg=reg, variant="primary", ns=allns, ms="0,1,2,3", margin=margin, hi=shi, smax=smax))
        for v in ("tuple", "iter", "self", "existing", "dup"):
            ms = "0" if v == "self" else ("1,2" if q else "0,1,2,3")
            if q:
                ss.append(dict(reg=reg, variant=v, ns="2,3", ms=ms, margin=1, hi=0, smax=2))
            else:
                ss += [dict(reg=reg, variant=v, ns=str(n), ms=ms, margin=2, hi=0, smax=2) for n in (1, 2, 3, 4)]
    hs.append(Harness("list_setslice", h_list_setslice, ss, budget_s=B + 30))
    ds = []
    for reg in REGIONS:
        if q:
            ds.append(dict(reg=reg, ipat="distinct", ns=allns, margin=margin, hi=shi, smax=smax))
        else:
            ds += [dict(reg=reg, ipat="distinct", ns=str(n), margin=margin, hi=shi, smax=smax) for n in range(nmax + 1)]
        ds.append(dict(reg=reg, ipat="dup", ns=("2,3" if q else "2,3,4"), margin=1, hi=0, smax=2))
    hs.append(Harness("list_delslice", h_list_delslice, ds, budget_s=B))
    # set
    npool = 3 if q else 4
    sl = [dict(op=o, ak="set", nargs=0, npool=npool) for o in SET_ELEM_OPS]
    sl += [dict(op=o, ak=ak, nargs=1, npool=npool) for o in SET_BULK_OPS for ak in SET_ARG_KINDS]
    sl += [dict(op=o, ak="set", nargs=-1, npool=3) for o in SET_NARGS_OPS]
    hs.append(Harness("set", h_set, sl, budget_s=B))
    # keyed dicts: the decorators are shared by the three flavours, the widest bounds go to one of them
    dl = []
    for kind in DICT_KINDS:
        main = kind == "attr_dict"
        for o in DICT_OPS:
            bulk = o in DICT_BULK
            nk = 3 if (main or not bulk) else 2
            nv = (2 if q else 3) if main else 2
            dl.append(dict(kind=kind, op=o, nk=nk, nv=nv, revs=bool(main and o in ("popitem", "update_dict", "clear", "ior"))))
    hs.append(Harness("dict", h_dict, dl, budget_s=B))
    hs.append(Harness("assign", h_assign, [dict(kind=k, npool=3, nmax=3) for k in ("list", "set", "attr_dict")], budget_s=B))
    return hs


def decode(hname, args):
    """The named inputs behind ``code`` for a given slice (used by classify and for reading replays)."""
    c = args["code"]
    if hname == "list_point":
        init, x, i, k = t_list_point(args["op"], args["nsel"], args["nmax"], args["hi"])[c]
        return dict(members=init, x=x, i=i, k=k)
    if hname == "list_seq":
        init, rhs = t_list_seq(args["nmax"], args["mmax"])[c]
        return dict(members=init, rhs=rhs)
    if hname == "list_setslice":
        n, m, start, stop, step = t_slices(args["reg"], _ints(args["ns"]), _ints(args["ms"]), args["margin"], args["hi"], args["smax"])[c]
        rk, ipat, rpat = VARIANTS[args["variant"]]
        init, rhs = _slice_inputs(n, m, ipat, rpat)
        return dict(n=n, m=m, start=start, stop=stop, step=step, rk=rk, members=init, rhs=("<the collection>" if rk == "self" else rhs))
    if hname == "list_delslice":
        n, _m, start, stop, step = t_slices(args["reg"], _ints(args["ns"]), (0,), args["margin"], args["hi"], args["smax"])[c]
        return dict(n=n, start=start, stop=stop, step=step, members=INIT_PATS[args["ipat"]][:n])
    if hname == "set":
        a, x, b, b2, na = t_set(args["op"], args["nargs"], args["npool"])[c]
        np_ = args["npool"]
        return dict(members=_bits(a, np_), x=x, arg=_bits(b, np_), arg2=_bits(b2, np_), nargs=na)
    if hname == "dict":
        present, ov, key, x, rev = t_dict(args["op"], args["nk"], args["nv"], args["revs"])[c]
        return dict(present=present, other=ov, key="k%d" % key, x=x, reversed_insertion=rev)
    if hname == "assign":
        a, new = t_assign(args["npool"], args["nmax"])[c]
        return dict(members=_bits(a, args["npool"]), new=new)
    raise AssertionError(hname)


def _slice_feature(n, start, stop, step, rk):
    st = 1 if step is None else step
    if rk == "self":
        return "rhs-is-the-collection"
    if st < 0:
        return "negative-step"
    below = (start is not None and start < -n) or (stop is not None and stop < -n)
    if st == 1:
        return "step1:bound-below-minus-len" if below else "step1:other"
    if rk == "iter":
        return "extended:rhs-without-len"
    if below:
        return "extended:bound-below-minus-len"
    if (stop is not None and stop > n) or (start is not None and start > n):
        return "extended:bound-above-len"
    return "extended:other"


def classify(hname, args, rep):
    d = decode(hname, args)
    exc = rep.get("exception")
    if exc:
        return ("C38:%s:harness-exception" % hname, "%s raised %s on %s %s" % (hname, exc, args, d))
    if hname == "list_setslice":
        feat = _slice_feature(d["n"], d["start"], d["stop"], d["step"], d["rk"])
        return ("C38:list.__setitem__:slice:" + feat,
                "InstrumentedList slice assignment differs from list (contents, exception type or events): "
                "members=%s coll[%s:%s:%s] = %s(%s) [%s]" % (d["members"], d["start"], d["stop"], d["step"], d["rk"], d["rhs"], feat))
    if hname == "list_delslice":
        return ("C38:list.__delitem__:slice:%s" % ("negative-step" if (d["step"] or 1) < 0 else "positive-step"),
                "InstrumentedList slice deletion differs from list: members=%s del coll[%s:%s:%s]"
                % (d["members"], d["start"], d["stop"], d["step"]))
    if hname == "list_point":
        op = args["op"]
        if op == "remove" and d["x"] not in d["members"]:
            return ("C38:list.remove:absent-item-fires-remove-event",
                    "InstrumentedList.remove(x) with x not in the list fires a 'remove' event before raising "
                    "ValueError: members=%s x=%s" % (d["members"], d["x"]))
        if op == "imul":
            if d["k"] <= 0:
                return ("C38:list.__imul__:k<=0-empties-without-remove-events",
                        "coll *= %s on members %s empties the list without remove events" % (d["k"], d["members"]))
            return ("C38:list.__imul__:k=%s" % d["k"], "coll *= %s on members %s differs from list" % (d["k"], d["members"]))
        return ("C38:list.%s" % op, "InstrumentedList.%s differs from list: %s" % (op, d))
    if hname == "list_seq":
        return ("C38:list.%s:rhs=%s" % (args["op"], args["rk"]), "InstrumentedList.%s(<%s>) differs from list: %s"
                % (args["op"], args["rk"], d))
    if hname == "set":
        op = args["op"]
        if d["nargs"] != 1 and op in SET_NARGS_OPS:
            return ("C38:set.%s:nargs!=1" % op,
                    "InstrumentedSet.%s() called with %s arguments raises TypeError; set.%s accepts *others" % (op, d["nargs"], op))
        return ("C38:set.%s:%s" % (op, args["ak"]), "InstrumentedSet.%s(<%s>) differs from set: %s" % (op, args["ak"], d))
    if hname == "dict":
        op = args["op"]
        if op == "ior":
            return ("C38:dict.__ior__:no-events", "KeyFuncDict `d |= other` mutates the collection without firing "
                    "append/remove events (%s): %s" % (args["kind"], d))
        return ("C38:dict.%s:%s" % (op, args["kind"]), "%s.%s differs from dict: %s" % (args["kind"], op, d))
    return ("C38:%s:%s" % (hname, args.get("kind")), "%s fails on %s %s" % (hname, args, d))


def run(tier: str, seed: int):
    return framework.run_symx(PID, __name__, tier, seed, harnesses(tier), classify, META)
