"""C38 Instrumented relationship collections behave exactly like list / set / dict (E1 symx).

Differential check of the real ``InstrumentedList`` / ``InstrumentedSet`` / ``KeyFuncDict`` objects
attached to a real relationship against the builtin applied to a plain copy (contents, return value,
exception type), plus an event ledger: the ``append`` / ``remove`` attribute events fired by the
operation must account exactly (as a signed multiset) for the change of the contents.
"""
from __future__ import annotations

import operator
import sys
from typing import List

from vlib import framework
from vlib.framework import Harness
from vlib.symx import assume

from sqlalchemy import Column, ForeignKey, Integer, String, event
from sqlalchemy.orm import attribute_keyed_dict, column_keyed_dict, mapped_collection, registry, relationship

PID = "C38"

# ------------------------------------------------------------------------------------------
# mappings (built once at import; no database, no SQL)

_reg = registry()
POOL = 7  # child objects per run (index = identity)


def _child_init(self, ix):
    self.ix = ix
    self.k = "k%d" % ix


def _mk(kind, cc_factory):
    child = type("C38Child_" + kind, (), dict(
        __tablename__="c38_child_" + kind,
        id=Column(Integer, primary_key=True),
        pid=Column(ForeignKey("c38_parent_%s.id" % kind)),
        k=Column(String),
        __init__=_child_init,
        __repr__=lambda self: "c%d" % self.ix,
    ))
    child = _reg.mapped(child)
    parent = type("C38Parent_" + kind, (), dict(
        __tablename__="c38_parent_" + kind,
        id=Column(Integer, primary_key=True),
        coll=relationship(child, collection_class=cc_factory(child)),
    ))
    parent = _reg.mapped(parent)
    return parent, child


KINDS = {
    "list": _mk("list", lambda c: list),
    "set": _mk("set", lambda c: set),
    "attr_dict": _mk("attr_dict", lambda c: attribute_keyed_dict("k")),
    "col_dict": _mk("col_dict", lambda c: column_keyed_dict(c.__table__.c.k)),
    "fn_dict": _mk("fn_dict", lambda c: mapped_collection(lambda o: o.k)),
}
DICT_KINDS = ["attr_dict", "col_dict", "fn_dict"]
_reg.configure()

LEDGER: List[tuple] = []
_CUR: List[object] = [None]  # the parent under test (events of helper parents are not recorded)


def _log(target, tag, payload):
    if target is _CUR[0]:
        LEDGER.append((tag, payload))


def _listen(parent):
    event.listen(parent.coll, "append", lambda t, v, i: _log(t, "a", getattr(v, "ix", None)))
    event.listen(parent.coll, "remove", lambda t, v, i: _log(t, "r", getattr(v, "ix", None)))
    event.listen(parent.coll, "append_wo_mutation", lambda t, v, i: _log(t, "w", getattr(v, "ix", None)))
    event.listen(parent.coll, "bulk_replace", lambda t, vs, i: _log(t, "b", [getattr(v, "ix", None) for v in vs]))


for _k in KINDS:
    _listen(KINDS[_k][0])


class _IdPool:
    """pool[i] == i: lets one op-applier drive both the real collection and the int model."""

    def __getitem__(self, i):
        return i


IDPOOL = _IdPool()


def _tracing():
    # (not vlib.symx._tracing: that imports CrossHair, which costs ~1 s in every forked replay child)
    m = sys.modules.get("crosshair.tracers")
    return bool(m is not None and m.is_tracing())


def native(fn, *args):
    """Run ``fn`` with the tracer paused.  Unlike ``vlib.symx.native`` the arguments are NOT deep-realised
    (that would deep-copy the mapped instances): every argument is already a plain Python value (`pin`)
    or a live ORM object."""
    if not _tracing():
        return fn(*args)
    from crosshair.tracers import NoTracing

    with NoTracing():
        return fn(*args)


# CrossHair models ``weakref.ref.__call__`` as ``gc.collect(); r()``; the ORM dereferences weakrefs
# (InstanceState.obj, CollectionAdapter._data) several times per operation.  Freezing the import-time heap
# keeps those collections cheap (engine cost only, no semantic effect).
import gc as _gc  # noqa: E402

_gc.collect()
_gc.freeze()


def _gc_mark():
    """Called (untraced) at the start of every path: drop the previous path's cyclic garbage, then freeze
    what is alive (search tree, solver state) so that the per-weakref collections only scan this path's objects."""
    _gc.collect()
    _gc.freeze()


def pin_code(code, n):
    """Binary case-split of a symbolic int over 0..n-1 by solver-decided comparisons: one path per value,
    and the code under test receives plain Python values (list/set/dict are C containers that would
    realise every argument anyway)."""
    assume(0 <= code)
    assume(code < n)
    lo, hi = 0, n - 1
    while lo < hi:
        mid = (lo + hi) // 2
        if code <= mid:
            hi = mid
        else:
            lo = mid + 1
    return lo


def _space(doms):
    n = 1
    for _, vals in doms:
        n *= len(vals)
    return n


def _unrank(c, doms):
    """Mixed-radix decoding of the input code into named arguments."""
    out = {}
    for name, vals in doms:
        c, r = divmod(c, len(vals))
        out[name] = vals[r]
    return out


def _inputs(code, doms):
    return _unrank(pin_code(code, _space(doms)), doms)


def _opt(lo, hi, nozero=False):
    return [None] + [v for v in range(lo, hi + 1) if not (nozero and v == 0)]


def _run(fn, *args):
    try:
        return ("ok", fn(*args))
    except Exception as e:  # noqa: BLE001 - the exception type is the observation
        if type(e).__name__ == "NotDeterministic":
            raise
        return ("exc", type(e).__name__)


def _norm(ret, c):
    if ret is c:
        return "self"
    if ret is None or isinstance(ret, (int, str)):
        return ret
    if isinstance(ret, tuple):
        return [_norm(x, c) for x in ret]
    if ret is NotImplemented:
        return "NotImplemented"
    return getattr(ret, "ix", "?" + type(ret).__name__)


def _norm_res(res, c):
    return [res[0], _norm(res[1], c)] if res[0] == "ok" else [res[0], res[1]]


def _signed(before, after):
    d = {}
    for x in after:
        d[x] = d.get(x, 0) + 1
    for x in before:
        d[x] = d.get(x, 0) - 1
    return {k: v for k, v in d.items() if v}


def _ledger_net(ledger):
    d = {}
    for tag, ix in ledger:
        if tag == "a":
            d[ix] = d.get(ix, 0) + 1
        elif tag == "r":
            d[ix] = d.get(ix, 0) - 1
    return {k: v for k, v in d.items() if v}


def _verdict(before_vals, got_vals, got_shape, model_shape, got_res, model_res, ledger, events=True):
    """Pure comparison (run natively): contents, return/exception, event accounting."""
    if got_shape != model_shape:
        return False
    if got_res != model_res:
        return False
    if events and _ledger_net(ledger) != _signed(before_vals, got_vals):
        return False
    return True


# ------------------------------------------------------------------------------------------
# list

def _setup(kind, init, keys=None):
    _gc_mark()
    parent_cls, child_cls = KINDS[kind]
    pool = [child_cls(i) for i in range(POOL)]
    p = parent_cls()
    coll = p.coll
    if kind == "list":
        for i in init:
            coll.append(pool[i])
    elif kind == "set":
        for i in init:
            coll.add(pool[i])
    else:
        for key, i in zip(keys, init):
            coll[key] = pool[i]
    del LEDGER[:]
    _CUR[0] = p
    return p, pool, coll


def _mk_rhs(c, pool, rk, rhs):
    items = [pool[i] for i in rhs]
    if rk == "list":
        return items
    if rk == "tuple":
        return tuple(items)
    if rk == "iter":
        return iter(items)
    if rk == "gen":
        return (x for x in items)
    if rk == "self":
        return c
    if rk == "int":
        return 5
    if rk == "none":
        return None
    raise AssertionError(rk)


def _key_ix(c):
    return c if isinstance(c, int) else c.ix


LIST_POINT_OPS = ["append", "remove", "insert", "setitem", "delitem", "pop", "pop_noarg", "clear", "reverse",
                  "sort", "sort_reverse", "imul", "extend_self", "iadd_self"]


def _list_point(c, pool, op, x, i, k):
    if op == "append":
        return c.append(pool[x])
    if op == "remove":
        return c.remove(pool[x])
    if op == "insert":
        return c.insert(i, pool[x])
    if op == "setitem":
        return operator.setitem(c, i, pool[x])
    if op == "delitem":
        return operator.delitem(c, i)
    if op == "pop":
        return c.pop(i)
    if op == "pop_noarg":
        return c.pop()
    if op == "clear":
        return c.clear()
    if op == "reverse":
        return c.reverse()
    if op == "sort":
        return c.sort(key=_key_ix)
    if op == "sort_reverse":
        return c.sort(key=_key_ix, reverse=True)
    if op == "imul":
        return operator.imul(c, k)
    if op == "extend_self":
        return c.extend(c)
    if op == "iadd_self":
        return operator.iadd(c, c)
    raise AssertionError(op)


def _model_list_point(init, op, x, i, k):
    m = list(init)
    res = _run(_list_point, m, IDPOOL, op, x, i, k)
    return m, _norm_res(res, m)


def _finish_list(p, coll, init, got_res, model, model_res, events=True):
    same = p.coll is coll
    got = [c.ix for c in coll]
    return same and _verdict(list(init), got, got, model, got_res, model_res, list(LEDGER), events)


def d_list_point(op, n, hi):
    doms = [("init%d" % j, [0, 1, 2]) for j in range(n)]
    if op in ("append", "remove", "insert", "setitem"):
        doms.append(("x", [0, 1, 2, 3]))
    if op in ("insert", "setitem", "delitem", "pop"):
        doms.append(("i", list(range(-hi, hi + 1))))
    if op == "imul":
        doms.append(("k", [-1, 0, 1, 2]))
    return doms


def h_list_point(op: str, n: int, hi: int, code: int) -> bool:
    a = _inputs(code, d_list_point(op, n, hi))
    init = [a["init%d" % j] for j in range(n)]
    x, i, k = a.get("x", 0), a.get("i", 0), a.get("k", 0)
    p, pool, coll = native(_setup, "list", init)
    res = _run(_list_point, coll, pool, op, x, i, k)
    model, model_res = native(_model_list_point, init, op, x, i, k)
    # `*=` with k >= 1: deliberately not instrumented (source comment: "all members of the collection
    # are already present, so no need to fire appends"); contents still compared.
    events = not (op == "imul" and k >= 1)
    return native(_finish_list, p, coll, init, _norm_res(res, coll), model, model_res, events)


LIST_SEQ_OPS = ["extend", "iadd"]
RHS_KINDS = ["list", "tuple", "iter", "gen", "int", "none"]


def _list_seq(c, pool, op, rk, rhs):
    other = _mk_rhs(c, pool, rk, rhs)
    if op == "extend":
        return c.extend(other)
    if op == "iadd":
        return operator.iadd(c, other)
    raise AssertionError(op)


def _model_list_seq(init, op, rk, rhs):
    m = list(init)
    res = _run(_list_seq, m, IDPOOL, op, rk, rhs)
    return m, _norm_res(res, m)


def d_list_seq(n, m):
    return [("init%d" % j, [0, 1, 2]) for j in range(n)] + [("rhs%d" % j, [0, 1, 2, 3]) for j in range(m)]


def h_list_seq(op: str, rk: str, n: int, m: int, code: int) -> bool:
    a = _inputs(code, d_list_seq(n, m))
    init = [a["init%d" % j] for j in range(n)]
    rhs = [a["rhs%d" % j] for j in range(m)]
    p, pool, coll = native(_setup, "list", init)
    res = _run(_list_seq, coll, pool, op, rk, rhs)
    model, model_res = native(_model_list_seq, init, op, rk, rhs)
    return native(_finish_list, p, coll, init, _norm_res(res, coll), model, model_res)


# slices.  init / rhs come from concrete patterns, start/stop/step are the symbolic part.
INIT_PATS = {"distinct": [0, 1, 2, 3], "dup": [0, 0, 1, 0]}
# rhs patterns: fresh children, children already in the collection (reversed order), one fresh child repeated
RHS_PATS = ["fresh", "existing", "dupfresh"]


def _slice_inputs(n, m, ipat, rpat):
    init = INIT_PATS[ipat][:n]
    if rpat == "fresh":
        rhs = [4, 5, 6][:m]
    elif rpat == "existing":
        rhs = [([2, 1, 0, 3][j]) % max(n, 1) if n else 4 + j for j in range(m)]
    else:
        rhs = [4] * m
    return init, rhs


def _list_setslice(c, pool, rk, rhs, start, stop, step):
    return operator.setitem(c, slice(start, stop, step), _mk_rhs(c, pool, rk, rhs))


def _model_list_setslice(init, rk, rhs, start, stop, step):
    m = list(init)
    res = _run(_list_setslice, m, IDPOOL, rk, rhs, start, stop, step)
    return m, _norm_res(res, m)


def d_slice(lo, hi, smax):
    return [("start", _opt(lo, hi)), ("stop", _opt(lo, hi)), ("step", _opt(-smax, smax, nozero=True))]


def h_list_setslice(n: int, m: int, ipat: str, rpat: str, rk: str, lo: int, hi: int, smax: int, code: int) -> bool:
    a = _inputs(code, d_slice(lo, hi, smax))
    start, stop, step = a["start"], a["stop"], a["step"]
    init, rhs = _slice_inputs(n, m, ipat, rpat)
    p, pool, coll = native(_setup, "list", init)
    res = _run(_list_setslice, coll, pool, rk, rhs, start, stop, step)
    model, model_res = native(_model_list_setslice, init, rk, rhs, start, stop, step)
    return native(_finish_list, p, coll, init, _norm_res(res, coll), model, model_res)


def _list_delslice(c, start, stop, step):
    return operator.delitem(c, slice(start, stop, step))


def _model_list_delslice(init, start, stop, step):
    m = list(init)
    res = _run(_list_delslice, m, start, stop, step)
    return m, _norm_res(res, m)


def h_list_delslice(n: int, ipat: str, lo: int, hi: int, smax: int, code: int) -> bool:
    a = _inputs(code, d_slice(lo, hi, smax))
    start, stop, step = a["start"], a["stop"], a["step"]
    init = INIT_PATS[ipat][:n]
    p, pool, coll = native(_setup, "list", init)
    res = _run(_list_delslice, coll, start, stop, step)
    model, model_res = native(_model_list_delslice, init, start, stop, step)
    return native(_finish_list, p, coll, init, _norm_res(res, coll), model, model_res)


# ------------------------------------------------------------------------------------------
# set

SET_ELEM_OPS = ["add", "discard", "remove", "pop", "clear"]
SET_BULK_OPS = ["update", "ior", "intersection_update", "iand", "difference_update", "isub",
                "symmetric_difference_update", "ixor"]
SET_NARGS_OPS = ["update", "intersection_update", "difference_update"]  # builtin accepts *others
SET_ARG_KINDS = ["set", "frozenset", "list", "iter", "iset", "int"]


def _bits(mask, npool):
    return [j for j in range(npool) if mask & (1 << j)]


def _mk_setarg(kind, items, pool, ak):
    if ak == "set":
        return set(items)
    if ak == "frozenset":
        return frozenset(items)
    if ak == "list":
        return list(items) + list(items[:1])  # with a duplicate
    if ak == "iter":
        return iter(list(items))
    if ak == "int":
        return 5
    if ak == "iset":
        if pool is IDPOOL:
            return set(items)  # for the builtin an InstrumentedSet is just a set subclass instance
        other_parent = KINDS["set"][0]()
        oc = other_parent.coll
        for it in items:
            oc.add(it)
        return oc
    raise AssertionError(ak)


def _set_op(c, pool, op, ak, x, b, b2, nargs):
    if op == "add":
        return c.add(pool[x])
    if op == "discard":
        return c.discard(pool[x])
    if op == "remove":
        return c.remove(pool[x])
    if op == "pop":
        return c.pop()
    if op == "clear":
        return c.clear()
    others = [_mk_setarg("set", [pool[j] for j in bs], pool, ak) for bs in ([b, b2][:nargs])]
    if op == "ior":
        return operator.ior(c, others[0])
    if op == "iand":
        return operator.iand(c, others[0])
    if op == "isub":
        return operator.isub(c, others[0])
    if op == "ixor":
        return operator.ixor(c, others[0])
    return getattr(c, op)(*others)


def _model_set(init, op, ak, x, b, b2, nargs):
    m = set(init)
    res = _run(_set_op, m, IDPOOL, op, ak, x, b, b2, nargs)
    return sorted(m), _norm_res(res, m)


def _finish_set(p, coll, init, op, got_res, model, model_res):
    if p.coll is not coll:
        return False
    got = sorted(c.ix for c in coll)
    if op == "pop" and got_res[0] == "ok" and model_res[0] == "ok":
        # set.pop() removes an arbitrary member: any member of the receiver is a conforming result
        r = got_res[1]
        if r not in init:
            return False
        model = sorted(x for x in init if x != r)
        model_res = got_res
    return _verdict(list(init), got, got, model, got_res, model_res, list(LEDGER))


def d_set(op, nargs, npool):
    masks = list(range(1 << npool))
    doms = [("a", masks)]
    if op in ("add", "discard", "remove"):
        doms.append(("x", list(range(npool))))
    if op in SET_BULK_OPS and nargs >= 1:
        doms.append(("b", masks))
    if op in SET_BULK_OPS and nargs >= 2:
        doms.append(("b2", masks))
    return doms


def h_set(op: str, ak: str, nargs: int, npool: int, code: int) -> bool:
    a = _inputs(code, d_set(op, nargs, npool))
    init = _bits(a["a"], npool)
    x = a.get("x", 0)
    bl = _bits(a.get("b", 0), npool)
    b2l = _bits(a.get("b2", 0), npool)
    p, pool, coll = native(_setup, "set", init)
    res = _run(_set_op, coll, pool, op, ak, x, bl, b2l, nargs)
    model, model_res = native(_model_set, init, op, ak, x, bl, b2l, nargs)
    return native(_finish_set, p, coll, init, op, _norm_res(res, coll), model, model_res)


# ------------------------------------------------------------------------------------------
# keyed dicts (attribute_keyed_dict / column_keyed_dict / mapped_collection): plain dict protocol

DICT_OPS = ["setitem", "delitem", "pop", "pop_default", "popitem", "setdefault", "clear",
            "update_dict", "update_pairs", "update_kw", "update_dict_kw", "update_noarg", "update_keyed", "ior",
            "keyed_set", "keyed_remove"]
DICT_ONEKEY = ["setitem", "delitem", "pop", "pop_default", "setdefault"]
DICT_BULK = ["update_dict", "update_pairs", "update_kw", "update_dict_kw", "update_keyed", "ior"]


def _dict_op(c, pool, kind, op, key, x, okeys, ovals):
    if op == "setitem":
        return operator.setitem(c, key, pool[x])
    if op == "delitem":
        return operator.delitem(c, key)
    if op == "pop":
        return c.pop(key)
    if op == "pop_default":
        return c.pop(key, pool[x])
    if op == "popitem":
        return c.popitem()
    if op == "setdefault":
        return c.setdefault(key, pool[x])
    if op == "clear":
        return c.clear()
    if op == "update_noarg":
        return c.update()
    if op == "keyed_set":
        # KeyFuncDict.set(value) == d[keyfunc(value)] = value
        if pool is IDPOOL:
            return operator.setitem(c, "k%d" % x, x)
        return c.set(pool[x])
    if op == "keyed_remove":
        # KeyFuncDict.remove(value) == del d[keyfunc(value)] provided that slot holds value
        if pool is IDPOOL:
            if ("k%d" % x) in c and c["k%d" % x] != x:
                raise _Mismatch()
            return operator.delitem(c, "k%d" % x)
        return c.remove(pool[x])
    other = {}
    for kk, vv in zip(okeys, ovals):
        other[kk] = pool[vv]
    if op == "update_dict":
        return c.update(other)
    if op == "update_pairs":
        return c.update(list(other.items()))
    if op == "update_kw":
        return c.update(**other)
    if op == "update_dict_kw":
        first = dict(list(other.items())[:1])
        rest = dict(list(other.items())[1:])
        return c.update(first, **rest)
    if op == "update_keyed":
        if pool is IDPOOL:
            return c.update(dict(other))
        op_ = KINDS[kind][0]()
        oc = op_.coll
        for kk, vv in other.items():
            oc[kk] = vv
        return c.update(oc)
    if op == "ior":
        return operator.ior(c, other)
    raise AssertionError(op)


class _Mismatch(Exception):
    pass


_Mismatch.__name__ = "InvalidRequestError"  # what KeyFuncDict.remove raises for a slot holding another value


def _model_dict(kind, keys, init, op, key, x, okeys, ovals):
    m = {}
    for kk, vv in zip(keys, init):
        m[kk] = vv
    res = _run(_dict_op, m, IDPOOL, kind, op, key, x, okeys, ovals)
    return [[kk, vv] for kk, vv in m.items()], _norm_res(res, m)


def _finish_dict(p, coll, init, got_res, model, model_res):
    if p.coll is not coll:
        return False
    got = [[kk, vv.ix] for kk, vv in dict.items(coll)]
    return _verdict(list(init), [v for _, v in got], got, model, got_res, model_res, list(LEDGER))


def d_dict(op, nk, nv):
    vals = list(range(-1, nv))  # -1 = key absent, else the pool index stored under key "k<j>"
    doms = [("present%d" % j, vals) for j in range(nk)]
    if op in DICT_ONEKEY:
        doms.append(("key", list(range(nk))))
    if op in ("setitem", "pop_default", "setdefault", "keyed_set", "keyed_remove"):
        doms.append(("x", list(range(nv))))
    if op in DICT_BULK:
        doms += [("other%d" % j, vals) for j in range(nk)]
    return doms


def h_dict(kind: str, op: str, nk: int, nv: int, rev: bool, code: int) -> bool:
    a = _inputs(code, d_dict(op, nk, nv))
    present = [a["present%d" % j] for j in range(nk)]
    ov = [a.get("other%d" % j, -1) for j in range(nk)]
    key, x = a.get("key", 0), a.get("x", 0)
    order = list(range(nk))
    if rev:
        order.reverse()
    keys = ["k%d" % j for j in order if present[j] >= 0]
    init = [present[j] for j in order if present[j] >= 0]
    okeys = ["k%d" % j for j in range(nk) if ov[j] >= 0]
    ovals = [ov[j] for j in range(nk) if ov[j] >= 0]
    p, pool, coll = native(_setup, kind, init, keys)
    res = _run(_dict_op, coll, pool, kind, op, "k%d" % key, x, okeys, ovals)
    model, model_res = native(_model_dict, kind, keys, init, op, "k%d" % key, x, okeys, ovals)
    return native(_finish_dict, p, coll, init, _norm_res(res, coll), model, model_res)


# ------------------------------------------------------------------------------------------
# wholesale assignment  parent.coll = <new collection>  (attributes.py: set -> bulk_replace)

def _assign(kind, p, pool, new):
    if kind == "list":
        p.coll = [pool[i] for i in new]
    elif kind == "set":
        p.coll = {pool[i] for i in new}
    else:
        p.coll = {"k%d" % i: pool[i] for i in new}


def _finish_assign(kind, p, old, init, new, got_res):
    if got_res != ["ok", None]:
        return False
    cur = p.coll
    if cur is old:
        return False
    if kind == "list":
        got = [c.ix for c in cur]
        shape_ok = got == list(new)
    elif kind == "set":
        got = sorted(c.ix for c in cur)
        shape_ok = got == sorted(new)
    else:
        got = [c.ix for c in dict.values(cur)]
        shape_ok = [[k, v.ix] for k, v in dict.items(cur)] == [["k%d" % i, i] for i in new]
    if not shape_ok:
        return False
    bulk = [e for e in LEDGER if e[0] == "b"]
    if len(bulk) != 1 or sorted(bulk[0][1]) != sorted(new):
        return False
    return _ledger_net(list(LEDGER)) == _signed(list(init), got)


def d_assign(npool, nnew):
    return [("a", list(range(1 << npool)))] + [("new%d" % j, list(range(npool))) for j in range(nnew)]


def h_assign(kind: str, npool: int, nnew: int, code: int) -> bool:
    a = _inputs(code, d_assign(npool, nnew))
    new = [a["new%d" % j] for j in range(nnew)]
    # distinct members only (bulk_replace works on identity sets; see META.outside)
    assume(len(set(new)) == len(new))
    init = _bits(a["a"], npool)
    keys = ["k%d" % i for i in init]
    p, pool, coll = native(_setup, kind, init, keys)
    res = _run(_assign, kind, p, pool, new)
    return native(_finish_assign, kind, p, coll, init, new, _norm_res(res, coll))


# ------------------------------------------------------------------------------------------

META = {
    "explanation": "Real InstrumentedList / InstrumentedSet / KeyFuncDict (attribute_keyed_dict, column_keyed_dict, "
                   "mapped_collection) collections on real relationship() attributes of transient parents; every "
                   "mutator is applied to the instrumented collection and to a builtin list/set/dict copy; contents, "
                   "return value and exception type must agree and the append/remove attribute events must equal "
                   "the signed multiset difference of the contents. Indices, slice start/stop/step, element choices "
                   "and set/dict contents are solver-chosen (case-split by z3-decided equalities, one path per value "
                   "because list/set/dict are C containers that realise their arguments).",
    "functions": [
        "orm.collections._list_decorators.{append,remove,insert,__setitem__,__delitem__,extend,__iadd__,pop,clear}",
        "orm.collections._set_decorators.{add,discard,remove,pop,clear,update,__ior__,difference_update,__isub__,"
        "intersection_update,__iand__,symmetric_difference_update,__ixor__}",
        "orm.collections._dict_decorators.{__setitem__,__delitem__,clear,pop,popitem,setdefault,update}",
        "orm.collections.CollectionAdapter.{fire_append_event,fire_remove_event,fire_pre_remove_event,"
        "fire_append_wo_mutation_event,_reset_empty}", "orm.collections.bulk_replace",
        "orm.mapped_collection.KeyFuncDict.{set,remove}",
        "orm.attributes._CollectionAttributeImpl.{fire_append_event,fire_remove_event,set}",
        "uninstrumented inherited mutators: list.{reverse,sort,__imul__}, dict.__ior__",
    ],
    "bounds": {
        "quick": {"list size": "0..3 (members from a pool, duplicates allowed)", "index": "-5..5",
                  "slice start/stop": "None, -5..5", "slice step": "None, -2..2 (!=0)", "RHS length": "0..3",
                  "RHS kinds": "list, tuple, iterator, generator, the collection itself, non-iterable",
                  "set": "all subsets of a 3-member pool x all subsets as argument; argument kinds " + ", ".join(SET_ARG_KINDS),
                  "dict": "keys k0..k2, values from a 2-member pool, both insertion orders; 3 keyed-dict flavours"},
        "thorough": {"list size": "0..4", "index": "-6..6", "slice start/stop": "None, -6..6",
                     "slice step": "None, -6..6 (!=0)", "RHS length": "0..3",
                     "set": "all subsets of a 4-member pool", "dict": "keys k0..k2, values from a 3-member pool"},
    },
    "outside": [
        "custom user collection classes (@collection.appender etc.)",
        "`coll *= k` with k >= 1: deliberately not instrumented (source comment in _list_decorators: members are "
        "already present, no append events); only contents are compared for it",
        "None as a collection member (setdefault(key) without default)",
        "wholesale assignment of a collection containing the same object twice (bulk_replace is defined on identity sets)",
        "backref side effects (C37), flush / persistence, pickling, collection invalidation after expiry",
        "set.pop() element choice (any member conforms)",
    ],
    "stubs": [],
    "assumptions": ["children compare by identity (default object equality), like the int pool indices of the model",
                    "list/set/dict are C containers: symbolic indices are realised value by value; the solver "
                    "enumerates the bounded domain (one path per value)"],
}


def harnesses(tier: str) -> List[Harness]:
    q = tier == "quick"
    hs: List[Harness] = []
    nmax = 3 if q else 4
    hi = 5 if q else 6
    smax = 2 if q else 6
    bq = (lambda quick_s, thorough_s: quick_s if q else thorough_s)
    hs.append(Harness("list_point", h_list_point,
                      [dict(op=o, n=n, hi=hi) for o in LIST_POINT_OPS for n in range(nmax + 1)], budget_s=bq(60, 400)))
    hs.append(Harness("list_seq", h_list_seq,
                      [dict(op=o, rk=rk, n=n, m=m) for o in LIST_SEQ_OPS for rk in RHS_KINDS
                       for n in range(0, (2 if q else 3) + 1) for m in range(0, (3 if rk in ("list", "iter") else 1) + 1)
                       if not (rk in ("int", "none") and m > 0)],
                      budget_s=bq(60, 400)))
    ss = []
    for n in range(nmax + 1):
        for m in range(4):
            ss.append(dict(n=n, m=m, ipat="distinct", rpat="fresh", rk="list", lo=-hi, hi=hi, smax=smax))
    # secondary axes on a narrower index range
    lo2, hi2 = (-4, 4) if q else (-5, 5)
    for n in ((2, 3) if q else (1, 2, 3, 4)):
        for m in ((1, 2) if q else (0, 1, 2, 3)):
            for rk in ("iter", "tuple", "self") if not q else ("iter", "self"):
                ss.append(dict(n=n, m=m, ipat="distinct", rpat="fresh", rk=rk, lo=lo2, hi=hi2, smax=2))
            ss.append(dict(n=n, m=m, ipat="distinct", rpat="existing", rk="list", lo=lo2, hi=hi2, smax=2))
            ss.append(dict(n=n, m=m, ipat="dup", rpat="dupfresh", rk="list", lo=lo2, hi=hi2, smax=2))
    hs.append(Harness("list_setslice", h_list_setslice, ss, budget_s=bq(90, 600)))
    ds = [dict(n=n, ipat="distinct", lo=-hi, hi=hi, smax=smax) for n in range(nmax + 1)]
    ds += [dict(n=n, ipat="dup", lo=lo2, hi=hi2, smax=2) for n in (2, 3, nmax)]
    hs.append(Harness("list_delslice", h_list_delslice, ds, budget_s=bq(90, 600)))
    npool = 3 if q else 4
    sl = [dict(op=o, ak="set", nargs=0, npool=npool) for o in SET_ELEM_OPS]
    for o in SET_BULK_OPS:
        for ak in SET_ARG_KINDS:
            sl.append(dict(op=o, ak=ak, nargs=1, npool=npool))
    for o in SET_NARGS_OPS:
        sl.append(dict(op=o, ak="set", nargs=0, npool=npool))
        sl.append(dict(op=o, ak="set", nargs=2, npool=3))
    hs.append(Harness("set", h_set, sl, budget_s=bq(60, 400)))
    dl = []
    for kind in DICT_KINDS:
        main = kind == "attr_dict"
        for o in DICT_OPS:
            bulk = o in DICT_BULK
            # the decorators are shared by the three keyed-dict flavours: the widest bounds go to one flavour
            nk = 3 if (main or not bulk) else 2
            nv = (2 if q else 3) if (main or not bulk) else 2
            for rev in (False, True):
                if rev and not (main and o in ("popitem", "update_dict", "clear", "ior")):
                    continue
                dl.append(dict(kind=kind, op=o, nk=nk, nv=nv, rev=rev))
    hs.append(Harness("dict", h_dict, dl, budget_s=bq(60, 400)))
    al = [dict(kind=k, npool=3, nnew=nn) for k in ("list", "set", "attr_dict") for nn in range(0, 4)]
    hs.append(Harness("assign", h_assign, al, budget_s=bq(60, 400)))
    return hs


def decode(hname, args):
    """The named inputs encoded by ``code`` for a given slice (used by classify and for reading replays)."""
    c = args["code"]
    if hname == "list_point":
        return _unrank(c, d_list_point(args["op"], args["n"], args["hi"]))
    if hname == "list_seq":
        return _unrank(c, d_list_seq(args["n"], args["m"]))
    if hname in ("list_setslice", "list_delslice"):
        return _unrank(c, d_slice(args["lo"], args["hi"], args["smax"]))
    if hname == "set":
        return _unrank(c, d_set(args["op"], args["nargs"], args["npool"]))
    if hname == "dict":
        return _unrank(c, d_dict(args["op"], args["nk"], args["nv"]))
    if hname == "assign":
        return _unrank(c, d_assign(args["npool"], args["nnew"]))
    raise AssertionError(hname)


def _slice_feature(n, start, stop, step, rk):
    st = 1 if step is None else step
    if rk == "self":
        return "rhs-is-self"
    if st < 0:
        return "negative-step"
    oob_neg = (start is not None and start < -n) or (stop is not None and stop < -n)
    if st == 1:
        if oob_neg:
            return "step1:bound-below-minus-len"
        return "step1:other"
    if rk in ("iter", "gen"):
        return "extended:rhs-without-len"
    if oob_neg:
        return "extended:bound-below-minus-len"
    if (stop is not None and stop > n) or (start is not None and start > n):
        return "extended:bound-above-len"
    return "extended:other"


def classify(hname, args, rep):
    d = decode(hname, args)
    exc = rep.get("exception")
    if exc:
        return ("C38:%s:harness-exception" % hname, "%s raised %s on %s %s" % (hname, exc, args, d))
    if hname == "list_setslice":
        feat = _slice_feature(args["n"], d["start"], d["stop"], d["step"], args["rk"])
        return ("C38:list.__setitem__:slice:" + feat,
                "InstrumentedList slice assignment differs from list (contents, exception type or events): "
                "len=%s coll[%s:%s:%s] = <%s of %s %s items> (%s)"
                % (args["n"], d["start"], d["stop"], d["step"], args["rk"], args["m"], args["rpat"], feat))
    if hname == "list_delslice":
        return ("C38:list.__delitem__:slice:%s" % ("negative-step" if (d["step"] or 1) < 0 else "positive-step"),
                "InstrumentedList slice deletion differs from list: len=%s del coll[%s:%s:%s]"
                % (args["n"], d["start"], d["stop"], d["step"]))
    if hname == "list_point":
        op = args["op"]
        init = [d["init%d" % j] for j in range(args["n"])]
        if op == "remove" and d["x"] not in init:
            return ("C38:list.remove:absent-item-fires-remove-event",
                    "InstrumentedList.remove(x) with x not in the list fires a 'remove' event before raising "
                    "ValueError: members=%s x=%s" % (init, d["x"]))
        if op == "imul":
            feat = "k<=0-empties-without-remove-events" if d["k"] <= 0 else "k=%s" % d["k"]
            return ("C38:list.__imul__:" + feat, "coll *= %s on members %s: no remove events although the list is emptied" % (d["k"], init))
        return ("C38:list.%s" % op, "InstrumentedList.%s differs from list: members=%s %s" % (op, init, d))
    if hname == "list_seq":
        return ("C38:list.%s:rhs=%s" % (args["op"], args["rk"]), "InstrumentedList.%s(<%s>) differs from list: %s"
                % (args["op"], args["rk"], d))
    if hname == "set":
        op = args["op"]
        if op in SET_NARGS_OPS and args["nargs"] != 1:
            return ("C38:set.%s:nargs!=1" % op,
                    "InstrumentedSet.%s() called with %s arguments raises TypeError; set.%s accepts *others" % (op, args["nargs"], op))
        return ("C38:set.%s:%s" % (op, args["ak"]), "InstrumentedSet.%s(<%s>) differs from set: %s" % (op, args["ak"], d))
    if hname == "dict":
        op = args["op"]
        if op == "ior":
            return ("C38:dict.__ior__:no-events", "KeyFuncDict `d |= other` mutates the collection without firing "
                    "append/remove events (%s): %s" % (args["kind"], d))
        return ("C38:dict.%s:%s" % (op, args["kind"]), "%s.%s differs from dict: %s" % (args["kind"], op, d))
    return ("C38:%s:%s" % (hname, args.get("kind")), "%s fails on %s %s" % (hname, args, d))


def run(tier: str, seed: int):
    return framework.run_symx(PID, __name__, tier, seed, harnesses(tier), classify, META)
