"""C14 DDL is emitted in dependency order for any foreign-key graph (E1 style (b): solver-chosen FK
graphs, real MetaData / create_all / drop_all through a mock engine; the sort kernel is C19)."""
from __future__ import annotations

import re
import warnings
from typing import Dict, List, Optional, Tuple

from vlib import framework
from vlib.framework import Harness
from vlib.symx import assume, concrete, native, pick

PID = "C14"

KINDS = ["none", "fk", "use_alter"]
KINDS_U = ["none", "fk", "fk_unnamed"]  # mode "u": named and unnamed foreign keys (no use_alter)


def decode(n: int, nk: int, code: int) -> List[List[int]]:
    """code -> n x n matrix of FK kinds (row i references column j's table)."""
    m = [[0] * n for _ in range(n)]
    for i in range(n):
        for j in range(n):
            m[i][j] = code % nk
            code //= nk
    return m


def build_metadata(n: int, mat: List[List[int]], kinds=None):
    import sqlalchemy as sa

    KINDS = kinds or globals()["KINDS"]

    md = sa.MetaData()
    tables = []
    for i in range(n):
        cols = [sa.Column("id", sa.Integer, primary_key=True)]
        for j in range(n):
            k = KINDS[mat[i][j]]
            if k == "none":
                continue
            cols.append(sa.Column("r%d" % j, sa.Integer,
                                  sa.ForeignKey("t%d.id" % j, name=(None if k == "fk_unnamed" else "fk_%d_%d" % (i, j)), use_alter=(k == "use_alter"))))
        tables.append(sa.Table("t%d" % i, md, *cols))
    return md, tables


def capture(md, op: str) -> List[str]:
    import sqlalchemy as sa

    out: List[str] = []

    def ex(sql, *a, **kw):
        out.append(" ".join(str(sql.compile(dialect=eng.dialect)).split()))

    eng = sa.create_mock_engine("postgresql+psycopg2://", ex)
    with warnings.catch_warnings():
        warnings.simplefilter("ignore")
        if op == "create":
            md.create_all(eng, checkfirst=False)
        else:
            md.drop_all(eng, checkfirst=False)
    return out


_RE_CREATE = re.compile(r"^CREATE TABLE (\w+) \((.*)\)$")
_RE_INLINE_FK = re.compile(r"(?:CONSTRAINT (\w+) )?FOREIGN KEY\((\w+)\) REFERENCES (\w+) \((\w+)\)")
_RE_ALTER_ADD = re.compile(r"^ALTER TABLE (\w+) ADD (?:CONSTRAINT (\w+) )?FOREIGN KEY\((\w+)\) REFERENCES (\w+) \((\w+)\)$")
_RE_ALTER_DROP = re.compile(r"^ALTER TABLE (\w+) DROP CONSTRAINT (\w+)$")
_RE_DROP = re.compile(r"^DROP TABLE (\w+)$")


def simulate(stmts: List[str]) -> Tuple[Optional[str], Dict[str, Tuple[str, str]], set]:
    """A backend that enforces referenced-table existence immediately (PostgreSQL-like).
    Returns (error|None, constraints name->(from,to), tables)."""
    tables: set = set()
    cons: Dict[str, Tuple[str, str]] = {}
    for s in stmts:
        m = _RE_CREATE.match(s)
        if m:
            t = m.group(1)
            if t in tables:
                return "table %s created twice" % t, cons, tables
            for c in _RE_INLINE_FK.finditer(m.group(2)):
                name, colname, ref, _ = c.groups()
                name = name or "unnamed_%s_%s" % (t, colname)
                if ref != t and ref not in tables:
                    return "CREATE TABLE %s references %s which does not exist yet" % (t, ref), cons, tables
                if name in cons:
                    return "constraint %s defined twice" % name, cons, tables
                cons[name] = (t, ref)
            tables.add(t)
            continue
        m = _RE_ALTER_ADD.match(s)
        if m:
            t, name, colname, ref, _ = m.groups()
            name = name or "unnamed_%s_%s" % (t, colname)
            if t not in tables or ref not in tables:
                return "ALTER TABLE %s ADD CONSTRAINT %s: table missing" % (t, name), cons, tables
            if name in cons:
                return "constraint %s defined twice" % name, cons, tables
            cons[name] = (t, ref)
            continue
        m = _RE_ALTER_DROP.match(s)
        if m:
            t, name = m.groups()
            if name not in cons or cons[name][0] != t:
                return "ALTER TABLE %s DROP CONSTRAINT %s: no such constraint" % (t, name), cons, tables
            del cons[name]
            continue
        m = _RE_DROP.match(s)
        if m:
            t = m.group(1)
            if t not in tables:
                return "DROP TABLE %s: no such table" % t, cons, tables
            for name, (frm, to) in cons.items():
                if to == t and frm != t:
                    return "DROP TABLE %s while constraint %s of %s still references it" % (t, name, frm), cons, tables
            tables.discard(t)
            for name in [n for n, (frm, to) in cons.items() if frm == t]:
                del cons[name]
            continue
        return "unrecognised DDL: " + s, cons, tables
    return None, cons, tables


def _has_cycle_without_alter(n, mat) -> bool:
    """A cycle (other than self loops) made only of non-use_alter FKs."""
    adj = {i: {j for j in range(n) if j != i and KINDS[mat[i][j]] == "fk"} for i in range(n)}

    def reach(a, b, seen):
        for x in adj[a]:
            if x == b:
                return True
            if x not in seen:
                seen.add(x)
                if reach(x, b, seen):
                    return True
        return False

    return any(reach(i, i, set()) for i in range(n))


def _check(n: int, nk: int, code: int) -> bool:
    mat = decode(n, nk, code)
    md, tables = build_metadata(n, mat)
    expected = {"fk_%d_%d" % (i, j): ("t%d" % i, "t%d" % j) for i in range(n) for j in range(n) if mat[i][j]}
    # create_all: must succeed on an immediately-checking backend and define every FK exactly once
    create = capture(md, "create")
    err, cons, tabs = simulate(create)
    if err is not None:
        raise AssertionError("create_all: " + err + " :: " + " ; ".join(create))
    if tabs != {"t%d" % i for i in range(n)}:
        raise AssertionError("create_all did not create every table: %s" % sorted(tabs))
    if cons != expected:
        raise AssertionError("create_all constraints %s != expected %s" % (sorted(cons), sorted(expected)))
    # use_alter FKs must not be rendered inline
    for s in create:
        m = _RE_CREATE.match(s)
        if m:
            for c in _RE_INLINE_FK.finditer(m.group(2)):
                i, j = [int(x) for x in c.group(1).split("_")[1:]]
                if KINDS[mat[i][j]] == "use_alter":
                    raise AssertionError("use_alter constraint %s rendered inline" % c.group(1))
    # drop_all on the database create_all produced
    drop = capture(md, "drop")
    err, cons2, tabs2 = simulate(create + drop)
    if err is not None:
        raise AssertionError("drop_all: " + err + " :: " + " ; ".join(drop))
    if tabs2 or cons2:
        raise AssertionError("drop_all left %s %s" % (sorted(tabs2), sorted(cons2)))
    # sorted_tables: referenced before referencing for every acyclic dependency
    with warnings.catch_warnings():
        warnings.simplefilter("ignore")
        st = [t.name for t in md.sorted_tables]
    if sorted(st) != sorted("t%d" % i for i in range(n)):
        raise AssertionError("sorted_tables is not a permutation: %s" % st)
    if not _has_cycle_without_alter(n, mat):
        pos = {name: k for k, name in enumerate(st)}
        for i in range(n):
            for j in range(n):
                if i != j and KINDS[mat[i][j]] == "fk" and not pos["t%d" % j] < pos["t%d" % i]:
                    raise AssertionError("sorted_tables %s lists t%d before the table t%d it references" % (st, i, j))
    return True


def _cycle_in(n, edges) -> bool:
    adj = {i: {j for (a, j) in edges if a == i and j != i} for i in range(n)}

    def reach(a, b, seen):
        for x in adj[a]:
            if x == b:
                return True
            if x not in seen:
                seen.add(x)
                if reach(x, b, seen):
                    return True
        return False

    return any(reach(i, i, set()) for i in range(n))


def _check_unnamed(n: int, code: int) -> bool:
    """Named and unnamed foreign keys: create_all always works (ALTER .. ADD needs no name); drop_all works
    unless some cycle consists of unnamed constraints only, in which case the documented
    CircularDependencyError is the only acceptable outcome."""
    import sqlalchemy.exc as saexc

    mat = decode(n, 3, code)
    md, tables = build_metadata(n, mat, KINDS_U)
    expected = {}
    for i in range(n):
        for j in range(n):
            if KINDS_U[mat[i][j]] == "fk":
                expected["fk_%d_%d" % (i, j)] = ("t%d" % i, "t%d" % j)
            elif KINDS_U[mat[i][j]] == "fk_unnamed":
                expected["unnamed_t%d_r%d" % (i, j)] = ("t%d" % i, "t%d" % j)
    create = capture(md, "create")
    err, cons, tabs = simulate(create)
    if err is not None:
        raise AssertionError("create_all: " + err + " :: " + " ; ".join(create))
    if tabs != {"t%d" % i for i in range(n)} or cons != expected:
        raise AssertionError("create_all constraints %s != expected %s" % (sorted(cons), sorted(expected)))
    unnamed_edges = [(i, j) for i in range(n) for j in range(n) if KINDS_U[mat[i][j]] == "fk_unnamed"]
    must_fail = _cycle_in(n, unnamed_edges)
    try:
        drop = capture(md, "drop")
    except saexc.CircularDependencyError:
        if must_fail:
            return True
        raise AssertionError("drop_all: CircularDependencyError although every cycle contains a named constraint")
    except Exception as e:  # noqa: BLE001
        raise AssertionError("drop_all: %s: %s" % (type(e).__name__, str(e)[:150]))
    err, cons2, tabs2 = simulate(create + drop)
    if err is not None:
        raise AssertionError("drop_all: " + err + " :: " + " ; ".join(drop))
    if tabs2 or cons2:
        raise AssertionError("drop_all left %s %s" % (sorted(tabs2), sorted(cons2)))
    return True


def h_fk_graph_unnamed(n: int, lo: int, hi: int, code: int) -> bool:
    c = lo + pick(code, hi - lo)
    return native(_check_unnamed, n, c)


def h_fk_graph(n: int, nk: int, lo: int, hi: int, code: int) -> bool:
    c = lo + pick(code, hi - lo)
    return native(_check, n, nk, c)


META = {
    "explanation": "Style (b): the solver chooses the FK graph (a mixed-radix code of the n x n matrix over {no FK, FK, FK use_alter}); the real MetaData/Table/ForeignKey objects are "
                   "built, create_all/drop_all run through create_mock_engine (real SchemaGenerator/SchemaDropper, sort_tables_and_constraints, DDL compiler for postgresql) and the captured DDL "
                   "is interpreted by a backend model that enforces referenced-table existence immediately. The ordering kernel (util.topological) is decided symbolically under C19.",
    "functions": ["sql.ddl.sort_tables_and_constraints / sort_tables", "sql.ddl.SchemaGenerator.visit_metadata / visit_table / visit_foreign_key_constraint", "sql.ddl.SchemaDropper.visit_metadata",
                  "MetaData.sorted_tables / create_all / drop_all", "ForeignKeyConstraint use_alter handling, DDLCompiler.visit_create_table / visit_add_constraint / visit_drop_constraint"],
    "bounds": {"quick": "n=2 complete over {none, fk, use_alter} (81 graphs incl. self references), n=3 complete over {none, fk} (512 graphs)",
               "thorough": "n=3 complete over {none, fk, use_alter} (19683 graphs), n=4 over {none, fk} without self references restricted to the first 4096 codes"},
    "outside": ["execution on a real PostgreSQL", "indexes, sequences, checkfirst=True", "multi-column and unnamed FK constraints", "n beyond the bound"],
    "stubs": ["backend = DDL interpreter in props/C14.py enforcing referenced-table existence at CREATE/ALTER and dependent constraints at DROP"],
    "assumptions": ["fk_graph: all FK constraints are named; fk_graph_unnamed: named and unnamed constraints mixed, drop_all may raise the documented CircularDependencyError exactly when a cycle consists of unnamed constraints only"],
}


def harnesses(tier: str) -> List[Harness]:
    sl = []
    def add(n, nk, total, step):
        for lo in range(0, total, step):
            sl.append(dict(n=n, nk=nk, lo=lo, hi=min(total, lo + step)))
    if tier == "quick":
        add(2, 3, 3 ** 4, 27)
        add(3, 2, 2 ** 9, 32)
    else:
        add(2, 3, 3 ** 4, 27)
        add(3, 3, 3 ** 9, 512)
        add(4, 2, 4096, 256)
    su = []
    def addu(n, total, step):
        for lo in range(0, total, step):
            su.append(dict(n=n, lo=lo, hi=min(total, lo + step)))
    addu(2, 3 ** 4, 27)
    if tier == "quick":
        addu(3, 3 ** 9, 3 ** 9 // 2 + 1)  # sliced below by max_paths: a prefix only
    else:
        addu(3, 3 ** 9, 512)
    hs = [Harness("fk_graph", h_fk_graph, sl, budget_s=120 if tier == "quick" else 900)]
    hs.append(Harness("fk_graph_unnamed", h_fk_graph_unnamed, [x for x in su if tier != "quick" or x["n"] == 2] +
                      ([dict(n=3, lo=k * 1640, hi=k * 1640 + 40) for k in range(12)] if tier == "quick" else []),
                      budget_s=120 if tier == "quick" else 900))
    return hs


def classify(hname, args, rep):
    exc = (rep.get("exception") or "")
    what = exc.split("::")[0][:200]
    kind = "other"
    for k in ("create_all: CREATE TABLE", "create_all: ALTER", "create_all constraints", "use_alter constraint", "drop_all: DROP TABLE", "drop_all: ALTER", "drop_all left", "sorted_tables", "CircularDependencyError", "unrecognised DDL"):
        if k in exc:
            kind = k.replace(" ", "_").replace(":", "")
            break
    if hname == "fk_graph_unnamed":
        mat = decode(args["n"], 3, args["lo"] + args["code"] if False else args["code"])
        return ("C14:unnamed:%s:n=%d" % (kind, args["n"]), "FK graph %s (kinds %s): %s" % (mat, KINDS_U, what))
    mat = decode(args["n"], args["nk"], args["code"])
    n = args["n"]
    selfref = any(mat[i][i] for i in range(n))
    cyc = _has_cycle_without_alter(n, mat)
    return ("C14:%s:n=%d:%s%s" % (kind, n, "cycle" if cyc else "acyclic", "+selfref" if selfref else ""),
            "FK graph %s (kinds %s): %s" % (mat, KINDS[:args["nk"]], what))


def run(tier: str, seed: int):
    return framework.run_symx(PID, __name__, tier, seed, harnesses(tier), classify, META)
