"""C19 Dependency sorting is a correct topological order; cycles are exactly reported (E3 pybmc)."""
from __future__ import annotations

import itertools
import json
import os
import random
import time
from typing import Any, Dict, List, Tuple

import z3

from vlib import framework, pybmc
from vlib.framework import Failure, Outcome
from vlib.pybmc import And, Eq, Ite, Not, Or

PID = "C19"
SRC = os.path.join(os.environ.get("VERIF_REPO_LIB", "/repo/lib"), "sqlalchemy/util/topological.py")


def _closure(n, E, restrict=None):
    """Transitive closure (paths of length >= 1) by Floyd-Warshall over Bools, optionally restricted to nodes in ``restrict``."""
    R = [[(And(E[i][j], restrict[i], restrict[j]) if restrict is not None else E[i][j]) for j in range(n)] for i in range(n)]
    for k in range(n):
        R = [[Or(R[i][j], And(R[i][k], R[k][j])) for j in range(n)] for i in range(n)]
    return R


def _flatten(yields):
    """[(guard, value)] slots of a generator result whose yields are sequences (or ('from', seq))."""
    slots = []
    for yg, v in yields:
        if isinstance(v, tuple) and v and v[0] == "from":
            v = v[1]
        if isinstance(v, pybmc.SymSeq):
            for k in range(v.cap):
                slots.append((And(yg, v.present(k)), v.v[k]))
        else:
            slots.append((yg, v))
    return slots


def encode(n: int, set_order: str = "asc"):
    E = [[z3.Bool("E_%d_%d" % (p, c)) for c in range(n)] for p in range(n)]
    A = [z3.Bool("A_%d" % i) for i in range(n)]
    src = pybmc.load_source(SRC)
    bounds = {"sort_as_subsets": n, "find_cycles": 2 * n + 1}
    allitems = pybmc.SymSeq(n)
    for i in range(n):
        allitems.append(A[i], i)
    out: Dict[str, Any] = {"E": E, "A": A}
    it = pybmc.Interp(src, n, set_order, bounds)
    res_sort = it.call("sort", [pybmc.Rel(n, E), allitems.copy()])
    out["sort"] = res_sort
    out["sort_oblig"] = list(it.obligations)
    it2 = pybmc.Interp(src, n, set_order, bounds)
    res_sub = it2.call("sort_as_subsets", [pybmc.Rel(n, E), allitems.copy()])
    out["subsets"] = res_sub
    out["subsets_oblig"] = list(it2.obligations)
    it3 = pybmc.Interp(src, n, set_order, bounds)
    res_fc = it3.call("find_cycles", [pybmc.Rel(n, E), allitems.copy()])
    out["find_cycles"] = res_fc
    out["fc_oblig"] = list(it3.obligations)
    return out


def obligations(n: int, group: str) -> List[Tuple[str, Any, Dict[str, Any]]]:
    """(name, formula that must be valid, context) for node-universe size n.
    group: sort | subsets | fc_asc | fc_desc"""
    obs: List[Tuple[str, Any]] = []
    order = "desc" if group == "fc_desc" else "asc"
    E = [[z3.Bool("E_%d_%d" % (p, c)) for c in range(n)] for p in range(n)]
    A = [z3.Bool("A_%d" % i) for i in range(n)]
    src = pybmc.load_source(SRC)
    bounds = {"sort_as_subsets": n, "find_cycles": 2 * n + 1}

    def allitems():
        s = pybmc.SymSeq(n)
        for i in range(n):
            s.append(A[i], i)
        return s

    def run(fn, set_order):
        it = pybmc.Interp(src, n, set_order, bounds)
        return it.call(fn, [pybmc.Rel(n, E), allitems()]), list(it.obligations)

    if group == "sort":
        rs, unw = run("sort", "asc")
        slots = _flatten(rs.yields)
        ok = Not(rs.raised)
        for i in range(n):
            occ = [pybmc.B(And(g, Eq(v, i))) for g, v in slots]
            once = z3.PbEq([(o, 1) for o in occ], 1) if occ else z3.BoolVal(False)
            never = z3.Not(z3.Or(*occ)) if occ else z3.BoolVal(True)
            obs.append(("O1 sort: item %d output exactly once iff in allitems (no error)" % i,
                        z3.Implies(pybmc.B(ok), z3.If(A[i], once, never))))
        for p in range(n):
            for c in range(n):
                if p == c:
                    continue
                before = Or(*[And(slots[s][0], Eq(slots[s][1], p), slots[t][0], Eq(slots[t][1], c))
                              for s in range(len(slots)) for t in range(s + 1, len(slots))])
                obs.append(("O2 sort: edge (%d,%d) among items => parent first" % (p, c),
                            z3.Implies(pybmc.B(And(ok, A[p], A[c], E[p][c])), pybmc.B(before))))
        R = _closure(n, E, A)
        cyc = Or(*[R[i][i] for i in range(n)])
        obs.append(("O3 sort: CircularDependencyError iff the dependencies among allitems contain a cycle", pybmc.B(rs.raised) == pybmc.B(cyc)))
        for name, f in unw:
            obs.append(("O6 " + name + " (sort)", pybmc.B(f)))
        seqs = [(vv[1] if isinstance(vv, tuple) else vv) for _, vv in rs.yields]
        ovf = Or(*[v.overflow for v in seqs if isinstance(v, pybmc.SymSeq)])
        obs.append(("O6 no list overflow beyond N slots (sort)", pybmc.B(Not(ovf))))
        # determinism w.r.t. set iteration order: the descending-order encoding yields the same sequence
        rs2, _ = run("sort", "desc")
        s2 = _flatten(rs2.yields)
        same = [pybmc.B(rs.raised) == pybmc.B(rs2.raised)]
        if len(s2) == len(slots):
            for (g1, v1), (g2, v2) in zip(slots, s2):
                same.append(pybmc.B(g1) == pybmc.B(g2))
                same.append(z3.Implies(pybmc.B(g1), pybmc.B(Eq(v1, v2))))
        else:
            same.append(z3.BoolVal(False))
        obs.append(("O5 sort: output independent of set iteration order (asc vs desc)", z3.And(*same)))
    elif group == "subsets":
        rsub, unw = run("sort_as_subsets", "asc")
        rounds = rsub.yields

        def round_of(x):
            return [Or(*[And(yg, seq.present(k), Eq(seq.v[k], x)) for k in range(seq.cap)]) for yg, seq in rounds]

        for p in range(n):
            for c in range(n):
                if p == c:
                    continue
                rp, rc = round_of(p), round_of(c)
                strictly = Or(*[And(rp[s], rc[t]) for s in range(len(rounds)) for t in range(s + 1, len(rounds))])
                obs.append(("O7 sort_as_subsets: edge (%d,%d) => parent in a strictly earlier subset" % (p, c),
                            z3.Implies(pybmc.B(And(Not(rsub.raised), A[p], A[c], E[p][c])), pybmc.B(strictly))))
        for name, f in unw:
            obs.append(("O6 " + name + " (sort_as_subsets)", pybmc.B(f)))
    elif group in ("fc_asc", "fc_desc"):
        rf, unw = run("find_cycles", order)
        Rall = _closure(n, E, None)
        if len(rf.returned) != 1:
            raise pybmc.Unsupported("find_cycles must have exactly one return")
        rg, rset = rf.returned[0]
        tag = " [set iteration %s]" % order
        obs.append(("O4 find_cycles returns (no exception)" + tag, pybmc.B(And(rg, Not(rf.raised)))))
        for i in range(n):
            obs.append(("O4 find_cycles: node %d reported iff it lies on a cycle%s" % (i, tag), pybmc.B(rset.m[i]) == pybmc.B(Rall[i][i])))
        for name, f in unw:
            obs.append(("O6 " + name + " (find_cycles)" + tag, pybmc.B(f)))
    else:
        raise ValueError(group)
    ctx = {"E": E, "A": A, "n": n}
    return [(name, f, ctx) for name, f in obs]


def discharge(n: int, group: str, timeout_s: int, part: int = 0, nparts: int = 1) -> Dict[str, Any]:
    t0 = time.time()
    obs = [o for k, o in enumerate(obligations(n, group)) if k % nparts == part]
    enc_s = time.time() - t0
    results = []
    solver_s = 0.0
    for name, f, ctx in obs:
        s = z3.Solver()
        s.set("timeout", timeout_s * 1000)
        s.add(z3.Not(f))
        t1 = time.perf_counter()
        r = s.check()
        dt = time.perf_counter() - t1
        solver_s += dt
        item = {"obligation": name, "n": n, "result": str(r), "solver_s": round(dt, 3)}
        if r == z3.sat:
            m = s.model()
            edges = [[p, c] for p in range(n) for c in range(n) if z3.is_true(m.eval(ctx["E"][p][c], model_completion=True))]
            items = [i for i in range(n) if z3.is_true(m.eval(ctx["A"][i], model_completion=True))]
            item["counterexample"] = {"tuples": edges, "allitems": items}
        results.append(item)
    return {"n": n, "group": group, "encode_s": round(enc_s, 2), "solver_s": round(solver_s, 2), "results": results}


# ------------------------------------------------------------------------------------------------
# concrete oracle for replay and translator validation


class _Watchdog(Exception):
    pass


def _guarded(fn, secs=5):
    """Run fn() under SIGALRM; returns ('ok', value) | ('exc', name) | ('timeout', None)."""
    import signal

    def _on_alarm(signum, frame):
        raise _Watchdog()

    old = signal.signal(signal.SIGALRM, _on_alarm)
    signal.alarm(secs)
    try:
        return ("ok", fn())
    except _Watchdog:
        return ("timeout", None)
    except MemoryError:
        return ("timeout", None)
    except Exception as e:  # noqa: BLE001
        return ("exc", type(e).__name__)
    finally:
        signal.alarm(0)
        signal.signal(signal.SIGALRM, old)


def concrete_check(tuples: List[List[int]], allitems: List[int], timeout_s: int = 15) -> Dict[str, Any]:
    """Run the real functions (under a watchdog: non-termination is a failure) and compare with a
    direct reference; returns {'holds': bool, ...}."""
    kind, val = _guarded(lambda: _concrete_check(tuples, allitems), timeout_s)
    if kind == "ok":
        return val
    if kind == "timeout":
        return {"holds": False, "problems": ["non-termination: no result within %d s" % timeout_s]}
    return {"holds": False, "problems": ["unexpected exception " + str(val)]}


def _concrete_check(tuples: List[List[int]], allitems: List[int]) -> Dict[str, Any]:
    from sqlalchemy.util import topological
    from sqlalchemy.exc import CircularDependencyError

    tl = [tuple(t) for t in tuples]
    items = list(allitems)
    iset = set(items)
    nodes = sorted(set(items) | {x for t in tl for x in t})
    # reference reachability
    adj = {v: set() for v in nodes}
    for p, c in tl:
        adj[p].add(c)

    def reach(src, allowed):
        seen, stack = set(), [src]
        while stack:
            u = stack.pop()
            for w in adj[u]:
                if w in allowed and w not in seen:
                    seen.add(w)
                    stack.append(w)
        return seen

    on_cycle_all = {v for v in nodes if v in reach(v, set(nodes))}
    cyc_items = any((v in reach(v, iset)) for v in items if True) if items else False
    cyc_items = any(v in {w for w in reach(v, iset)} for v in items)
    problems = []
    try:
        out = list(topological.sort(tl, items))
        raised = False
    except CircularDependencyError:
        out, raised = None, True
    if raised != cyc_items:
        problems.append("sort raised=%s but cycle among items=%s" % (raised, cyc_items))
    if not raised:
        if sorted(out) != sorted(items):
            problems.append("sort output %s is not a permutation of %s" % (out, items))
        else:
            pos = {v: i for i, v in enumerate(out)}
            for p, c in tl:
                if p in iset and c in iset and p != c and pos[p] > pos[c]:
                    problems.append("edge (%s,%s) violated in %s" % (p, c, out))
    try:
        subs = [list(s) for s in topological.sort_as_subsets(tl, items)]
        rnd = {v: i for i, s in enumerate(subs) for v in s}
        for p, c in tl:
            if p in iset and c in iset and p != c and not rnd[p] < rnd[c]:
                problems.append("sort_as_subsets: edge (%s,%s) not in strictly earlier subset: %s" % (p, c, subs))
    except CircularDependencyError:
        if not cyc_items:
            problems.append("sort_as_subsets raised without a cycle")
    # determinism: the same graph over items whose *hash order* is reversed must sort identically
    class _It:
        __slots__ = ("label", "h")

        def __init__(self, label, h):
            self.label, self.h = label, h

        def __hash__(self):
            return self.h

    def labelled(hfn):
        objs = {v: _It(v, hfn(v)) for v in nodes}
        try:
            return [o.label for o in topological.sort([(objs[p], objs[c]) for p, c in tl], [objs[i] for i in items])]
        except CircularDependencyError:
            return "raised"

    top = (max(nodes) if nodes else 0)
    o_asc, o_desc = labelled(lambda v: v), labelled(lambda v: top - v)
    if o_asc != o_desc:
        problems.append("sort order depends on set/hash iteration order: %s vs %s" % (o_asc, o_desc))
    fc = topological.find_cycles(tl, items)
    if set(fc) != on_cycle_all:
        problems.append("find_cycles=%s expected %s" % (sorted(fc), sorted(on_cycle_all)))
    return {"holds": not problems, "problems": problems}


def validate_encoding(n: int, count: int, seed: int) -> Dict[str, Any]:
    """Serval-style translator validation: concrete graphs through the real functions and the encoding."""
    from sqlalchemy.util import topological
    from sqlalchemy.exc import CircularDependencyError

    rnd = random.Random(seed)
    enc = encode(n, "asc")
    E, A = enc["E"], enc["A"]
    slots = _flatten(enc["sort"].yields)
    rset = enc["find_cycles"].returned[0][1]
    bad = []
    graphs = []
    # the graphs of test/base/test_dependency.py shapes: chains, diamonds, cycles
    fixed = [([(0, 1), (1, 2)], [0, 1, 2]), ([(0, 1), (0, 2), (1, 3), (2, 3)], [0, 1, 2, 3]), ([(0, 1), (1, 0)], [0, 1]),
             ([(0, 0)], [0]), ([(0, 1), (1, 2), (2, 0), (2, 3)], [0, 1, 2, 3]), ([], [0, 1, 2]), ([(3, 1)], [1, 2])]
    for t, a in fixed:
        if all(x < n for e in t for x in e) and all(x < n for x in a):
            graphs.append((t, a))
    while len(graphs) < count:
        dens = rnd.choice([0.1, 0.2, 0.35, 0.5])
        t = [(p, c) for p in range(n) for c in range(n) if rnd.random() < dens]
        a = [i for i in range(n) if rnd.random() < 0.85]
        graphs.append((t, a))
    for t, a in graphs:
        sub = [(E[p][c], z3.BoolVal((p, c) in set(t))) for p in range(n) for c in range(n)] + [(A[i], z3.BoolVal(i in a)) for i in range(n)]
        def ev(x):
            if isinstance(x, (bool, int)):
                return x
            r = z3.simplify(z3.substitute(x, *sub))
            if z3.is_true(r):
                return True
            if z3.is_false(r):
                return False
            return r.as_long()
        enc_raised = ev(enc["sort"].raised)
        enc_out = [ev(v) for g, v in slots if ev(g)]
        enc_fc = sorted(i for i in range(n) if ev(rset.m[i]))
        k1, v1 = _guarded(lambda: list(topological.sort(t, a)))
        k2, v2 = _guarded(lambda: sorted(topological.find_cycles(t, a)))
        if k1 == "timeout" or k2 == "timeout":
            # the real function does not terminate on this input: not an encoding mismatch; the
            # unwinding assertion of the encoding reports it (and the replay confirms with its watchdog)
            continue
        real_raised = k1 == "exc"
        real_out = v1 if k1 == "ok" else None
        real_fc = v2 if k2 == "ok" else None
        if real_raised != enc_raised or (not real_raised and real_out != enc_out) or real_fc != enc_fc:
            bad.append({"tuples": t, "allitems": a, "real": [real_raised, real_out, real_fc], "encoding": [enc_raised, enc_out, enc_fc]})
    return {"graphs": len(graphs), "mismatches": bad[:5], "n": n}


# ------------------------------------------------------------------------------------------------


def jobs(tier: str):
    js = []
    for group, sizes in SIZES[tier].items():
        for n in sizes:
            nparts = 8 if (group == "sort" and n >= 7) else 4 if (n >= 6 or (group.startswith("fc") and n >= 5)) else 1
            for part in range(nparts):
                js.append(("discharge", n, group, part, nparts))
    js.append(("validate", 5, "", 0, 1))
    # biggest first
    js.sort(key=lambda j: (-j[1], j[2], j[3]))
    return js


def chunk(tier: str, i: int, nchunks: int) -> Dict[str, Any]:
    out = {"runs": [], "validation": None, "error": None}
    for j, (kind, n, group, part, nparts) in enumerate(jobs(tier)):
        if j % nchunks != i:
            continue
        if kind == "discharge":
            out["runs"].append(discharge(n, group, TIMEOUT[tier], part, nparts))
        else:
            out["validation"] = validate_encoding(n, 150 if tier == "quick" else 500, 1)
    return out


SIZES = {
    "quick": {"sort": [1, 2, 3, 4, 5], "subsets": [1, 2, 3, 4, 5], "fc_asc": [1, 2, 3, 4], "fc_desc": [1, 2, 3, 4]},
    "thorough": {"sort": [1, 2, 3, 4, 5, 6], "subsets": [1, 2, 3, 4, 5, 6, 7], "fc_asc": [1, 2, 3, 4, 5], "fc_desc": [1, 2, 3, 4, 5]},
}
TIMEOUT = {"quick": 300, "thorough": 900}  # per query; quick queries take < 5 s on an idle core, the margin is for oversubscribed machines


def run(tier: str, seed: int) -> Outcome:
    out = Outcome(PID, level="model_checking")
    try:
        parts = framework.run_chunks(__name__, "chunk", tier, nchunks=min(framework.NCPU, len(jobs(tier))))
    except Exception as e:  # noqa: BLE001
        out.inconclusive.append("engine error: %r" % (e,))
        parts = []
    runs, validation = [], None
    for p in parts:
        if p.get("error"):
            out.inconclusive.append("chunk failed (unsupported construct or engine error): " + str(p["error"])[-1200:])
            continue
        runs.extend(p["runs"])
        if p.get("validation"):
            validation = p["validation"]
    nob = ndis = 0
    solver_s = 0.0
    samples = []
    seen_keys = set()
    confirmed_okeys = set()
    for r in sorted(runs, key=lambda r: r["n"]):
        solver_s += r["solver_s"]
        for item in r["results"]:
            nob += 1
            if item["result"] == "unsat":
                ndis += 1
                if len(samples) < 8 and item["n"] >= 3 and nob % 7 == 0:
                    samples.append({"obligation": item["obligation"], "N": item["n"], "result": "unsat (valid for all 2^%d graphs x 2^%d item subsets)" % (item["n"] ** 2, item["n"])})
            elif item["result"] == "sat":
                cx = item["counterexample"]
                okey0 = item["obligation"].split(":")[0].split(" ")[0]
                if okey0 in confirmed_okeys:
                    continue  # this obligation class already has a reproduced counterexample
                rep = concrete_check(cx["tuples"], cx["allitems"])
                if not rep["holds"]:
                    confirmed_okeys.add(okey0)
                rec = {"property": PID, "engine": "pybmc", "module": __name__, "tuples": cx["tuples"], "allitems": cx["allitems"],
                       "obligation": item["obligation"], "n": item["n"], "observed": rep}
                if rep["holds"]:
                    out.artifacts.append(rec)
                    continue
                okey = item["obligation"].split(":")[0].split(" ")[0]
                key = "C19:%s:%s" % (okey, "; ".join(p.split(" ")[0] for p in rep["problems"])[:80])
                if key in seen_keys:
                    continue
                seen_keys.add(key)
                out.failures.append(Failure(PID, key, "%s fails for tuples=%s allitems=%s: %s" % (item["obligation"], cx["tuples"], cx["allitems"], rep["problems"][:2]), rec))
            else:
                out.inconclusive.append("solver %s on %s (N=%d)" % (item["result"], item["obligation"], item["n"]))
    if validation is None:
        out.inconclusive.append("translator validation did not run")
    elif validation["mismatches"]:
        out.inconclusive.append("ENCODING MISMATCH (translator validation): %s" % json.dumps(validation["mismatches"][:2]))
    if out.artifacts:
        out.inconclusive.append("%d solver counterexample(s) did not reproduce on the real functions (encoding error)" % len(out.artifacts))
    maxn = max([r["n"] for r in runs], default=0)
    out.coverage = {
        "explanation": "util/topological.py (sort, sort_as_subsets, find_cycles) is interpreted from its current AST over symbolic graphs "
                       "(N^2 edge Bools + N item-presence Bools) with merged control flow; each obligation is one z3 validity query "
                       "covering all 2^(N^2+N) inputs of that size; while-loops are unrolled to code-derived bounds with unwinding assertions.",
        "states": sum(2 ** (n ** 2 + n) for n in sorted({r["n"] for r in runs})) or 1,
        "transitions": nob or 1,
        "traces_validated_against_impl": (validation or {}).get("graphs", 0),
        "obligations": nob,
        "discharged": ndis,
        "solver_queries": nob,
        "solver_time_s": round(solver_s, 2),
        "encode_time_s": round(sum(r["encode_s"] for r in runs), 2),
        "bounds": {"node universe N per obligation group": SIZES[tier], "sort_as_subsets while": "N iterations + unwinding assertion", "find_cycles inner while": "2N+1 iterations + unwinding assertion",
                   "lists": "N slots + overflow assertion"},
        "outside_bounds": ["N > %d" % maxn, "set iteration orders other than ascending/descending", "non-hashable or equal-but-distinct items", "arguments of the raise statement (find_cycles/_gen_edges are called there; find_cycles is verified separately)"],
        "functions_encoded": ["util.topological.sort", "util.topological.sort_as_subsets", "util.topological.find_cycles"],
        "samples": samples or [{"note": "no obligation sampled"}],
        "translator_validation": validation,
        "exhaustive": nob == ndis and not out.inconclusive,
        "verdict": "all obligations valid within bounds" if nob == ndis and not out.inconclusive else "see violations / inconclusive",
        "trusted_base": ["vlib/pybmc.py interpreter (validated against the real functions on %d concrete graphs)" % (validation or {}).get("graphs", 0), "z3", "reference reachability in props/C19.py"],
    }
    out.assumptions = ["items are distinct hashable values (nodes 0..N-1 up to renaming)", "set iteration order is ascending or descending"]
    return out


def replay(rec) -> Dict[str, Any]:
    return concrete_check(rec["tuples"], rec["allitems"])
