"""C43 ORM evaluator (synchronize_session='evaluate') vs SQL semantics (E1 symx).

A corpus of WHERE-criteria shapes is built and compiled CONCRETELY with the real
``sqlalchemy.orm.evaluator._EvaluatorCompiler`` (shapes it declines with ``UnevaluatableError`` are allowed
by the property and only counted).  Under the tracer the resulting closure runs on an instance whose column
attributes are SYMBOLIC (``Optional[int]`` / ``Optional[str]``) and its verdict "this in-session object is
matched by the UPDATE" (``result is True``) is compared with a reference SQL semantics (three-valued logic,
NULL propagation, SQLite arithmetic) -- for the criteria and for NOT(criteria), which together are the
comparison of the three-valued result.  In concrete mode (replay) the very same harness inserts the row into
an in-memory SQLite database, runs the real ``session.execute(update(A).where(crit)..., synchronize_session=
'evaluate')`` and compares the in-session object with the row: only an end-to-end disagreement counts.
"""
from __future__ import annotations

import functools
import sys
from typing import List, Optional

from vlib import framework
from vlib.framework import Harness
from vlib.symx import assume

from sqlalchemy import Column, Integer, String, and_, create_engine, insert, literal, not_, or_, select, update
from sqlalchemy.orm import Session, registry
from sqlalchemy.orm.evaluator import UnevaluatableError, _EvaluatorCompiler
from sqlalchemy.pool import StaticPool

PID = "C43"

_reg = registry()


@_reg.mapped
class A:
    __tablename__ = "c43_a"
    id = Column(Integer, primary_key=True)
    x = Column(Integer)
    y = Column(Integer)
    s = Column(String)
    m = Column(Integer)  # marker column, never used in criteria: NULL + 1000 is NULL, so x alone cannot show a match


_reg.configure()
T = A.__table__


def _tracing():
    m = sys.modules.get("crosshair.tracers")
    return bool(m is not None and m.is_tracing())


def _native(fn, *args):
    """Run ``fn`` with the tracer paused (arguments are plain Python values; nothing is deep-copied)."""
    if not _tracing():
        return fn(*args)
    from crosshair.tracers import NoTracing

    with NoTracing():
        return fn(*args)


# CrossHair models ``weakref.ref.__call__`` as ``gc.collect(); r()``; freezing the import-time heap keeps those
# collections cheap (engine cost only, no semantic effect; see props/C38.py).
import gc as _gc  # noqa: E402

_gc.collect()
_gc.freeze()
_GC_N = [0]


def _gc_mark():
    _GC_N[0] += 1
    if _GC_N[0] % 64 == 0:
        _gc.unfreeze()
    _gc.collect()
    _gc.freeze()


def pin_code(code, lo, hi):
    """Concrete value of the symbolic int ``code`` in [lo, hi): binary search over solver-decided comparisons."""
    assume((lo <= code) & (code < hi))
    hi -= 1
    while lo < hi:
        mid = (lo + hi) // 2
        if code <= mid:
            hi = mid
        else:
            lo = mid + 1
    return lo


# ------------------------------------------------------------------------------------------
# shapes: nested tuples (JSON-able, hashable)
#   ("col", "x"|"y"|"s")  ("int", c)  ("str", c)
#   ("bin", add|sub|mul|mod|div|concat, a, b)
#   ("cmp", eq|ne|lt|le|gt|ge, a, b)
#   ("in", a, (c, ...))  ("notin", a, (c, ...))        c: constant or None (= NULL)
#   ("isnull", a)  ("notnull", a)                       a: any expression or predicate
#   ("like", startswith|endswith|contains, a, const, autoescape)
#   ("and", (p, ...))  ("or", (p, ...))  ("not", p)

X, Y, S = ("col", "x"), ("col", "y"), ("col", "s")
COLS = {"x": A.x, "y": A.y, "s": A.s}
CMPS = ["eq", "ne", "lt", "le", "gt", "ge"]
ARITH = ["add", "sub", "mul", "mod", "div"]


def I(c):
    return ("int", c)


def STR(c):
    return ("str", c)


def cmp_(op, a, b):
    return ("cmp", op, a, b)


def bin_(op, a, b):
    return ("bin", op, a, b)


def to_sa(n):
    """The SQLAlchemy expression of a shape (constructed through the public operators)."""
    t = n[0]
    if t == "col":
        return COLS[n[1]]
    if t in ("int", "str"):
        return literal(n[1])
    if t == "bin":
        a, b = to_sa(n[2]), to_sa(n[3])
        op = n[1]
        if op == "add":
            return a + b
        if op == "sub":
            return a - b
        if op == "mul":
            return a * b
        if op == "mod":
            return a % b
        if op == "div":
            return a / b
        if op == "concat":
            return a.concat(b)
    if t == "cmp":
        a, b = to_sa(n[2]), to_sa(n[3])
        op = n[1]
        if op == "eq":
            return a == b
        if op == "ne":
            return a != b
        if op == "lt":
            return a < b
        if op == "le":
            return a <= b
        if op == "gt":
            return a > b
        if op == "ge":
            return a >= b
    if t == "in":
        return to_sa(n[1]).in_(list(n[2]))
    if t == "notin":
        return to_sa(n[1]).not_in(list(n[2]))
    if t == "isnull":
        return to_sa(n[1]).is_(None)
    if t == "notnull":
        return to_sa(n[1]).is_not(None)
    if t == "like":
        a = to_sa(n[2])
        return getattr(a, n[1])(n[3], autoescape=n[4])
    if t == "and":
        return and_(*[to_sa(c) for c in n[1]])
    if t == "or":
        return or_(*[to_sa(c) for c in n[1]])
    if t == "not":
        return not_(to_sa(n[1]))
    raise AssertionError(n)


def children(n):
    t = n[0]
    if t in ("bin", "cmp"):
        return [n[2], n[3]]
    if t in ("in", "notin", "isnull", "notnull", "not"):
        return [n[1]]
    if t == "like":
        return [n[2]]
    if t in ("and", "or"):
        return list(n[1])
    return []


def uses(n):
    if n[0] == "col":
        return {n[1]}
    out = set()
    for c in children(n):
        out |= uses(c)
    return out


def has_div(n):
    """CrossHair's symbolic true division (and comparing its float result with a symbolic int) makes z3 answer
    unknown: for shapes containing `/` the harness lets the solver pick the integer columns value by value
    (the arithmetic is then concrete)"""
    if n[0] == "bin" and n[1] == "div":
        return True
    return any(has_div(c) for c in children(n))


def show(n):
    t = n[0]
    if t == "col":
        return n[1]
    if t in ("int", "str"):
        return repr(n[1])
    if t == "bin":
        return "(%s %s %s)" % (show(n[2]), {"add": "+", "sub": "-", "mul": "*", "mod": "%", "div": "/", "concat": "||"}[n[1]], show(n[3]))
    if t == "cmp":
        return "%s %s %s" % (show(n[2]), {"eq": "==", "ne": "!=", "lt": "<", "le": "<=", "gt": ">", "ge": ">="}[n[1]], show(n[3]))
    if t in ("in", "notin"):
        return "%s.%s(%s)" % (show(n[1]), "in_" if t == "in" else "not_in", list(n[2]))
    if t in ("isnull", "notnull"):
        return "(%s).%s(None)" % (show(n[1]), "is_" if t == "isnull" else "is_not")
    if t == "like":
        return "%s.%s(%r%s)" % (show(n[2]), n[1], n[3], ", autoescape=True" if n[4] else "")
    if t in ("and", "or"):
        return "%s_(%s)" % (t, ", ".join(show(c) for c in n[1]))
    if t == "not":
        return "not_(%s)" % show(n[1])
    raise AssertionError(n)


# ------------------------------------------------------------------------------------------
# reference semantics: SQL three-valued logic with SQLite's arithmetic.  NULL is None, truth values are
# True / False / None.  Written to run on CrossHair symbolic values as well as on plain ones.

ANY1, ANYN = ("any1",), ("anyN",)


def _like_tokens(kind, const, autoescape):
    lits = []
    for ch in const:
        if not autoescape and ch == "%":
            lits.append(ANYN)
        elif not autoescape and ch == "_":
            lits.append(ANY1)
        else:
            lits.append(ch)
    if kind == "startswith":
        return lits + [ANYN]
    if kind == "endswith":
        return [ANYN] + lits
    return [ANYN] + lits + [ANYN]


def _like_at(toks, ti, s, si, n):
    if ti == len(toks):
        return si == n
    t = toks[ti]
    if t is ANYN:
        if ti == len(toks) - 1:
            return True
        k = si
        while True:
            if _like_at(toks, ti + 1, s, k, n):
                return True
            if k >= n:
                return False
            k += 1
    if si >= n:
        return False
    if t is ANY1 or s[si] == t:
        return _like_at(toks, ti + 1, s, si + 1, n)
    return False


def sql_mod(a, b):
    """SQLite ``%`` on integers: remainder of the division truncated towards zero (sign of the dividend);
    NULL for a zero divisor."""
    if b == 0:
        return None
    r = abs(a) % abs(b)
    return r if a >= 0 else -r


def ref(n, env):
    t = n[0]
    if t == "col":
        return env[n[1]]
    if t in ("int", "str"):
        return n[1]
    if t == "bin":
        a = ref(n[2], env)
        b = ref(n[3], env)
        if a is None or b is None:
            return None
        op = n[1]
        if op == "add":
            return a + b
        if op == "sub":
            return a - b
        if op == "mul":
            return a * b
        if op == "mod":
            return sql_mod(a, b)
        if op == "div":
            # Integer / Integer is true division in SQLAlchemy 2 (SQLite: ``a / (b + 0.0)``); x / 0.0 is NULL
            if b == 0:
                return None
            return a / b
        if op == "concat":
            return a + b
    if t == "cmp":
        a = ref(n[2], env)
        b = ref(n[3], env)
        if a is None or b is None:
            return None
        op = n[1]
        if op == "eq":
            return bool(a == b)
        if op == "ne":
            return bool(a != b)
        if op == "lt":
            return bool(a < b)
        if op == "le":
            return bool(a <= b)
        if op == "gt":
            return bool(a > b)
        return bool(a >= b)
    if t in ("in", "notin"):
        a = ref(n[1], env)
        lst = n[2]
        if len(lst) == 0:
            r = False  # IN (empty set) is false, also for a NULL left-hand side
        elif a is None:
            r = None
        else:
            r = False
            for c in lst:
                if c is not None and a == c:
                    r = True
            if r is False and None in lst:
                r = None
        if t == "in" or r is None:
            return r
        return not r
    if t in ("isnull", "notnull"):
        a = ref(n[1], env)
        return (a is None) if t == "isnull" else (a is not None)
    if t == "like":
        a = ref(n[2], env)
        if a is None:
            return None
        return bool(_like_at(_like_tokens(n[1], n[3], n[4]), 0, a, 0, len(a)))
    if t == "and":
        vals = [ref(c, env) for c in n[1]]
        r = True
        for v in vals:
            if v is None:
                if r is True:
                    r = None
            elif not v:
                r = False
        return r
    if t == "or":
        vals = [ref(c, env) for c in n[1]]
        r = False
        for v in vals:
            if v is None:
                if r is False:
                    r = None
            elif v:
                r = True
        return r
    if t == "not":
        v = ref(n[1], env)
        return None if v is None else (not v)
    raise AssertionError(n)


# ------------------------------------------------------------------------------------------
# corpus

def _atoms_int(full):
    pairs = [(X, Y)] + [(X, I(c)) for c in (0, 1, -1)]
    if full:
        pairs += [(Y, I(2)), (Y, X), (X, X)]
    return [cmp_(op, a, b) for op in CMPS for a, b in pairs]


def _arith_terms(op, full):
    ts = [bin_(op, X, Y), bin_(op, X, I(2)), bin_(op, X, I(-2)), bin_(op, I(3), X)]
    if full:
        ts += [bin_(op, X, I(0)), bin_(op, I(-3), X), bin_(op, Y, X), bin_(op, X, I(3)), bin_(op, I(0), Y), bin_(op, X, X)]
    return ts


def _atoms_arith(op, full):
    cmps = ["eq", "ne", "lt", "ge"] if full else ["eq", "lt"]
    rhs = [I(0), I(1), I(-1), Y] if full else [I(1), Y]
    return [cmp_(c, t, r) for t in _arith_terms(op, full) for c in cmps for r in rhs]


def _atoms_in(full):
    ilists = [(), (1,), (0, 2), (None,), (1, None), (0, -1, None)]
    slists = [(), ("a",), ("a", None), ("", "ab")]
    out = []
    for k in ("in", "notin"):
        out += [(k, X, l) for l in ilists]
        out += [(k, S, l) for l in slists]
        out += [(k, bin_("add", X, Y), (1, None))]
        if full:
            out += [(k, bin_("mod", X, I(2)), (1, None)), (k, bin_("concat", S, STR("a")), ("ba", None)), (k, Y, (None, 0))]
    return out


def _atoms_null(full):
    subj = [X, S, bin_("add", X, Y), bin_("mod", X, Y), bin_("div", X, Y), bin_("concat", S, STR("a")),
            cmp_("gt", X, I(0)), cmp_("eq", X, Y), cmp_("eq", S, STR("a")), ("in", X, (1, None)), ("notin", X, (1, None))]
    if full:
        subj += [("like", "startswith", S, "a", False), bin_("mul", X, I(0)), ("in", S, ("a", None)), ("in", X, ())]
    return [(k, a) for k in ("isnull", "notnull") for a in subj]


def _atoms_str(full):
    pairs = [(S, STR("a")), (S, STR("ab")), (S, STR("")), (bin_("concat", S, STR("a")), STR("ba")),
             (bin_("concat", STR("b"), S), STR("ba"))]
    if full:
        pairs += [(S, STR("b%")), (bin_("concat", S, S), STR("aa")), (S, bin_("concat", S, STR("")))]
    out = [cmp_(op, a, b) for op in CMPS for a, b in pairs]
    consts = ["a", "ab", "", "%", "a%", "_", "a_"]
    if full:
        consts += ["b", "%a", "_b", "/", "a/"]
    for kind in ("startswith", "endswith", "contains"):
        for c in consts:
            out.append(("like", kind, S, c, False))
            if "%" in c or "_" in c or "/" in c:
                out.append(("like", kind, S, c, True))
        out.append(("like", kind, bin_("concat", S, STR("a")), "a", False))
    return out


def _small(full):
    sm = [cmp_("gt", X, I(0)), cmp_("gt", Y, I(0)), cmp_("eq", X, Y), ("in", X, (1, None)), ("notin", X, (1, None)),
          ("isnull", X), cmp_("eq", S, STR("a")), cmp_("eq", bin_("mod", X, I(2)), I(1))]
    if full:
        sm += [("like", "startswith", S, "a", False), cmp_("ge", bin_("div", X, Y), I(1)), cmp_("ne", Y, I(0)),
               ("notnull", Y), ("in", S, ("a", None)), cmp_("lt", bin_("sub", X, Y), I(0))]
    return sm


def _families(tier):
    q = tier == "quick"
    full = not q
    fam = {}
    fam["atoms_int"] = _atoms_int(full)
    for op in ARITH:
        fam["atoms_" + op] = _atoms_arith(op, full)
    fam["atoms_in"] = _atoms_in(full)
    fam["atoms_null"] = _atoms_null(full)
    fam["atoms_str"] = _atoms_str(full)
    sm = _small(full)
    # (a `/` atom next to a string atom is left out: value-by-value integers times the string paths, ~1 CPU-minute a shape)
    pairs = [(a, b) for a in sm for b in sm if not ((has_div(a) or has_div(b)) and "s" in uses(a) | uses(b))]
    fam["and2"] = [("and", (a, b)) for a, b in pairs]
    fam["or2"] = [("or", (a, b)) for a, b in pairs]
    core = sm[:5] if q else sm[:8]
    fam["null_of_and2"] = [(k, (c, (a, b))) for k in ("isnull", "notnull") for c in ("and", "or") for a in core for b in core]
    if not q:
        c3 = sm[:6]
        fam["and3"] = [("and", (a, b, c)) for a in c3 for b in c3 for c in c3]
        fam["or3"] = [("or", (a, b, c)) for a in c3 for b in c3 for c in c3]
        fam["and_or"] = [("and", (("or", (a, b)), c)) for a in c3 for b in c3 for c in c3]
        fam["or_and"] = [("or", (("and", (a, b)), c)) for a in c3 for b in c3 for c in c3]
        fam["and_not"] = [("and", (("not", ("and", (a, b))), c)) for a in core for b in core for c in core[:4]]
        fam["or_not"] = [("or", (("not", ("or", (a, b))), c)) for a in core for b in core for c in core[:4]]
    return fam


DECLINED = {}


@functools.lru_cache(maxsize=None)
def _family(tier, name):
    """[(shape, closure for shape, closure for NOT shape)] of the evaluable shapes of a family; shapes the
    evaluator declines at compile time (UnevaluatableError) are counted in DECLINED."""
    out = []
    declined = []
    for shape in _families(tier)[name]:
        pair = []
        for neg in (False, True):
            n = ("not", shape) if neg else shape
            try:
                pair.append(_EvaluatorCompiler(A).process(to_sa(n)))
            except UnevaluatableError:
                pair.append(None)
        if pair[0] is None and pair[1] is None:
            declined.append(shape)
        else:
            out.append((shape, pair[0], pair[1]))
    DECLINED[(tier, name)] = declined
    return out


@functools.lru_cache(maxsize=None)
def _sub_closure(n):
    try:
        return _EvaluatorCompiler(A).process(to_sa(n))
    except UnevaluatableError:
        return None


# ------------------------------------------------------------------------------------------
# harness

def _mk_obj():
    _gc_mark()
    return A()


def _norm3(v):
    """evaluator result -> True / False / None; anything else is returned as is"""
    if v is None:
        return None
    if isinstance(v, bool):
        return True if v else False
    return v


class _Raised:
    def __init__(self, e):
        self.e = e


def _call(closure, obj):
    try:
        return closure(obj)
    except Exception as e:  # noqa: BLE001 - raising instead of answering is allowed by the property
        if type(e).__name__ == "NotDeterministic":
            raise
        return _Raised(e)


def _same(a, b):
    """equality of two SQL values (None = NULL) without mixing bool and numbers"""
    if a is None or b is None:
        return a is None and b is None
    if isinstance(a, bool) != isinstance(b, bool):
        return False
    if isinstance(a, str) != isinstance(b, str):
        return False
    return bool(a == b)


def blame(n, env, obj):
    """Innermost sub-expression whose evaluator value differs from the reference value while the values of all
    its own sub-expressions agree: (sub-shape, evaluator value, reference value) or None."""
    for c in children(n):
        b = blame(c, env, obj)
        if b is not None:
            return b
    if n[0] in ("col", "int", "str"):
        return None
    cl = _native(_sub_closure, n)
    if cl is None:
        return None
    got = _call(cl, obj)
    if isinstance(got, _Raised):
        return None
    got = _norm3(got)
    want = ref(n, env)
    if _same(got, want):
        return None
    return (n, got, want)


def _vkind(v):
    if v is None:
        return "NULL"
    if v is True:
        return "TRUE"
    if v is False:
        return "FALSE"
    return "value"


def blame_key(b, env=None):
    """Normalised defect key of a blamed node: operator + the static feature of the node that matters + the two
    results; with ``env`` (concrete row, classify time) also the feature of the operand values that matters."""
    if b is None:
        return "no-subexpression-disagrees-with-the-reference"
    n, got, want = b
    t = n[0]
    res = "evaluator=%s,sql=%s" % (_vkind(got), _vkind(want))
    vals = [ref(c, env) for c in children(n)] if env is not None else None
    if t in ("and", "or"):
        feat = ""
        if vals is not None:
            kinds = [_vkind(v) for v in vals]
            decisive = "FALSE" if t == "and" else "TRUE"
            if "NULL" in kinds and decisive in kinds and kinds.index("NULL") < kinds.index(decisive):
                feat = ":null-operand-before-%s-operand" % decisive.lower()
            else:
                feat = ":operands=" + "/".join(kinds)
        return "%s_%s:%s" % (t, feat, res)
    if t == "not":
        return "not_:%s" % res
    if t in ("in", "notin"):
        lst = n[2]
        feat = "empty-list" if not lst else ("null-in-list" if None in lst else "plain-list")
        return "%s:%s:%s" % ("in_" if t == "in" else "not_in", feat, res)
    if t in ("isnull", "notnull"):
        return "%s:%s" % ("is_(None)" if t == "isnull" else "is_not(None)", res)
    if t == "like":
        c = n[3]
        wild = "%" in c or "_" in c
        feat = ("autoescape" if n[4] else ("wildcard-in-operand" if wild else "plain-operand"))
        return "%s:%s:%s" % (n[1], feat, res)
    if t == "bin":
        feat = ""
        if vals is not None and n[1] in ("mod", "div"):
            neg = any(isinstance(v, (int, float)) and v < 0 for v in vals)
            feat = ":negative-operand" if neg else ":non-negative-operands"
        return "%s%s:%s" % ({"add": "+", "sub": "-", "mul": "*", "mod": "%", "div": "/", "concat": "concat"}[n[1]], feat, res)
    if t == "cmp":
        return "%s:%s" % (n[1], res)
    return t


# reporting cap (see props/C38.py): after CAP failing paths with the same (slice, blame key) further failing
# paths with that key are abandoned as precondition-unmet (never counted as passing)
CAP = 2
_SEEN = {}


def _over_cap(slice_id, key):
    k = (slice_id, key)
    _SEEN[k] = _SEEN.get(k, 0) + 1
    return _SEEN[k] > CAP


def _e2e(crit, x, y, s):
    """The real thing on SQLite: row in the database, object in the Session, ORM UPDATE with
    synchronize_session='evaluate'; True iff afterwards the object agrees with the row."""
    eng = create_engine("sqlite://", poolclass=StaticPool)
    try:
        T.create(eng)
        with Session(eng) as sess:
            sess.execute(insert(T).values(id=1, x=x, y=y, s=s, m=0))
            obj = sess.get(A, 1)
            before = (obj.x, obj.m)
            raised = None
            try:
                sess.execute(update(A).where(crit).values(x=A.x + 1000, m=A.m + 1),
                             execution_options={"synchronize_session": "evaluate"})
            except Exception as e:  # noqa: BLE001 - "instead raises" is allowed, provided nothing was changed
                raised = e
            row = tuple(sess.execute(select(T.c.x, T.c.m)).one())
            insess = (obj.x, obj.m)
            if raised is not None:
                return row == before and insess == before
            return insess == row
    finally:
        eng.dispose()


def _bounded(v, vmax):
    assume((-vmax <= v) & (v <= vmax))
    return v


def _bounded_str(s, smax, alpha):
    """length <= smax, characters from ``alpha``: one solver decision for the length, one for the alphabet"""
    n = pin_code(len(s), 0, smax + 1)
    ok = True
    for i in range(n):
        ch = s[i]
        one = False
        for a in alpha:
            one = one | (ch == a)
        ok = ok & one
    assume(ok)
    return s


def h_eval(tier: str, fam: str, lo: int, hi: int, neg: bool, vmax: int, smax: int, alpha: str,
           k: int, x: Optional[int], y: Optional[int], s: Optional[str]) -> bool:
    kk = pin_code(k, lo, hi)
    shape, cl_pos, cl_neg = _native(_family, tier, fam)[kk]
    closure = cl_neg if neg else cl_pos
    if closure is None:
        return True  # declined at compile time: 'evaluate' raises InvalidRequestError instead of guessing
    n = ("not", shape) if neg else shape
    u = _native(uses, shape)
    # bounds (only on the columns the criteria reads; the others are NULL)
    dv = ("x", "y") if _native(has_div, shape) else ()
    if "x" in u:
        if x is not None:
            x = pin_code(x, -vmax, vmax + 1) if "x" in dv else _bounded(x, vmax)
    else:
        x = None
    if "y" in u:
        if y is not None:
            y = pin_code(y, -vmax, vmax + 1) if "y" in dv else _bounded(y, vmax)
    else:
        y = None
    if "s" in u:
        if s is not None:
            s = _bounded_str(s, smax, alpha)
    else:
        s = None
    if not _tracing():
        return _e2e(to_sa(n), x, y, s)
    obj = _native(_mk_obj)
    d = obj.__dict__
    d["x"] = x
    d["y"] = y
    d["s"] = s
    got = _call(closure, obj)
    env = {"x": x, "y": y, "s": s}
    want = ref(n, env)
    matches_sql = want is True or (isinstance(want, bool) and bool(want))
    if isinstance(got, _Raised):
        # The evaluator runs *after* the UPDATE has been executed (_do_post_synchronize_evaluate): an exception at
        # this point (ZeroDivisionError for x / 0, x % 0 where SQL yields NULL) leaves a row the UPDATE matched
        # changed in the database while the statement raises and the in-session object keeps its old values.
        if not matches_sql:
            return True  # raised, and the database row is untouched as well
        key = raise_key(got.e)
    else:
        matches_eval = got is True or (isinstance(got, bool) and bool(got))
        if matches_eval == matches_sql:
            return True
        key = blame_key(blame(n, env, obj))
    if _native(_over_cap, "%s/%s/%d/%d/%s" % (tier, fam, lo, hi, neg), key):
        assume(False)
    return False


def raise_key(e):
    return "evaluator-raises-%s-after-the-UPDATE-was-executed" % type(e).__name__


# ------------------------------------------------------------------------------------------

META = {
    "explanation": "Style (a), truly symbolic values: every criteria shape of a bounded grammar is compiled concretely by the "
                   "real orm.evaluator._EvaluatorCompiler (at import / with the tracer paused); the resulting closure is "
                   "executed under the tracer on a mapped instance whose attribute values x, y (Optional[int]) and s "
                   "(Optional[str]) are symbolic, and `closure(obj) is True` (the predicate of _BulkUDCompileState."
                   "_get_matched_objects_on_criteria) is compared with a reference SQL semantics (Kleene AND/OR/NOT, NULL "
                   "propagation, IN / NOT IN with NULLs and empty lists, SQLite `%` (sign of the dividend, NULL for zero "
                   "divisor), true division with NULL for a zero divisor, LIKE with `%` and `_` wildcards and ESCAPE) for "
                   "the shape and for NOT(shape): together that is the comparison of the three-valued result. The shape "
                   "index is a symbolic int decided by the solver. Replay is end-to-end: the row is inserted into in-memory "
                   "SQLite, the real session.execute(update(A).where(crit).values(x=A.x + 1000, m=A.m + 1), "
                   "synchronize_session='evaluate') runs and the in-session object is compared with the row; only that "
                   "disagreement is reported. (The framework also re-runs the representative input of every *passing* path through "
                   "the same end-to-end check.) A run-time exception of the evaluator (ZeroDivisionError where SQL yields NULL) is "
                   "accepted only if the UPDATE does not match the row: the evaluator runs after the UPDATE was executed.",
    "functions": [
        "orm.evaluator._EvaluatorCompiler.{process,visit_grouping,visit_null,visit_column,visit_clauselist,visit_binary,"
        "visit_or_clauselist_op,visit_and_clauselist_op,visit_is_binary_op,visit_is_not_binary_op,_straight_evaluate,"
        "_straight_evaluate_numeric_only,visit_in_op_binary_op,visit_not_in_op_binary_op,visit_concat_op_binary_op,"
        "visit_startswith_op_binary_op,visit_endswith_op_binary_op,visit_unary,visit_bindparam} (closures run symbolically)",
        "orm.attributes._ScalarAttributeImpl.get (PASSIVE_NO_FETCH, value present)",
        "replay only: orm.bulk_persistence._BulkUDCompileState._do_pre_synchronize_evaluate, _get_matched_objects_on_criteria, "
        "_BulkORMUpdate._apply_update_set_values_to_objects, SQLite compilation + execution of the UPDATE",
    ],
    "bounds": {
        "quick": {"x, y": "NULL or -3..3", "s": "NULL or length <= 2 over 'ab%'",
                  "shapes": "atoms: 6 comparisons over columns/constants; comparisons of one + - * % / term; IN / NOT IN "
                            "(plain, with NULL, empty); IS [NOT] NULL of columns, arithmetic, concatenation and predicates; string "
                            "comparisons, concat, startswith/endswith/contains (plain, wildcard, autoescape); and_/or_ of two out of "
                            "8 atoms; IS [NOT] NULL of and_/or_ of two out of 5 atoms; NOT of every shape"},
        "thorough": {"x, y": "NULL or -5..5", "s": "NULL or length <= 2 over 'ab%_/'",
                     "shapes": "larger atom families; and_/or_ of two out of 14 atoms; and_/or_ of three, and_(or_), or_(and_) out "
                               "of 6 atoms; and_(not_(and_)), or_(not_(or_)); NOT of every shape"},
    },
    "outside": [
        "synchronize_session='fetch' / 'auto', DELETE, SET-clause expressions other than col + constant",
        "backends other than SQLite (the reference arithmetic is SQLite's: `%` truncates, x / 0 and x % 0 are NULL)",
        "SQLite's ASCII case-insensitive LIKE: string alphabets are lower-case/punctuation only",
        "`%` applied to a `/` result, floats, numbers beyond the range, strings longer than 2",
        "expired / unloaded attributes (_EXPIRED_OBJECT), objects of other classes, relationship comparisons",
    ],
    "stubs": [],
    "assumptions": [
        "symbolic run: the instance is transient and its attribute values are written straight into the instance dict",
        "reporting cap: after %d failing paths with the same defect key in one slice further failing paths with that key "
        "are abandoned (counted as precondition-unmet, never as passing)" % CAP,
        "a root-level FALSE/NULL confusion is observable only under an enclosing NOT / IS NULL: every shape is also "
        "checked as NOT(shape)",
    ],
}


def harnesses(tier: str) -> List[Harness]:
    q = tier == "quick"
    vmax, smax, alpha = (3, 2, "ab%") if q else (5, 2, "ab%_/")
    chunk = 12
    sl = []
    for name in _families(tier):
        n = len(_family(tier, name))
        for lo in range(0, n, chunk):
            # NOT(atom) is rewritten by SQLAlchemy into the negated operator, which is itself an atom of the corpus
            for neg in ((False,) if name.startswith("atoms_") else (False, True)):
                sl.append(dict(tier=tier, fam=name, lo=lo, hi=min(n, lo + chunk), neg=neg, vmax=vmax, smax=smax, alpha=alpha))
    META["declined_shapes"] = {name: len(DECLINED.get((tier, name), [])) for name in _families(tier)}
    return [Harness("eval", h_eval, sl, budget_s=200 if q else 900, per_path_timeout=20)]


def classify(hname, args, rep):
    shape = _family(args["tier"], args["fam"])[args["k"]][0]
    n = ("not", shape) if args["neg"] else shape
    u = uses(shape)
    env = {c: (args[c] if c in u else None) for c in ("x", "y", "s")}
    exc = rep.get("exception")
    if exc:
        return ("C43:harness-exception:%s" % args["fam"], "criteria %s on row %s: %s" % (show(n), env, exc))
    obj = A()
    obj.__dict__.update(env)
    root = _call(_sub_closure(n), obj)
    if isinstance(root, _Raised):
        return ("C43:" + raise_key(root.e),
                "UPDATE ... WHERE %s with synchronize_session='evaluate' on row x=%r y=%r s=%r: the UPDATE is executed (SQL "
                "yields NULL where Python raises), then the evaluator raises %r; the row is changed in the database, the "
                "in-session object is not" % (show(n), env["x"], env["y"], env["s"], root.e))
    b = blame(n, env, obj)
    key = "C43:" + blame_key(b, env)
    if b is None:
        what = "no sub-expression disagrees with the reference semantics"
    else:
        what = "sub-expression %s: evaluator gives %r, SQL gives %r" % (show(b[0]), b[1], b[2])
    return (key, "UPDATE ... WHERE %s with synchronize_session='evaluate' on row x=%r y=%r s=%r leaves the in-session "
                 "object out of sync with SQLite; %s" % (show(n), env["x"], env["y"], env["s"], what))


def run(tier: str, seed: int):
    return framework.run_symx(PID, __name__, tier, seed, harnesses(tier), classify, META)
