"""C16 schema_translate_map renders the mapped schemas regardless of cache state (E1 style (b))."""
from __future__ import annotations

from typing import Any, Dict, List, Optional, Tuple

from vlib import framework
from vlib.framework import Harness
from vlib.symx import native, pick
from props import C04

PID = "C16"

SCHEMAS = [None, "a", "b", "_none", "x y", "Q"]
# (table1 schema, table2 schema)
ASSIGN = [(None, None), ("a", None), ("a", "b"), (None, "b"), ("a", "a"), ("_none", None), ("_none", "a"), ("x y", "a"), ("Q", None), ("b", "Q")]
N = "<<None>>"  # JSON-able stand-in for the None key / value
MAPS: List[Dict[str, Optional[str]]] = [
    {},
    {"a": "m"},
    {"a": "b", "b": "a"},
    {"a": "a", "b": "b"},
    {N: "m"},
    {N: "m", "a": "n"},
    {N: "a", "a": N},
    {"a": N},
    {"b": "x y"},
    {"a": "Q", "Q": "a"},
    {"_none": "z"},
    {N: "m", "_none": "z"},
    {"x y": "a", "a": "x y"},
    {"a": "we]ird"},
    {N: "a b"},
    {"zz": "m"},
]
SHAPES = ["select1", "join", "insert", "update", "delete", "create_table", "drop_table", "select_fk_ddl"]


def _m(d):
    return {(None if k == N else k): (None if v == N else v) for k, v in d.items()}


def _tables(s1, s2):
    import sqlalchemy as sa

    md = sa.MetaData()
    t1 = sa.Table("t1", md, sa.Column("id", sa.Integer, primary_key=True), sa.Column("x", sa.Integer), schema=s1)
    t2 = sa.Table("t2", md, sa.Column("id", sa.Integer, primary_key=True),
                  sa.Column("t1_id", sa.Integer, sa.ForeignKey(t1.c.id)), schema=s2)
    return md, t1, t2


def _stmt(shape, t1, t2):
    import sqlalchemy as sa
    from sqlalchemy.schema import CreateTable, DropTable

    if shape == "select1":
        return sa.select(t1.c.id).where(t1.c.x == 5)
    if shape == "join":
        return sa.select(t1.c.id, t2.c.id).join_from(t1, t2, t1.c.id == t2.c.t1_id).where(t2.c.id > 3)
    if shape == "insert":
        return sa.insert(t1).values(x=7)
    if shape == "update":
        return sa.update(t1).where(t1.c.id == sa.select(t2.c.t1_id).where(t2.c.id == 1).scalar_subquery()).values(x=9)
    if shape == "delete":
        return sa.delete(t2).where(t2.c.t1_id == 4)
    if shape == "create_table":
        return CreateTable(t1)
    if shape == "drop_table":
        return DropTable(t2)
    if shape == "select_fk_ddl":
        return CreateTable(t2)
    raise ValueError(shape)


def _engine():
    from sqlalchemy.engine import default
    from sqlalchemy.engine.base import Engine
    from sqlalchemy.engine.url import URL
    from sqlalchemy.pool import StaticPool

    dbapi = C04._DBAPI("named")
    d = default.DefaultDialect(paramstyle="named")
    d.dbapi = dbapi
    d.supports_statement_cache = True
    pool = StaticPool(lambda: dbapi.connect())
    return Engine(pool, d, URL.create("capture")), dbapi


def _deliver(eng, dbapi, stmt, opts, how="connection"):
    """how: where the map is given -- on the Connection, per execute() call, on the statement, or on an
    engine-level execution_options() copy."""
    import sqlalchemy.exc as saexc

    del dbapi.log[:]
    try:
        if opts is not None and how == "engine":
            eng = eng.execution_options(schema_translate_map=opts)
        with eng.connect() as c:
            if opts is None or how == "engine":
                c.execute(stmt)
            elif how == "connection":
                c.execution_options(schema_translate_map=opts).execute(stmt)
            elif how == "execute":
                c.execute(stmt, execution_options={"schema_translate_map": opts})
            else:
                c.execute(stmt.execution_options(schema_translate_map=opts))
    except (saexc.InvalidRequestError, saexc.CompileError, saexc.StatementError) as e:
        orig = getattr(e, "orig", None) if isinstance(e, saexc.StatementError) else e
        if isinstance(e, saexc.DBAPIError) or not isinstance(orig, (saexc.InvalidRequestError, saexc.CompileError)):
            raise
        return ("declined", type(orig).__name__, str(orig)[:120])
    return [(" ".join(sql.split()), p) for sql, p in dbapi.log]


def _translated(schema, m):
    if schema in m:
        return m[schema]
    return schema


def _history(shape: str, assign_i: int, map_codes: List[int], how: str = "connection") -> bool:
    s1, s2 = ASSIGN[assign_i]
    md, t1, t2 = _tables(s1, s2)
    stmt = _stmt(shape, t1, t2)
    eng, dbapi = _engine()
    ref_eng, ref_dbapi = _engine()
    none_flags: List[bool] = []
    for step, mc in enumerate(map_codes):
        user_map = _m(MAPS[mc])
        snapshot = dict(user_map)
        got = _deliver(eng, dbapi, stmt, user_map, how)
        if isinstance(got, tuple):
            # documented refusals: the None key appears/disappears relative to the map the cached
            # compilation was made with, or something maps to the (non-existent) default schema
            none_flags.append(None in snapshot)
            to_default = any(v is None for v in snapshot.values())
            if len(set(none_flags)) > 1 or to_default:
                continue
            raise AssertionError("step %d: shape %s schemas %r map %r declined (%s) although no documented condition holds" % (step, shape, (s1, s2), snapshot, got[1:]))
        none_flags.append(None in snapshot)
        # reference: the same construct over tables that carry the translated schema names, no map, fresh engine
        r1, r2 = _translated(s1, snapshot), _translated(s2, snapshot)
        md2, u1, u2 = _tables(r1, r2)
        exp = _deliver(ref_eng, ref_dbapi, _stmt(shape, u1, u2), None)
        if got != exp:
            raise AssertionError("step %d: shape %s schemas %r map %r delivered %r but the construct with translated schemas renders %r" % (step, shape, (s1, s2), snapshot, got, exp))
    return True


def h_history(shape: str, assign_i: int, third: str, how: str, code: int) -> bool:
    nm = len(MAPS)
    if third == "first":
        c = pick(code, nm * nm)
        f, g = c % nm, c // nm
        return native(_history, shape, assign_i, [f, g, f], how)
    c = pick(code, nm * nm * nm)
    return native(_history, shape, assign_i, [c % nm, (c // nm) % nm, c // (nm * nm)], how)


META = {
    "explanation": "Solver-chosen histories of three executions of one construct (8 shapes incl. DDL) over tables in 10 schema assignments with schema_translate_map values from a pool of 16 maps "
                   "(identity, swaps, None key, maps to None, a schema literally named `_none`, names needing quoting, brackets), on one Engine with a shared compiled cache; every delivered SQL text must "
                   "equal the text of the same construct whose tables carry the translated schema names (compiled on a fresh engine without a map), or the execution must be declined with the documented "
                   "InvalidRequestError/CompileError when its documented condition holds.",
    "functions": ["IdentifierPreparer._with_schema_translate / symbol_getter / _render_schema_translates", "DefaultExecutionContext._init_compiled / _init_ddl (schema_translate_map application)",
                  "Connection._execute_clauseelement (cache key component for the map's None-key presence)", "DDLCompiler with schema_translate_map"],
    "bounds": {"quick": "8 shapes x 10 schema assignments x all 256 histories (m1, m2, m1) over 16 maps", "thorough": "all 4096 histories (m1, m2, m3)"},
    "outside": ["effects on a real database with several schemas", "sequences / indexes / reflected tables", "maps or schema names outside the pools"],
    "stubs": ["recording DBAPI, DefaultDialect(paramstyle='named') (no default schema name)"],
    "assumptions": [],
}


def harnesses(tier: str) -> List[Harness]:
    third = "first" if tier == "quick" else "any"
    hows = ["connection", "execute", "statement", "engine"]
    sl = [dict(shape=s, assign_i=a, third=third, how=(hows[(si + a) % 4] if tier == "quick" else h))
          for si, s in enumerate(SHAPES) for a in range(len(ASSIGN)) for h in (hows if tier != "quick" else hows[:1])]
    return [Harness("history", h_history, sl, budget_s=200 if tier == "quick" else 1500)]


def classify(hname, args, rep):
    exc = rep.get("exception") or ""
    kind = "declined" if "although no documented condition holds" in exc else "wrong-sql"
    if "_none" in exc:
        # the internal sentinel name for the None key collides with a schema / map key literally named "_none"
        return ("C16:_none-sentinel-collision:%s" % kind, exc[:400])
    s1, s2 = ASSIGN[args["assign_i"]]
    return ("C16:%s:%s:%s:map-on-%s" % (kind, args["shape"], "none-schema" if None in (s1, s2) else "named", args.get("how", "connection")), exc[:400])


def run(tier: str, seed: int):
    return framework.run_symx(PID, __name__, tier, seed, harnesses(tier), classify, META)
