"""C20 Database URLs round-trip through their string form (E1 symx).

``make_url(URL.create(...).render_as_string(hide_password=False)) == URL.create(...)`` with one
component at a time a truly symbolic ``str`` (all of Unicode minus surrogates) that flows through the
real ``URL.create`` / ``render_as_string`` / ``_parse_url`` / ``URL.__eq__``, the other components
taken from adversarial contexts; plus solver-chosen table inputs (query keys, tuples, ports) executed
concretely.
"""
from __future__ import annotations

import itertools
import re
import urllib.parse
from typing import List, Optional

from vlib import framework
from vlib.framework import Harness
from vlib.symx import assume, concrete, native, _tracing

from sqlalchemy.engine import url as sa_url
from sqlalchemy.engine.url import URL, make_url

PID = "C20"


# ------------------------------------------------------------------------------------------
# Engine shims: exact, solver-friendly models of stdlib/C-backed functions *for symbolic str
# arguments only* (CrossHair's own models realise the string byte by byte -> one path per value):
#   urllib.parse.quote / quote_plus (UTF-8 percent-encoding as integer arithmetic on code points),
#   urllib.parse.unquote (percent-decoding + strict UTF-8 decoding; anything the model does not
#   cover exactly -- invalid UTF-8, bytes input, other encodings -- falls back to the real function
#   on the realised value), re.Match.groupdict (CrossHair omits unmatched groups and returns spans).
# Concrete arguments always go to the real functions.  The replay runs without any of this.

_ALWAYS_SAFE = "ABCDEFGHIJKLMNOPQRSTUVWXYZabcdefghijklmnopqrstuvwxyz0123456789_.-~"


_TOOLS = None  # (z3, LazyIntSymbolicStr, SymbolicInt, context_statespace, NoTracing), set by _install_engine_shims


def _z3_tools():
    # no import statements on the traced path: importlib's module locks go through weakref calls, which
    # CrossHair intercepts with a gc.collect() each
    return _TOOLS


def _is_concrete_int(x) -> bool:
    with _TOOLS[4]():
        return type(x) is int


def _digits(o, bounds):
    """Fresh bounded integer variables d_i with o == sum(d_i * weight_i): the positional digits of a
    code point, uniquely determined by it (what z3 would introduce for div/mod, without the nesting)."""
    z3, _, SymbolicInt, context_statespace, NoTracing = _z3_tools()
    with NoTracing():
        space = context_statespace()
        x = SymbolicInt._coerce_to_smt_sort(o)
        total = None
        vs = []
        for weight, limit in bounds:
            v = z3.Int("c20digit" + space.uniq())
            space.add(z3.And(v >= 0, v < limit))
            total = v * weight if total is None else total + v * weight
            vs.append(v)
        space.add(x == total)
        return [SymbolicInt(v) for v in vs]


def _hexchr(nib, base: int = 0):
    """One upper-case hex digit character for the (symbolic) nibble base+nib, as a single ite term."""
    z3, LazyIntSymbolicStr, SymbolicInt, _, NoTracing = _z3_tools()
    with NoTracing():
        v = SymbolicInt._coerce_to_smt_sort(nib) + base
        return LazyIntSymbolicStr([SymbolicInt(z3.If(v >= 10, v + 55, v + 48))])


def _model_quote(string, safe: str, plus: bool):
    out = []
    for ch in string:
        o = ord(ch)
        if _is_concrete_int(o):
            with _TOOLS[4]():
                out.append(urllib.parse.quote_plus(chr(o), safe) if plus else urllib.parse.quote(chr(o), safe))
            continue
        ok = ((o >= 65) & (o <= 90)) | ((o >= 97) & (o <= 122)) | ((o >= 48) & (o <= 57)) \
            | (o == 95) | (o == 46) | (o == 45) | (o == 126)
        for c in safe:
            if ord(c) < 128:
                ok = ok | (o == ord(c))
        if ok:
            out.append(ch)
        elif plus and o == 32:
            out.append("+")
        elif o < 0x80:
            h, l = _digits(o, [(16, 8), (1, 16)])
            out.append("%" + _hexchr(h) + _hexchr(l))
        elif o < 0x800:
            # 110aaaaa 10bbcccc : 0xC0 + a (a = a1*16 + a0, a1 in 0..1) , 0x80 + b*16 + c
            a1, a0, b, c = _digits(o, [(1024, 2), (64, 16), (16, 4), (1, 16)])
            out.append("%" + _hexchr(a1, 12) + _hexchr(a0) + "%" + _hexchr(b, 8) + _hexchr(c))
        elif o < 0x10000:
            if (o >= 0xD800) & (o <= 0xDFFF):
                raise UnicodeEncodeError("utf-8", "?", 0, 1, "surrogates not allowed")
            a, b1, b0, c1, c0 = _digits(o, [(4096, 16), (1024, 4), (64, 16), (16, 4), (1, 16)])
            out.append("%E" + _hexchr(a) + "%" + _hexchr(b1, 8) + _hexchr(b0) + "%" + _hexchr(c1, 8) + _hexchr(c0))
        else:
            a, b1, b0, c1, c0, d1, d0 = _digits(o, [(262144, 5), (65536, 4), (4096, 16), (1024, 4), (64, 16), (16, 4), (1, 16)])
            out.append("%F" + _hexchr(a) + "%" + _hexchr(b1, 8) + _hexchr(b0) + "%" + _hexchr(c1, 8) + _hexchr(c0)
                       + "%" + _hexchr(d1, 8) + _hexchr(d0))
    return "".join(out)


class _Fallback(Exception):
    pass


def _hexval(ch):
    o = ord(ch)
    if _is_concrete_int(o):
        return "0123456789abcdef".index(chr(o).lower()) if chr(o) in "0123456789abcdefABCDEF" else None
    if ((o >= 48) & (o <= 57)) | ((o >= 65) & (o <= 70)):
        z3, _, SymbolicInt, _, NoTracing = _z3_tools()
        with NoTracing():
            v = SymbolicInt._coerce_to_smt_sort(o)
            return SymbolicInt(z3.If(v <= 57, v - 48, v - 55))
    if (o >= 97) & (o <= 102):
        return o - 87
    return None


def _model_unquote(s):
    n = len(s)
    out = []
    i = 0
    need = 0  # continuation bytes still expected
    acc = 0
    lo = 0x80  # allowed range of the next continuation byte
    hi = 0xBF
    while i < n:
        ch = s[i]
        b = None
        if ch == "%" and i + 2 <= n - 1:
            h1 = _hexval(s[i + 1])
            h2 = _hexval(s[i + 2]) if h1 is not None else None
            if h2 is not None:
                b = h1 * 16 + h2
                i += 3
        if b is None:
            if need:
                raise _Fallback()
            out.append(ch)  # literal text (non-ASCII text is passed through untouched)
            i += 1
            continue
        if need:
            if not ((b >= lo) & (b <= hi)):
                raise _Fallback()
            acc = acc * 64 + (b - 0x80)
            need -= 1
            lo, hi = 0x80, 0xBF
            if need == 0:
                out.append(chr(acc))
            continue
        if b < 0x80:
            out.append(chr(b))
        elif (b >= 0xC2) & (b <= 0xDF):
            need, acc = 1, b - 0xC0
        elif (b >= 0xE0) & (b <= 0xEF):
            need, acc = 2, b - 0xE0
            if b == 0xE0:
                lo = 0xA0
            elif b == 0xED:
                hi = 0x9F
        elif (b >= 0xF0) & (b <= 0xF4):
            need, acc = 3, b - 0xF0
            if b == 0xF0:
                lo = 0x90
            elif b == 0xF4:
                hi = 0x8F
        else:
            raise _Fallback()
    if need:
        raise _Fallback()
    return "".join(out)


def _install_engine_shims() -> bool:
    try:
        import crosshair.core_and_libs  # noqa: F401
        from crosshair import core as ch_core
        from crosshair.libimpl import relib
        from crosshair.libimpl.builtinslib import AnySymbolicStr
    except ImportError:
        return False
    if getattr(ch_core, "_verif_c20_shims", False):
        return True
    import z3
    from crosshair.core import realize, register_patch
    from crosshair.libimpl.builtinslib import LazyIntSymbolicStr, SymbolicInt
    from crosshair.statespace import context_statespace
    from crosshair.tracers import NoTracing

    global _TOOLS
    _TOOLS = (z3, LazyIntSymbolicStr, SymbolicInt, context_statespace, NoTracing)

    real_quote, real_quote_plus, real_unquote = urllib.parse.quote, urllib.parse.quote_plus, urllib.parse.unquote

    def is_sym(x):
        with NoTracing():
            return isinstance(x, AnySymbolicStr)

    def quote(string, safe="/", encoding=None, errors=None):
        if is_sym(string) and type(safe) is str and encoding in (None, "utf-8") and errors in (None, "strict"):
            return _model_quote(string, safe, False)
        with NoTracing():
            return real_quote(realize(string), realize(safe), encoding, errors)

    def quote_plus(string, safe="", encoding=None, errors=None):
        if is_sym(string) and type(safe) is str and encoding in (None, "utf-8") and errors in (None, "strict"):
            return _model_quote(string, safe, True)
        with NoTracing():
            return real_quote_plus(realize(string), realize(safe), encoding, errors)

    def unquote(string, encoding="utf-8", errors="replace"):
        if is_sym(string) and encoding in (None, "utf-8") and errors in (None, "replace"):
            try:
                return _model_unquote(string)
            except _Fallback:
                pass
        with NoTracing():
            return real_unquote(realize(string), encoding, errors)

    register_patch(urllib.parse.quote, quote)
    register_patch(urllib.parse.quote_plus, quote_plus)
    register_patch(urllib.parse.unquote, unquote)

    def groupdict(self, default=None):
        out = {}
        for name, idx in self.re.groupindex.items():
            out[name] = default if self._groups[idx] is None else self.group(idx)
        return out

    relib._Match.groupdict = groupdict

    # CrossHair's bug-hunting heuristic "premature realize" (after inconclusive paths it adds a parallel
    # branch in which the argument is concrete from the start) turns path exploration into value
    # enumeration and makes exhaustion impossible: disabled.
    from crosshair.statespace import StateSpace

    orig_fork_parallel = StateSpace.fork_parallel

    def fork_parallel(self, false_probability, desc=""):
        if desc.startswith("premature realize"):
            return False
        return orig_fork_parallel(self, false_probability, desc)

    StateSpace.fork_parallel = fork_parallel
    ch_core._verif_c20_shims = True
    return True


_install_engine_shims()


# ------------------------------------------------------------------------------------------
# Contexts: the values of the components that are not under the solver's control in a slice.

CONTEXTS = [
    dict(username=None, password=None, host="h", port=None, database=None, query={}),
    dict(username="u", password="p", host="h", port=5432, database="d", query={"k": "v"}),
    dict(username="@", password=":", host="::1", port=0, database="/", query={"&": "=", "a": ("b", "c")}),
    dict(username="", password="", host=None, port=None, database="", query={}),
    dict(username="é", password="%", host="h-1.example.com", port=65535, database="?", query={"+": " ", "#": "é"}),
    dict(username="a", password=None, host=None, port=1, database=None, query={"a": "b"}),
]
FOCUS = ["username", "password", "database", "qvalue", "qtuple", "host"]
DRIVER = "postgresql+psycopg2"


def _build(focus: str, ctx: int, value):
    kw = dict(CONTEXTS[ctx])
    kw["query"] = dict(kw["query"])
    if focus == "qvalue":
        kw["query"]["q"] = value
    elif focus == "qtuple":
        kw["query"]["q"] = (value, "z")
    else:
        kw[focus] = value
    if kw["password"] is not None and kw["username"] is None:
        kw["username"] = "u"  # a password without a user name has no string form (outside)
    return kw


def _roundtrip(kw) -> bool:
    u = URL.create(DRIVER, **kw)
    text = u.render_as_string(hide_password=False)
    u2 = make_url(text)
    if not (u2 == u) or (u2 != u):
        return False
    return (u2.drivername == DRIVER and u2.username == kw["username"] and u2.password == kw["password"]
            and u2.host == kw["host"] and u2.port == kw["port"] and u2.database == kw["database"]
            and _query_eq(u2.query, kw["query"]))


def _query_eq(got, want) -> bool:
    if len(got) != len(want):
        return False
    for k in want:  # keys are concrete
        if k not in got:
            return False
        w, g = want[k], got[k]
        if isinstance(w, tuple):
            if not isinstance(g, tuple) or len(g) != len(w):
                return False
            for i in range(len(w)):
                if g[i] != w[i]:
                    return False
        elif isinstance(g, tuple) or g != w:
            return False
    return True


# (a) symbolic: one component is a symbolic str
CLASSES = {"ascii": (0, 0x7F), "2byte": (0x80, 0x7FF), "3byte": (0x800, 0xFFFF), "4byte": (0x10000, 0x10FFFF)}


def h_component(focus: str, ctx: int, n: int, cls: str, s: str) -> bool:
    # cls: one UTF-8 length class per character (the slices together cover all of Unicode)
    assume(len(s) == n)
    cond = None
    cv = cls.split(",") if cls else []
    for i in range(n):
        o = ord(s[i])
        if focus == "host":
            # precondition: syntactically valid host name characters
            c = ((o >= 97) & (o <= 122)) | ((o >= 48) & (o <= 57)) | (o == 45) | (o == 46)
        else:
            lo, hi = CLASSES[cv[i]]
            c = (o >= lo) & (o <= hi) & ((o < 0xD800) | (o > 0xDFFF))  # lone surrogates cannot be encoded
        cond = c if cond is None else (cond & c)
    if cond is not None:
        assume(cond)
    return _roomy(_roundtrip, _build(focus, ctx, s))


def _make_roomy(nlocals: int = 8300):
    """CPython 3.12 keeps interpreter frames in 16 KiB 'data stack chunks' that are mmap'ed when a call does
    not fit and munmap'ed as soon as they are empty: a loop that calls a function right at a chunk boundary
    pays one mmap+munmap per call (measured here: 3x wall time, 70% system time, depending on the stack
    depth at which the worker happens to run).  A frame larger than a chunk makes CPython allocate one big
    chunk (next power of two) and everything called from it runs in the free remainder (~60 KiB): no chunk
    boundary inside the symbolic regex recursion.  Pure performance device, no semantic effect."""
    names = ",".join("v%d" % i for i in range(nlocals))
    ns = {}
    exec("def roomy(fn, arg):\n    %s = [None] * %d\n    return fn(arg)\n" % (names, nlocals), ns)
    return ns["roomy"]


_roomy = _make_roomy()


# validation of the engine shims at every run: a symbolic str pinned to one value by an assumption still
# goes through the arithmetic models; the result must equal what the real stdlib functions return
SELFTEST = ["", "a", "a b+c", "%", "%41", "@:/?#&=;", "\x00\x7f", "\x80", "\u07ff", "\u0800", "\ud7ff", "\ue000", "\uffff",
            "\U00010000", "\U0010ffff", "é€😀", "~_.-", "100%", "%zz", "%e2%82%ac", "%C3", "a%C3%A9b"]


def h_model_selftest(idx: int, s: str) -> bool:
    want = SELFTEST[idx]
    assume(len(s) == len(want))
    assume(s == want)
    ok = True
    for safe in (" +", " +/", "/", ""):
        ok = ok and urllib.parse.quote(s, safe=safe) == native(urllib.parse.quote, want, safe)
    ok = ok and urllib.parse.quote_plus(s) == native(urllib.parse.quote_plus, want)
    ok = ok and urllib.parse.unquote(s) == native(urllib.parse.unquote, want)
    ok = ok and urllib.parse.unquote(urllib.parse.quote(s, safe=" +")) == want
    ok = ok and urllib.parse.unquote(urllib.parse.quote_plus(s).replace("+", " ")) == want
    return ok


# (b) solver-chosen table inputs, concrete execution: every string of length <= 2 over the adversarial
# alphabet (and None) in every position, query keys, tuples of values, ports
ALPHABET = ["a", "@", ":", "/", "?", "%", "+", "&", "=", "#", " ", "é", "[", "]", "\\", "%41", "\n"]
POOL = [None, ""] + ALPHABET + [x + y for x in ALPHABET for y in ALPHABET]
HOSTS = [None, "h", "h-1.example.com", "127.0.0.1", "::1", "fe80::1", "2001:db8::1:0"]
PORTS = [None, 0, 1, 80, 5432, 65535]
TFOCUS = ["username", "password", "database", "qkey", "qvalue", "qtuple2", "qtuple3", "host", "port", "twokeys"]


def _pin(code, n: int) -> int:
    assume(0 <= code)
    assume(code < n)
    lo, hi = 0, n - 1
    while lo < hi:
        mid = (lo + hi) // 2
        if code <= mid:
            hi = mid
        else:
            lo = mid + 1
    return lo


def _table_size(focus: str) -> int:
    if focus == "host":
        return len(HOSTS)
    if focus == "port":
        return len(PORTS)
    if focus in ("qkey", "qvalue"):
        return len(POOL) - 1  # no None
    if focus in ("qtuple2", "twokeys"):
        return (len(ALPHABET) + 1) ** 2
    if focus == "qtuple3":
        return (len(ALPHABET) + 1) ** 3
    return len(POOL)


def _table_kw(focus: str, ctx: int, code: int):
    kw = dict(CONTEXTS[ctx])
    kw["query"] = dict(kw["query"])
    short = [""] + ALPHABET
    k = len(short)
    if focus == "host":
        kw["host"] = HOSTS[code]
    elif focus == "port":
        kw["port"] = PORTS[code]
    elif focus == "qkey":
        kw["query"][POOL[code + 1]] = "v"
    elif focus == "qvalue":
        kw["query"]["q"] = POOL[code + 1]
    elif focus == "qtuple2":
        kw["query"]["q"] = (short[code % k], short[code // k])
    elif focus == "qtuple3":
        kw["query"]["q"] = (short[code % k], short[(code // k) % k], short[code // (k * k)])
    elif focus == "twokeys":
        kw["query"] = {short[code % k]: "1", short[code // k]: "2"}
    else:
        kw[focus] = POOL[code]
    if kw["password"] is not None and kw["username"] is None:
        kw["username"] = "u"
    return kw


def _table_body(focus: str, ctx: int, code: int) -> bool:
    return _roundtrip(_table_kw(focus, ctx, code))


def h_table(focus: str, ctx: int, code: int) -> bool:
    return native(_table_body, focus, ctx, _pin(code, _table_size(focus)))


# ------------------------------------------------------------------------------------------

META = {
    "explanation": "Style (a), truly symbolic str through the real code: one of username / password / database / query value "
                   "/ element of a query tuple / host is a CrossHair symbolic string (all of Unicode minus lone surrogates; "
                   "host: [a-z0-9.-]) and flows through URL.create -> render_as_string(hide_password=False) -> make_url/"
                   "_parse_url (regex, parse_qsl, unquote) -> URL.__eq__ and component-wise comparison; the other components "
                   "come from six adversarial contexts (None / empty / URL-special characters / IPv6 host / ports 0..65535 / "
                   "multi-valued query). Style (b), solver-chosen table index, concrete execution: every string of length "
                   "<= 2 over an adversarial alphabet in every position, query keys (dict keys are hashed, a symbolic key "
                   "would be realised), 2- and 3-tuples of query values, two keys, hosts, ports.",
    "functions": ["engine.url.URL.{create,_assert_str,_assert_none_str,_assert_port,_str_dict,render_as_string,__eq__,__ne__}",
                  "engine.url.make_url", "engine.url._parse_url",
                  "urllib.parse.parse_qsl (real, run symbolically)"],
    "bounds": {
        "quick": {"symbolic component": "str of length 0..1 in 6 contexts, length 2 in 3 contexts (host 1..2 in all), 6 positions",
                  "table": "strings of length <= 2 over %r, None, '' in username/password/database/query key/query value; "
                           "2-tuples; two keys; %d hosts; ports %r; 6 contexts" % ("".join(ALPHABET[:15]), len(HOSTS), PORTS)},
        "thorough": {"symbolic component": "str of length 0..2 in all 6 contexts, length 3 for username/password/database in 2 contexts (host 1..3 in all)", "table": "as quick plus 3-tuples of query values"},
    },
    "outside": ["host names that are not syntactically valid (empty string, characters outside letters/digits/dot/hyphen; IPv6 literals only from a table)",
                "a password given without a user name (RFC 1738 userinfo has no such form; render_as_string drops it)",
                "query values that are 1-tuples or empty tuples (indistinguishable from a plain string / from no key in the string form; URL.normalized_query is the documented consistent view)",
                "lone surrogate code points (not encodable)", "password objects that are not str", "drivername (fixed, valid)",
                "ports outside the table (str(int) of a symbolic int is undecidable for z3)"],
    "stubs": ["engine shims (CrossHair's model of Python, for symbolic str arguments only): exact arithmetic models of "
              "urllib.parse.quote/quote_plus/unquote (UTF-8 percent coding), re.Match.groupdict; concrete arguments reach the real functions; "
              "the concrete replay uses the real functions only"],
    "assumptions": ["equality of URL objects and of each component is the round-trip criterion",
                    "query dict keys are concrete in the symbolic harness"],
}


def harnesses(tier: str) -> List[Harness]:
    q = tier == "quick"
    nmax = 2 if q else 3
    hs: List[Harness] = []
    sl = []
    for f in FOCUS:
        for c in range(len(CONTEXTS)):
            for n in range(1 if f == "host" else 0, nmax + 1):
                if q and n == 2 and f != "host" and c not in (1, 2, 3):
                    continue  # quick: length 2 in three of the six contexts
                if n == 3 and f != "host" and (c not in (1, 2) or f in ("qtuple", "qvalue")):
                    continue  # thorough: length 3 in two contexts
                for cv in ([("host",) * n] if f == "host" else itertools.product(CLASSES, repeat=n)):
                    sl.append(dict(focus=f, ctx=c, n=n, cls=",".join(cv)))
    hs.append(Harness("component", h_component, sl, budget_s=90 if q else 800, per_path_timeout=30))
    hs.append(Harness("model_selftest", h_model_selftest, [dict(idx=i) for i in range(len(SELFTEST))], budget_s=60))
    tf = [f for f in TFOCUS if not (q and f == "qtuple3")]
    hs.append(Harness("table", h_table, [dict(focus=f, ctx=c) for f in tf for c in range(len(CONTEXTS))],
                      budget_s=120 if q else 600))
    return hs


def _blank_query(kw) -> bool:
    for v in kw["query"].values():
        if v == "" or (isinstance(v, tuple) and "" in v):
            return True
    return False


def classify(hname, args, rep):
    try:
        if hname == "component":
            kw = _build(args["focus"], args["ctx"], args["s"])
            focus = args["focus"]
            val = args["s"]
        else:
            kw = _table_kw(args["focus"], args["ctx"], args["code"])
            focus = args["focus"]
            val = kw["query"] if focus.startswith("q") or focus == "twokeys" else kw[focus]
        u = URL.create(DRIVER, **kw)
        text = u.render_as_string(hide_password=False)
        try:
            back = make_url(text)
            got = dict(username=back.username, password=back.password, host=back.host, port=back.port,
                       database=back.database, query=dict(back.query))
        except Exception as e:  # noqa: BLE001
            got = repr(e)
        if _blank_query(kw):
            # would it round-trip with the blank value(s) replaced?  then the blank value is the cause
            kw2 = dict(kw)
            kw2["query"] = {k: ("x" if v == "" else tuple((e or "x") for e in v) if isinstance(v, tuple) else v)
                            for k, v in kw["query"].items()}
            if _roundtrip(kw2):
                return ("C20:query:blank-value",
                        "URL.create(%r, query=%r) renders %r; make_url() drops the blank query value(s) (parse_qsl without "
                        "keep_blank_values): %r" % (DRIVER, kw["query"], text, got))
        feats = sorted(set(ch for ch in (val if isinstance(val, str) else repr(val)) if not ch.isalnum()))
        return ("C20:%s:%s" % (focus, "".join("U+%04X" % ord(c) for c in feats[:4]) or "plain"),
                "URL.create(%r, **%r) renders %r which parses back to %r" % (DRIVER, kw, text, got))
    except Exception as e:  # noqa: BLE001
        return ("C20:%s:error" % hname, "%s fails on %s (%r / %s)" % (hname, args, e, rep.get("exception")))


def run(tier: str, seed: int):
    return framework.run_symx(PID, __name__, tier, seed, harnesses(tier), classify, META)
