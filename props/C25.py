"""C25 Pool limits and counters -- SEQUENTIAL part only (E1 symx).

The property's stated quantifier is *thread schedules*; those are outside this engine family and outside
the claim (see META["outside"]).  What is decided here:

* ``step``: ONE pool operation from an ARBITRARY pre-state satisfying the representation invariant of
  QueuePool (``_overflow`` and ``max_overflow`` stay symbolic integers, the idle records are real
  ``_ConnectionRecord`` objects in the real queue) re-establishes the invariant and has exactly the
  documented effect.  By induction this covers sequential histories of any length.
* ``history``: short sequential histories from a fresh QueuePool against a counting model, including the
  FIFO / LIFO order in which idle connections are reused.
* ``simple``: short histories over NullPool / StaticPool / AssertionPool / SingletonThreadPool (thread
  identities emulated sequentially).
"""
from __future__ import annotations

import gc
import logging
import threading
import weakref
from typing import List

from vlib import fakedb, framework
from vlib.framework import Harness
from vlib.symx import assume, pick

from sqlalchemy import exc as sa_exc
from sqlalchemy import pool as sa_pool

PID = "C25"

# error logging of the pool ("%r" of connections) is not part of the property and is slow under the tracer
logging.disable(logging.CRITICAL)

STEP_OPS = ["checkout", "checkout_creator_fails", "return", "return_reset_fails", "invalidate_return",
            "soft_invalidate_return", "inc_overflow", "dec_overflow",
            # fairy.detach(); a live checkout dropped without close() (weakref finalizer); the finalizer of a fairy
            # object that was already released (by detach / close / invalidate) running AFTER its pool slot has been
            # checked out again
            "detach", "drop_gc", "stale_after_detach", "stale_after_close", "stale_after_invalidate"]


class _Srv(fakedb.FakeServer):
    """FakeServer whose ``connect`` can be told to fail (a creator that raises)."""

    def __init__(self):
        super().__init__()
        self.fail_connect = False
        self.creator_calls = 0

    def connect(self):
        self.creator_calls += 1
        if self.fail_connect:
            raise fakedb.OperationalError("fake: cannot connect")
        return super().connect()


def _idle_conns(pool):
    return [r.dbapi_connection for r in list(pool._pool.queue)]


def _inv(pool, S, M, O, idle):
    """Representation invariant of QueuePool (sequential)."""
    if not (O >= -S):
        return False
    if not (idle <= S and idle <= S + O and idle >= 0):
        return False
    if M > -1 and not (O <= M):
        return False
    return True


def _release(pool, live) -> None:
    """End of a path: make the counters concrete again and release every fairy *now*, so that no weakref
    finalizer runs later (outside the tracer) on symbolic counters."""
    if hasattr(pool, "_max_overflow"):
        pool._max_overflow = -1
        pool._overflow = 0
    for f in live:
        if f is None:
            continue
        try:
            rec = f._connection_record
            if rec is not None:
                rec.fairy_ref = None
            f._connection_record = None
            f.dbapi_connection = None
        except Exception:
            pass
    del live[:]


def _unlist(f, *lists) -> None:
    """Remove fairy ``f`` from the harness' own lists (entries become None)."""
    for lst in lists:
        for i in range(len(lst)):
            if lst[i] is f:
                lst[i] = None


def _gone(r) -> bool:
    """Has the object behind weakref ``r`` been finalized (after the caller dropped its last reference)?"""
    if r() is not None:
        gc.collect()
    return r() is None


def h_step(op: str, S: int, lifo: bool, idle: int, nreal: int, M: int, O: int, empties: List[bool],
           which: int) -> bool:
    live: list = []
    box: list = []
    try:
        return _step(live, box, op, S, lifo, idle, nreal, M, O, empties, which)
    finally:
        if box:
            _release(box[0], live)


def _step(live, box, op, S, lifo, idle, nreal, M, O, empties, which):
    """One operation from an arbitrary valid pre-state.

    S pool_size, idle = records sitting in the queue, nreal = materialised live checkouts (0..2; the other
    ``held - nreal`` holders implied by the counters are not touched by the operation), M = max_overflow and
    O = _overflow SYMBOLIC, empties[i] = idle record i has no DBAPI connection (left by invalidate())."""
    assume(len(empties) == idle)
    assume(-1 <= M <= 3)
    # representation invariant; held = S - idle + O live checkouts
    assume(O >= -S)
    assume(idle <= S + O)
    if M > -1:
        assume(O <= M)
    held0 = S - idle + O
    assume(held0 >= nreal)
    assume(0 <= which < max(nreal, 1))
    srv = _Srv()
    pool = sa_pool.QueuePool(srv.connect, pool_size=S, max_overflow=-1, timeout=0, use_lifo=lifo)
    box.append(pool)
    # build the concrete part of the pre-state through the public API
    zombie = []  # a fairy object that was released but is still referenced (its finalizer has not run yet)
    if op.startswith("stale_"):
        z = pool.connect()
        live.append(z)
        zrec = z._connection_record
        if op == "stale_after_detach":
            z.detach()
        elif op == "stale_after_close":
            z.close()
        else:
            z.invalidate()
        zombie.append(z)
        z = None
    fairies = [pool.connect() for _ in range(idle + nreal)]
    live.extend(fairies)
    holders = fairies[:nreal]
    for i in range(nreal, nreal + idle):
        fairies[i].close()
    if zombie and holders[0]._connection_record is not zrec:
        return False  # (pre-state construction) the released slot is the one checked out again
    recs = list(pool._pool.queue)
    if len(recs) != idle:
        return False
    for i in range(idle):
        if empties[i]:
            recs[i].invalidate()
    # the symbolic part
    pool._max_overflow = M
    pool._overflow = O
    if pool.checkedout() != held0 or pool.checkedin() != idle or pool.size() != S:
        return False
    held_conns = [f.dbapi_connection for f in holders]
    idle_before = _idle_conns(pool)
    nconn0 = len(srv.connections)
    calls0 = srv.creator_calls
    open0 = len(srv.open_connections())

    if op in ("checkout", "checkout_creator_fails"):
        srv.fail_connect = op == "checkout_creator_fails"
        err = None
        fairy = None
        try:
            fairy = pool.connect()
            live.append(fairy)
        except sa_exc.TimeoutError:
            err = "timeout"
        except fakedb.OperationalError:
            err = "creator"
        O1 = pool._overflow
        idle1 = pool.checkedin()
        if not _inv(pool, S, M, O1, idle1):
            return False
        if idle > 0:
            head = recs[-1] if lifo else recs[0]
            head_empty = empties[-1] if lifo else empties[0]
            if err == "timeout":
                return False  # something was idle: must be served
            if not head_empty:
                # served from idle, creator not called whatever it would do
                if err is not None or srv.creator_calls != calls0:
                    return False
                if fairy._connection_record is not head or fairy.dbapi_connection is not idle_before[-1 if lifo else 0]:
                    return False
                if idle1 != idle - 1 or O1 != O or pool.checkedout() != held0 + 1:
                    return False
            else:
                # an idle record without a connection: reconnects through the creator
                if srv.creator_calls != calls0 + 1:
                    return False
                if srv.fail_connect:
                    if err != "creator":
                        return False
                    # every counter unchanged, the record is idle again
                    if idle1 != idle or O1 != O or pool.checkedout() != held0:
                        return False
                    if len(srv.connections) != nconn0:
                        return False
                    return head in list(pool._pool.queue)
                if err is not None or fairy._connection_record is not head:
                    return False
                if idle1 != idle - 1 or O1 != O or pool.checkedout() != held0 + 1:
                    return False
        else:
            at_limit = M > -1 and O >= M
            if at_limit:
                # nothing idle and the limit is reached: TimeoutError (timeout=0), nothing changes
                if err != "timeout" or srv.creator_calls != calls0:
                    return False
                return idle1 == 0 and O1 == O and pool.checkedout() == held0
            if err == "timeout":
                return False
            if srv.creator_calls != calls0 + 1:
                return False
            if srv.fail_connect:
                if err != "creator":
                    return False
                return idle1 == 0 and O1 == O and pool.checkedout() == held0 and len(srv.connections) == nconn0
            if err is not None:
                return False
            if idle1 != 0 or O1 != O + 1 or pool.checkedout() != held0 + 1:
                return False
        # success: the connection handed out is open, not held by anybody else, and is either one that
        # was idle or a brand-new one
        c = fairy.dbapi_connection
        if c is None or c.closed:
            return False
        for h in held_conns:
            if h is c:
                return False
        fresh = c.id >= nconn0
        was_idle = any(x is c for x in idle_before)
        if fresh == was_idle:
            return False
        if M > -1 and not (pool.checkedin() + pool.checkedout() <= S + M):
            return False
        return len(srv.open_connections()) <= open0 + 1

    if op == "inc_overflow":
        # the function's own contract (it is what the unlocked pre-check in _do_get relies on)
        r = pool._inc_overflow()
        O1 = pool._overflow
        if r is not (True if (M == -1 or O < M) else False):
            return False
        if O1 != (O + 1 if r else O):
            return False
        return _inv(pool, S, M, O1, idle) and pool.checkedin() == idle
    if op == "dec_overflow":
        r = pool._dec_overflow()
        return r is True and pool._overflow == O - 1 and pool.checkedin() == idle

    if op.startswith("stale_"):
        # the stale finalizer must not touch the record that the newer checkout holds
        h0 = holders[0]
        rec0 = h0._connection_record
        ref0 = rec0.fairy_ref
        rb0 = h0.dbapi_connection.rollbacks
        zr = weakref.ref(zombie[0])
        _unlist(zombie[0], live)
        del zombie[:]
        assume(_gone(zr))  # the stale finalizer has run now
        if pool._overflow != O or pool.checkedin() != idle or pool.checkedout() != held0:
            return False
        if list(pool._pool.queue) != recs:
            return False
        if rec0.fairy_ref is not ref0 or ref0() is not h0 or h0._connection_record is not rec0:
            return False
        c0 = h0.dbapi_connection
        if c0 is not held_conns[0] or c0.closed or c0.rollbacks != rb0 or rec0.dbapi_connection is not c0:
            return False
        return srv.creator_calls == calls0 and _inv(pool, S, M, pool._overflow, idle)

    if op == "detach":
        fairy = holders[which]
        rec = fairy._connection_record
        conn = fairy.dbapi_connection
        fairy.detach()
        O1 = pool._overflow
        idle1 = pool.checkedin()
        if not _inv(pool, S, M, O1, idle1) or pool.checkedout() != held0 - 1:
            return False
        if idle < S:
            # the (now empty) record takes a slot of the queue
            if idle1 != idle + 1 or O1 != O or list(pool._pool.queue) != recs + [rec]:
                return False
        else:
            if idle1 != idle or O1 != O - 1 or list(pool._pool.queue) != recs:
                return False
        # the DBAPI connection now belongs to the holder alone
        if rec.dbapi_connection is not None or rec.fairy_ref is not None or fairy._connection_record is not None:
            return False
        if fairy.dbapi_connection is not conn or conn.closed or srv.creator_calls != calls0:
            return False
        for r in list(pool._pool.queue):
            if r.dbapi_connection is conn:
                return False
        # closing the detached fairy closes the connection and does not touch the pool
        fairy.close()
        if not conn.closed or pool._overflow != O1 or pool.checkedin() != idle1 or pool.checkedout() != held0 - 1:
            return False
        for j in range(len(holders)):
            if j != which and (holders[j].dbapi_connection is not held_conns[j] or held_conns[j].closed):
                return False
        return True

    # return-type operations need one materialised holder
    fairy = holders[which]
    rec = fairy._connection_record
    conn = fairy.dbapi_connection
    if op == "return":
        fairy.close()
    elif op == "drop_gc":
        # the holder forgets the fairy without closing it: the weakref finalizer returns the connection
        fr = weakref.ref(fairy)
        _unlist(fairy, holders, fairies, live)
        fairy = None
        assume(_gone(fr))
    elif op == "return_reset_fails":
        srv.faults[srv.calls + 1] = "error"  # the rollback-on-return raises
        fairy.close()
    elif op == "invalidate_return":
        fairy.invalidate()
        fairy.close()
    elif op == "soft_invalidate_return":
        fairy.invalidate(soft=True)
        fairy.close()
    else:
        raise AssertionError(op)
    O1 = pool._overflow
    idle1 = pool.checkedin()
    if not _inv(pool, S, M, O1, idle1):
        return False
    if pool.checkedout() != held0 - 1:
        return False
    if srv.creator_calls != calls0:
        return False
    if idle < S:
        # room in the queue: the record becomes idle, overflow untouched
        if idle1 != idle + 1 or O1 != O:
            return False
        q = list(pool._pool.queue)
        if q[-1] is not rec or q[:-1] != recs:
            return False
        closed_expected = op in ("return_reset_fails", "invalidate_return")
    else:
        # queue full: the connection is closed and the overflow counter decremented
        if idle1 != idle or O1 != O - 1:
            return False
        if list(pool._pool.queue) != recs:
            return False
        closed_expected = True
    if conn.closed != closed_expected:
        return False
    if closed_expected and rec.dbapi_connection is not None:
        return False
    if (not closed_expected) and (rec.dbapi_connection is not conn or conn.rollbacks != 1):
        return False
    if rec.fairy_ref is not None:
        return False
    if M > -1 and not (pool.checkedin() + pool.checkedout() <= S + M):
        return False
    # the other holder is untouched
    for j in range(len(holders)):
        if j != which and holders[j] is not None and (holders[j].dbapi_connection is not held_conns[j] or held_conns[j].closed):
            return False
    return True


# ------------------------------------------------------------------------------------------
# short sequential histories from a fresh QueuePool against a counting model


HOPS = ["checkout", "return", "invalidate", "checkout_creator_fails", "detach", "drop_live_gc", "drop_released_gc"]

_WHY: List[str] = []  # oracle clause that failed last (read by classify after a concrete re-run)


def _no(reason: str) -> bool:
    _WHY.append(reason)
    return False


def _halphabet(nh: int, nz: int):
    """(op, index): 0 checkout, 3 checkout with a failing creator, 1 return / 2 invalidate / 4 detach / 5 drop without
    close (+gc) live holder w, 6 drop (+gc) the z-th fairy object that was released earlier (returned, invalidated or
    detached) but is still referenced -- its finalizer is *stale* and may run after the slot was checked out again."""
    ops = [(0, 0), (3, 0)]
    for w in range(nh):
        for o in (1, 2, 4, 5):
            ops.append((o, w))
    for z in range(nz):
        ops.append((6, z))
    return ops


def _hconnect(pool, live):
    """-> ("ok", fairy) | ("timeout", None) | ("creator", None)"""
    try:
        f = pool.connect()
    except sa_exc.TimeoutError:
        return "timeout", None
    except fakedb.OperationalError:
        return "creator", None
    live.append(f)
    return "ok", f


def _hdrop(lst, idx, live) -> bool:
    """Forget fairy lst[idx] (no close) and let its finalizer run."""
    r = weakref.ref(lst[idx])
    for i in range(len(live)):
        if live[i] is lst[idx]:
            live.pop(i)
            break
    lst.pop(idx)
    return _gone(r)


def h_history(S: int, M: int, lifo: bool, nops: int, a0: int, b1: int, c1: int, c2: int, c3: int, c4: int) -> bool:
    """nops operations from a fresh pool: the first one is alphabet entry a0, the second one lies in the b1-th third
    of the alphabet (slicing only), c1..c4 select the others from the state-dependent alphabet of ``_halphabet``."""
    live: list = []
    try:
        return _history(live, S, M, lifo, nops, a0, b1, [c1, c2, c3, c4])
    finally:
        _release(None, live)


def _history(live, S, M, lifo, nops, a0, b1, codes):
    srv = _Srv()
    pool = sa_pool.QueuePool(srv.connect, pool_size=S, max_overflow=M, timeout=0, use_lifo=lifo)
    holders = []  # live, non-detached fairies
    zombies = []  # released fairy objects that are still referenced
    m_idle: List[int] = []  # model: connection ids in the queue, left = oldest returned; -1 = empty record
    m_held: List[int] = []
    m_over = -S
    m_det = 0  # connections that left the pool through detach() and were not closed by their holder
    det_conns = []
    for k in range(nops):
        al = _halphabet(len(holders), len(zombies))
        if k == 0:
            assume(a0 < len(al))
            op, w = al[a0]
        elif k == 1:
            lo, hi = (len(al) * b1) // 3, (len(al) * (b1 + 1)) // 3
            assume(lo < hi)
            op, w = al[lo + pick(codes[0], hi - lo)]
        else:
            op, w = al[pick(codes[k - 1], len(al))]
        if op in (0, 3):
            srv.fail_connect = op == 3
            n0 = len(srv.connections)
            got, f = _hconnect(pool, live)
            srv.fail_connect = False
            if m_idle:
                cid = m_idle[-1] if lifo else m_idle[0]
                if cid >= 0:
                    exp = "ok"
                    expid = cid
                else:
                    exp = "creator" if op == 3 else "ok"
                    expid = n0
                if lifo:
                    m_idle.pop()
                else:
                    m_idle.pop(0)
                if exp != "ok":
                    m_idle.append(-1)  # the record goes back to the queue (at the "newest" end)
            elif M > -1 and m_over >= M:
                exp = "timeout"
                expid = -2
            else:
                exp = "creator" if op == 3 else "ok"
                expid = n0
                if exp == "ok":
                    m_over += 1
            if got != exp:
                return _no("checkout:outcome")
            if got == "ok":
                if f.dbapi_connection.id != expid or f.dbapi_connection.closed:
                    return _no("checkout:wrong-connection")
                if expid in m_held:
                    return _no("checkout:connection-already-held")
                holders.append(f)
                m_held.append(expid)
            f = None
        elif op in (1, 2, 4, 5):
            cid = m_held.pop(w)
            conn = holders[w].dbapi_connection
            if op == 1:
                holders[w].close()
                keep = cid
            elif op == 2:
                holders[w].invalidate()
                keep = -1
            elif op == 4:
                holders[w].detach()
                keep = -1
                if holders[w].dbapi_connection is not conn or holders[w]._connection_record is not None:
                    return _no("detach:fairy-state")
            else:
                keep = cid
            if op == 5:
                assume(_hdrop(holders, w, live))
            else:
                zombies.append(holders.pop(w))
            if op == 4:
                m_det += 1
                det_conns.append(conn)
                if conn.closed:
                    return _no("detach:connection-closed")
            if len(m_idle) < S:
                m_idle.append(keep)
                if op != 4 and conn.closed != (keep == -1):
                    return _no("return:connection-closed-state")
            else:
                m_over -= 1
                if op != 4 and not conn.closed:
                    return _no("return:overflow-connection-not-closed")
            conn = None
        else:
            # a stale finalizer: nothing may change
            assume(_hdrop(zombies, w, live))
        # compare with the model after every operation
        real_idle = [(-1 if c is None else c.id) for c in _idle_conns(pool)]
        if real_idle != m_idle:
            return _no("model:idle-queue")
        if pool.checkedin() != len(m_idle) or pool.checkedout() != len(m_held) or pool._overflow != m_over:
            return _no("model:counters")
        if pool.overflow() != m_over or pool.size() != S:
            return _no("model:counters")
        nopen = len(srv.open_connections())
        if nopen != len(m_held) + len([x for x in m_idle if x >= 0]) + m_det:
            return _no("model:open-connections")
        if M > -1 and nopen - m_det > S + M:
            return _no("limit:open-connections")
        if len(m_idle) > S:
            return _no("limit:idle")
        # nobody shares a connection: live checkouts, detached connections, idle records
        cs = [h.dbapi_connection for h in holders] + det_conns + [c for c in _idle_conns(pool) if c is not None]
        for i in range(len(cs)):
            for j in range(i + 1, len(cs)):
                if cs[i] is cs[j]:
                    return _no("shared-connection")
        for i in range(len(holders)):
            rec = holders[i]._connection_record
            if rec is None or rec.fairy_ref is None or rec.fairy_ref() is not holders[i] or holders[i].dbapi_connection.id != m_held[i]:
                return _no("holder:record-no-longer-checked-out-by-it")
            if rec.dbapi_connection is not holders[i].dbapi_connection or holders[i].dbapi_connection.closed:
                return _no("holder:connection")
    return True


# ------------------------------------------------------------------------------------------
# the one-line pools


class _Tid:
    """Sequential emulation of thread identities for SingletonThreadPool: each emulated thread has its own
    pair of ``threading.local`` objects which is swapped into the pool while that 'thread' runs."""

    def __init__(self, pool, n):
        self.pool = pool
        self.locals = [(pool._conn, pool._fairy)] + [(threading.local(), threading.local()) for _ in range(n - 1)]

    def switch(self, t):
        self.pool._conn, self.pool._fairy = self.locals[t]


def h_simple(kind: str, nops: int, size: int, w0: int, op1: int, ops: List[int], whichs: List[int]) -> bool:
    assume(len(ops) == nops and len(whichs) == nops)
    # slicing only: the first operation is necessarily a checkout
    assume(ops[0] == 0 and whichs[0] == w0 and ops[1] == op1)
    live: list = []
    try:
        return _simple(live, kind, nops, size, ops, whichs)
    finally:
        _release(None, live)


def _simple(live, kind, nops, size, ops, whichs):
    """ops: 0 checkout (SingletonThreadPool: by emulated thread ``w``), 1 return holder[w], 2 invalidate
    holder[w]."""
    assume(len(ops) == nops and len(whichs) == nops)
    srv = _Srv()
    if kind == "NullPool":
        pool = sa_pool.NullPool(srv.connect)
    elif kind == "StaticPool":
        pool = sa_pool.StaticPool(srv.connect)
    elif kind == "AssertionPool":
        pool = sa_pool.AssertionPool(srv.connect, store_traceback=False)
    else:
        pool = sa_pool.SingletonThreadPool(srv.connect, pool_size=size)
        tids = _Tid(pool, 3)
    holders = []
    owner = []  # SingletonThreadPool: emulated thread of each holder
    for k in range(nops):
        op = ops[k]
        w = whichs[k]
        assume(0 <= op <= 2)
        op = int(op)
        if op == 0:
            if kind == "SingletonThreadPool":
                assume(0 <= w <= 2)
                w = int(w)
                tids.switch(w)
            else:
                assume(w == 0)
            n0 = len(srv.connections)
            try:
                f = pool.connect()
                live.append(f)
                got = "ok"
            except AssertionError:
                got = "assert"
            if kind == "NullPool":
                # always a brand-new connection
                if got != "ok" or f.dbapi_connection.id != n0:
                    return False
            elif kind == "AssertionPool":
                if (got == "assert") != (len(holders) > 0):
                    return False
                if got == "ok" and f.dbapi_connection.closed:
                    return False
            elif kind == "StaticPool":
                if got != "ok" or f.dbapi_connection.closed:
                    return False
            else:
                if got != "ok":
                    return False
                reentrant = any(h is f for h in holders)
                if not reentrant and f.dbapi_connection.closed:
                    return False
                # one connection per thread identity: never the connection of a live holder of another thread
                for j in range(len(holders)):
                    if owner[j] != w and holders[j].dbapi_connection is f.dbapi_connection:
                        return False
                    if owner[j] == w and holders[j] is not f:
                        return False  # same thread: the very same fairy (re-entrant checkout)
                if len(pool._all_conns) > size:
                    return False
            if got == "ok":
                holders.append(f)
                owner.append(w)
        else:
            assume(len(holders) > 0)
            assume(0 <= w < len(holders))
            w = int(w)
            f = holders.pop(w)
            t = owner.pop(w)
            if kind == "SingletonThreadPool":
                tids.switch(t)
            conn = f.dbapi_connection
            if op == 1:
                f.close()
                if kind == "NullPool" and not conn.closed:
                    return False
            else:
                if kind == "SingletonThreadPool":
                    # the same fairy may be held several times (re-entrant); drop all its entries
                    j = 0
                    while j < len(holders):
                        if holders[j] is f:
                            holders.pop(j)
                            owner.pop(j)
                        else:
                            j += 1
                if f.dbapi_connection is not None:
                    f.invalidate()
                    if not conn.closed:
                        return False
        nopen = len(srv.open_connections())
        if kind == "NullPool":
            if nopen != len(holders):
                return False
            cs = [h.dbapi_connection for h in holders]
            for i in range(len(cs)):
                for j in range(i + 1, len(cs)):
                    if cs[i] is cs[j]:
                        return False
        elif kind in ("StaticPool", "AssertionPool"):
            if nopen > 1:
                return False
            if kind == "AssertionPool" and len(holders) > 1:
                return False
        else:
            if len(pool._all_conns) > size:
                return False
    return True


# ------------------------------------------------------------------------------------------

META = {
    "explanation": "QueuePool counters and limits decided as ONE sequential step (checkout / checkout with a failing "
                   "creator / return / return with failing reset / invalidate / soft-invalidate) from an arbitrary pre-state "
                   "that satisfies the representation invariant, with pool._overflow and max_overflow symbolic integers "
                   "(never realised except in the TimeoutError message) and real _ConnectionRecord objects in the real "
                   "util.queue.Queue (FIFO and LIFO); plus short sequential histories against a counting model that also "
                   "fixes the FIFO/LIFO reuse order, and the one-line pools.  Thread schedules are NOT explored.",
    "functions": [
        "pool.impl.QueuePool.{__init__,_do_get,_do_return_conn,_inc_overflow,_dec_overflow,checkedout,checkedin,overflow,size}",
        "util.queue.Queue.{put,get,_full,_empty,_qsize,qsize,_put,_get} (FIFO and use_lifo=True)",
        "pool.base._ConnectionRecord.{checkout,checkin,_checkin_failed,get_connection,invalidate,close}",
        "pool.base._ConnectionFairy.{_checkout,close,invalidate,detach,_checkin}, pool.base._finalize_fairy (explicit route, weakref/gc route, "
        "stale-finalizer guard `connection_record.fairy_ref is not ref`)",
        "pool.impl.NullPool.{_do_get,_do_return_conn}", "pool.impl.StaticPool.{_do_get,_do_return_conn,connection}",
        "pool.impl.AssertionPool.{_do_get,_do_return_conn}",
        "pool.impl.SingletonThreadPool.{_do_get,_cleanup,_do_return_conn,connect}",
    ],
    "bounds": {
        "quick": {"pool_size": "1..4 (concrete per slice)", "max_overflow": "-1..3 symbolic", "_overflow": "symbolic, any integer allowed by the invariant",
                  "idle records": "0..pool_size, each with or without a DBAPI connection (symbolic)",
                  "materialised holders": "0..2 (the remaining held-nreal holders are implied by the counters)",
                  "history": "<=4 ops over {checkout, return, invalidate, failing-creator checkout, detach, drop a live fairy without close + gc, "
                             "drop (+gc) a fairy object released earlier = stale finalizer, possibly after its slot was checked out again}, pool_size 1..2, max_overflow in {-1,0,1}",
                  "step ops": STEP_OPS,
                  "simple pools": "<=4 ops"},
        "thorough": {"pool_size": "1..6", "max_overflow": "-1..3 symbolic", "_overflow": "symbolic", "idle records": "0..pool_size",
                     "materialised holders": "0..2", "history": "<=5 ops (same alphabet), pool_size 1..3, max_overflow in {-1,0,1,2}", "simple pools": "<=5 ops"},
    },
    "outside": [
        "THREAD SCHEDULES (the property's stated quantifier): preemption between the unlocked read of _overflow in _do_get and "
        "_inc_overflow, condition-variable wake-ups / a waiting checkout served by a later return, weakref-triggered check-ins on another thread",
        "AsyncAdaptedQueuePool / asyncio tasks", "timeout > 0 (blocking get)", "pool_size=0 (unbounded queue)",
        "SingletonThreadPool with real threads (thread identities are emulated sequentially); which connection _cleanup() discards",
        "StaticPool soft invalidation (documented as only partially supported)",
    ],
    "stubs": ["creator = vlib.fakedb FakeServer.connect (can be told to raise)", "logging disabled (logging.disable(CRITICAL))"],
    "assumptions": [
        "QueuePool representation invariant assumed for the pre-state and re-established by every step: -pool_size <= _overflow; "
        "_overflow <= max_overflow when max_overflow > -1; 0 <= idle <= pool_size; idle <= pool_size + _overflow "
        "(checkedout() = pool_size - idle + _overflow >= number of live holders); idle and held records are disjoint; a released fairy object "
        "that is still referenced has a weakref different from the fairy_ref of the record's current checkout",
        "a fairy whose last reference is dropped is finalized immediately (CPython reference counting; gc.collect() as fallback) -- paths where it "
        "is not are discarded",
        "induction: the fresh pool (_overflow = -pool_size, empty queue) satisfies the invariant; every sequential history is a chain of the verified steps",
    ],
}


def harnesses(tier: str) -> List[Harness]:
    q = tier == "quick"
    hs: List[Harness] = []
    sizes = (1, 2, 3, 4) if q else (1, 2, 3, 4, 5, 6)
    step = []
    for S in sizes:
        for lifo in (False, True):
            for idle in range(0, S + 1):
                for op in STEP_OPS:
                    if op.endswith("_overflow"):
                        step.append(dict(op=op, S=S, lifo=lifo, idle=idle, nreal=0))
                    elif op.startswith("stale_"):
                        for nreal in (1, 2):
                            step.append(dict(op=op, S=S, lifo=lifo, idle=idle, nreal=nreal))
                    elif op.startswith("checkout"):
                        for nreal in (0, 1):
                            step.append(dict(op=op, S=S, lifo=lifo, idle=idle, nreal=nreal))
                    else:
                        for nreal in (1, 2):
                            step.append(dict(op=op, S=S, lifo=lifo, idle=idle, nreal=nreal))
    hs.append(Harness("step", h_step, step, budget_s=60 if q else 300))
    hist = []
    n = 4 if q else 5
    for S in ((1, 2) if q else (1, 2, 3)):
        for M in ((-1, 0, 1) if q else (-1, 0, 1, 2)):
            for lifo in (False, True):
                for a0 in (0, 1):
                    for b1 in ((0, 1, 2) if a0 == 0 else (1, 2)):  # after a failed checkout the alphabet has 2 entries (thirds 1 and 2)
                        hist.append(dict(S=S, M=M, lifo=lifo, nops=n, a0=a0, b1=b1))
    hs.append(Harness("history", h_history, hist, budget_s=150 if q else 900))
    simple = []
    for op1 in (0, 1, 2):
        for kind in ("NullPool", "StaticPool", "AssertionPool"):
            simple.append(dict(kind=kind, nops=n, size=0, w0=0, op1=op1))
        for size in (1, 2, 3):
            for w0 in (0,):  # emulated thread identities are interchangeable: first checkout by thread 0 w.l.o.g.
                simple.append(dict(kind="SingletonThreadPool", nops=n, size=size, w0=w0, op1=op1))
    hs.append(Harness("simple", h_simple, simple, budget_s=150 if q else 900))
    return hs


def classify(hname, args, rep):
    if hname == "step":
        return ("C25:step:%s:%s:idle%s" % (args["op"], "lifo" if args["lifo"] else "fifo",
                                            "0" if args["idle"] == 0 else ("full" if args["idle"] == args["S"] else "some")),
                "QueuePool step %s from pre-state S=%s idle=%s max_overflow=%s _overflow=%s empties=%s breaks the invariant/effect (%s)"
                % (args["op"], args["S"], args["idle"], args.get("M"), args.get("O"), args.get("empties"), rep.get("exception")))
    if hname == "history":
        from vlib import symx

        del _WHY[:]
        symx.run_concrete(h_history, args)
        why = _WHY[0] if _WHY else "exception:" + str(rep.get("exception"))[:60]
        # re-decode the operations (checkout outcomes are needed for the alphabet: approximate by the model-free walk)
        names = []
        try:
            nh = nz = 0
            codes = [args.get("c%d" % i) for i in range(1, 5)]
            for k in range(args["nops"]):
                al = _halphabet(nh, nz)
                if k == 1:
                    lo, hi = (len(al) * args["b1"]) // 3, (len(al) * (args["b1"] + 1)) // 3
                    al = al[lo:hi]
                op, w = al[args["a0"]] if k == 0 else al[max(0, min(len(al) - 1, codes[k - 1]))]
                names.append(HOPS[op] if op in (0, 3) else "%s(%d)" % (HOPS[op], w))
                if op == 0:
                    nh += 1  # (a checkout that times out leaves nh unchanged; the description is then approximate)
                elif op in (1, 2, 4):
                    nh, nz = nh - 1, nz + 1
                elif op == 5:
                    nh -= 1
                elif op == 6:
                    nz -= 1
        except Exception:
            pass
        stale = "stale-finalizer" if any(n.startswith("drop_released") for n in names) else ("detach" if any(n.startswith("detach") for n in names) else "plain")
        return ("C25:history:%s:%s:%s" % (why, "lifo" if args["lifo"] else "fifo", stale),
                "QueuePool(pool_size=%s,max_overflow=%s,lifo=%s) history %s: %s" % (args["S"], args["M"], args["lifo"], names, why))
    return ("C25:%s:ops=%s" % (args.get("kind"), args.get("ops")),
            "%s history %s/%s violates its contract (%s)" % (args.get("kind"), args.get("ops"), args.get("whichs"), rep.get("exception")))


def run(tier: str, seed: int):
    return framework.run_symx(PID, __name__, tier, seed, harnesses(tier), classify, META)
