"""C25 Pool limits and counters -- SEQUENTIAL part only (E1 symx).

The property's stated quantifier is *thread schedules*; those are outside this engine family and outside
the claim (see META["outside"]).  What is decided here:

* ``step``: ONE pool operation from an ARBITRARY pre-state satisfying the representation invariant of
  QueuePool (``_overflow`` and ``max_overflow`` stay symbolic integers, the idle records are real
  ``_ConnectionRecord`` objects in the real queue) re-establishes the invariant and has exactly the
  documented effect.  By induction this covers sequential histories of any length.
* ``history``: short sequential histories from a fresh QueuePool against a counting model, including the
  FIFO / LIFO order in which idle connections are reused.
* ``simple``: short histories over NullPool / StaticPool / AssertionPool / SingletonThreadPool (thread
  identities emulated sequentially).
"""
from __future__ import annotations

import logging
import threading
from typing import List

from vlib import fakedb, framework
from vlib.framework import Harness
from vlib.symx import assume

from sqlalchemy import exc as sa_exc
from sqlalchemy import pool as sa_pool

PID = "C25"

# error logging of the pool ("%r" of connections) is not part of the property and is slow under the tracer
logging.disable(logging.CRITICAL)

STEP_OPS = ["checkout", "checkout_creator_fails", "return", "return_reset_fails", "invalidate_return",
            "soft_invalidate_return", "inc_overflow", "dec_overflow"]


class _Srv(fakedb.FakeServer):
    """FakeServer whose ``connect`` can be told to fail (a creator that raises)."""

    def __init__(self):
        super().__init__()
        self.fail_connect = False
        self.creator_calls = 0

    def connect(self):
        self.creator_calls += 1
        if self.fail_connect:
            raise fakedb.OperationalError("fake: cannot connect")
        return super().connect()


def _idle_conns(pool):
    return [r.dbapi_connection for r in list(pool._pool.queue)]


def _inv(pool, S, M, O, idle):
    """Representation invariant of QueuePool (sequential)."""
    if not (O >= -S):
        return False
    if not (idle <= S and idle <= S + O and idle >= 0):
        return False
    if M > -1 and not (O <= M):
        return False
    return True


def _release(pool, live) -> None:
    """End of a path: make the counters concrete again and release every fairy *now*, so that no weakref
    finalizer runs later (outside the tracer) on symbolic counters."""
    if hasattr(pool, "_max_overflow"):
        pool._max_overflow = -1
        pool._overflow = 0
    for f in live:
        try:
            rec = f._connection_record
            if rec is not None:
                rec.fairy_ref = None
            f._connection_record = None
            f.dbapi_connection = None
        except Exception:
            pass
    del live[:]


def h_step(op: str, S: int, lifo: bool, idle: int, nreal: int, M: int, O: int, empties: List[bool],
           which: int) -> bool:
    live: list = []
    box: list = []
    try:
        return _step(live, box, op, S, lifo, idle, nreal, M, O, empties, which)
    finally:
        if box:
            _release(box[0], live)


def _step(live, box, op, S, lifo, idle, nreal, M, O, empties, which):
    """One operation from an arbitrary valid pre-state.

    S pool_size, idle = records sitting in the queue, nreal = materialised live checkouts (0..2; the other
    ``held - nreal`` holders implied by the counters are not touched by the operation), M = max_overflow and
    O = _overflow SYMBOLIC, empties[i] = idle record i has no DBAPI connection (left by invalidate())."""
    assume(len(empties) == idle)
    assume(-1 <= M <= 3)
    # representation invariant; held = S - idle + O live checkouts
    assume(O >= -S)
    assume(idle <= S + O)
    if M > -1:
        assume(O <= M)
    held0 = S - idle + O
    assume(held0 >= nreal)
    assume(0 <= which < max(nreal, 1))
    srv = _Srv()
    pool = sa_pool.QueuePool(srv.connect, pool_size=S, max_overflow=-1, timeout=0, use_lifo=lifo)
    box.append(pool)
    # build the concrete part of the pre-state through the public API
    fairies = [pool.connect() for _ in range(idle + nreal)]
    live.extend(fairies)
    for i in range(idle):
        fairies[i].close()
    holders = fairies[idle:]
    recs = list(pool._pool.queue)
    if len(recs) != idle:
        return False
    for i in range(idle):
        if empties[i]:
            recs[i].invalidate()
    # the symbolic part
    pool._max_overflow = M
    pool._overflow = O
    if pool.checkedout() != held0 or pool.checkedin() != idle or pool.size() != S:
        return False
    held_conns = [f.dbapi_connection for f in holders]
    idle_before = _idle_conns(pool)
    nconn0 = len(srv.connections)
    calls0 = srv.creator_calls
    open0 = len(srv.open_connections())

    if op in ("checkout", "checkout_creator_fails"):
        srv.fail_connect = op == "checkout_creator_fails"
        err = None
        fairy = None
        try:
            fairy = pool.connect()
            live.append(fairy)
        except sa_exc.TimeoutError:
            err = "timeout"
        except fakedb.OperationalError:
            err = "creator"
        O1 = pool._overflow
        idle1 = pool.checkedin()
        if not _inv(pool, S, M, O1, idle1):
            return False
        if idle > 0:
            head = recs[-1] if lifo else recs[0]
            head_empty = empties[-1] if lifo else empties[0]
            if err == "timeout":
                return False  # something was idle: must be served
            if not head_empty:
                # served from idle, creator not called whatever it would do
                if err is not None or srv.creator_calls != calls0:
                    return False
                if fairy._connection_record is not head or fairy.dbapi_connection is not idle_before[-1 if lifo else 0]:
                    return False
                if idle1 != idle - 1 or O1 != O or pool.checkedout() != held0 + 1:
                    return False
            else:
                # an idle record without a connection: reconnects through the creator
                if srv.creator_calls != calls0 + 1:
                    return False
                if srv.fail_connect:
                    if err != "creator":
                        return False
                    # every counter unchanged, the record is idle again
                    if idle1 != idle or O1 != O or pool.checkedout() != held0:
                        return False
                    if len(srv.connections) != nconn0:
                        return False
                    return head in list(pool._pool.queue)
                if err is not None or fairy._connection_record is not head:
                    return False
                if idle1 != idle - 1 or O1 != O or pool.checkedout() != held0 + 1:
                    return False
        else:
            at_limit = M > -1 and O >= M
            if at_limit:
                # nothing idle and the limit is reached: TimeoutError (timeout=0), nothing changes
                if err != "timeout" or srv.creator_calls != calls0:
                    return False
                return idle1 == 0 and O1 == O and pool.checkedout() == held0
            if err == "timeout":
                return False
            if srv.creator_calls != calls0 + 1:
                return False
            if srv.fail_connect:
                if err != "creator":
                    return False
                return idle1 == 0 and O1 == O and pool.checkedout() == held0 and len(srv.connections) == nconn0
            if err is not None:
                return False
            if idle1 != 0 or O1 != O + 1 or pool.checkedout() != held0 + 1:
                return False
        # success: the connection handed out is open, not held by anybody else, and is either one that
        # was idle or a brand-new one
        c = fairy.dbapi_connection
        if c is None or c.closed:
            return False
        for h in held_conns:
            if h is c:
                return False
        fresh = c.id >= nconn0
        was_idle = any(x is c for x in idle_before)
        if fresh == was_idle:
            return False
        if M > -1 and not (pool.checkedin() + pool.checkedout() <= S + M):
            return False
        return len(srv.open_connections()) <= open0 + 1

    if op == "inc_overflow":
        # the function's own contract (it is what the unlocked pre-check in _do_get relies on)
        r = pool._inc_overflow()
        O1 = pool._overflow
        if r is not (True if (M == -1 or O < M) else False):
            return False
        if O1 != (O + 1 if r else O):
            return False
        return _inv(pool, S, M, O1, idle) and pool.checkedin() == idle
    if op == "dec_overflow":
        r = pool._dec_overflow()
        return r is True and pool._overflow == O - 1 and pool.checkedin() == idle

    # return-type operations need one materialised holder
    fairy = holders[which]
    rec = fairy._connection_record
    conn = fairy.dbapi_connection
    if op == "return":
        fairy.close()
    elif op == "return_reset_fails":
        srv.faults[srv.calls + 1] = "error"  # the rollback-on-return raises
        fairy.close()
    elif op == "invalidate_return":
        fairy.invalidate()
        fairy.close()
    elif op == "soft_invalidate_return":
        fairy.invalidate(soft=True)
        fairy.close()
    else:
        raise AssertionError(op)
    O1 = pool._overflow
    idle1 = pool.checkedin()
    if not _inv(pool, S, M, O1, idle1):
        return False
    if pool.checkedout() != held0 - 1:
        return False
    if srv.creator_calls != calls0:
        return False
    if idle < S:
        # room in the queue: the record becomes idle, overflow untouched
        if idle1 != idle + 1 or O1 != O:
            return False
        q = list(pool._pool.queue)
        if q[-1] is not rec or q[:-1] != recs:
            return False
        closed_expected = op in ("return_reset_fails", "invalidate_return")
    else:
        # queue full: the connection is closed and the overflow counter decremented
        if idle1 != idle or O1 != O - 1:
            return False
        if list(pool._pool.queue) != recs:
            return False
        closed_expected = True
    if conn.closed != closed_expected:
        return False
    if closed_expected and rec.dbapi_connection is not None:
        return False
    if (not closed_expected) and (rec.dbapi_connection is not conn or conn.rollbacks != 1):
        return False
    if rec.fairy_ref is not None:
        return False
    if M > -1 and not (pool.checkedin() + pool.checkedout() <= S + M):
        return False
    # the other holder is untouched
    for j in range(len(holders)):
        if j != which and (holders[j].dbapi_connection is not held_conns[j] or held_conns[j].closed):
            return False
    return True


# ------------------------------------------------------------------------------------------
# short sequential histories from a fresh QueuePool against a counting model


def h_history(S: int, M: int, lifo: bool, nops: int, op0: int, ops: List[int], whichs: List[int]) -> bool:
    live: list = []
    try:
        return _history(live, S, M, lifo, nops, op0, ops, whichs)
    finally:
        _release(None, live)


def _history(live, S, M, lifo, nops, op0, ops, whichs):
    """ops: 0 checkout, 1 return holder[w], 2 invalidate holder[w], 3 checkout with a failing creator."""
    assume(len(ops) == nops and len(whichs) == nops)
    assume(ops[0] == op0)
    srv = _Srv()
    pool = sa_pool.QueuePool(srv.connect, pool_size=S, max_overflow=M, timeout=0, use_lifo=lifo)
    holders = []  # fairies
    m_idle: List[int] = []  # model: connection ids in the queue, left = oldest returned; -1 = empty record
    m_held: List[int] = []
    m_over = -S
    for k in range(nops):
        op = ops[k]
        w = whichs[k]
        assume(0 <= op <= 3)
        op = int(op)
        if op in (0, 3):
            assume(w == 0)
            srv.fail_connect = op == 3
            n0 = len(srv.connections)
            try:
                f = pool.connect()
                live.append(f)
                got = "ok"
            except sa_exc.TimeoutError:
                got = "timeout"
            except fakedb.OperationalError:
                got = "creator"
            srv.fail_connect = False
            if m_idle:
                cid = m_idle[-1] if lifo else m_idle[0]
                if cid >= 0:
                    exp = "ok"
                    expid = cid
                else:
                    exp = "creator" if op == 3 else "ok"
                    expid = n0
                if exp == "ok":
                    if lifo:
                        m_idle.pop()
                    else:
                        m_idle.pop(0)
                else:
                    # the record goes back to the queue (at the "newest" end)
                    if lifo:
                        m_idle.pop()
                    else:
                        m_idle.pop(0)
                    m_idle.append(-1)
            elif M > -1 and m_over >= M:
                exp = "timeout"
                expid = -2
            else:
                exp = "creator" if op == 3 else "ok"
                expid = n0
                if exp == "ok":
                    m_over += 1
            if got != exp:
                return False
            if got == "ok":
                if f.dbapi_connection.id != expid or f.dbapi_connection.closed:
                    return False
                if expid in m_held:
                    return False
                holders.append(f)
                m_held.append(expid)
        else:
            assume(len(holders) > 0)
            assume(0 <= w < len(holders))
            w = int(w)
            f = holders.pop(w)
            cid = m_held.pop(w)
            conn = f.dbapi_connection
            if op == 1:
                f.close()
                keep = cid
            else:
                f.invalidate()
                keep = -1
            if len(m_idle) < S:
                m_idle.append(keep)
                if conn.closed != (keep == -1):
                    return False
            else:
                m_over -= 1
                if not conn.closed:
                    return False
        # compare with the model after every operation
        real_idle = [(-1 if c is None else c.id) for c in _idle_conns(pool)]
        if real_idle != m_idle:
            return False
        if pool.checkedin() != len(m_idle) or pool.checkedout() != len(m_held) or pool._overflow != m_over:
            return False
        if pool.overflow() != m_over or pool.size() != S:
            return False
        nopen = len(srv.open_connections())
        if nopen != len(m_held) + len([x for x in m_idle if x >= 0]):
            return False
        if M > -1 and nopen > S + M:
            return False
        if len(m_idle) > S:
            return False
        # nobody shares a connection
        cs = [h.dbapi_connection for h in holders]
        for i in range(len(cs)):
            for j in range(i + 1, len(cs)):
                if cs[i] is cs[j]:
                    return False
    return True


# ------------------------------------------------------------------------------------------
# the one-line pools


class _Tid:
    """Sequential emulation of thread identities for SingletonThreadPool: each emulated thread has its own
    pair of ``threading.local`` objects which is swapped into the pool while that 'thread' runs."""

    def __init__(self, pool, n):
        self.pool = pool
        self.locals = [(pool._conn, pool._fairy)] + [(threading.local(), threading.local()) for _ in range(n - 1)]

    def switch(self, t):
        self.pool._conn, self.pool._fairy = self.locals[t]


def h_simple(kind: str, nops: int, size: int, w0: int, op1: int, ops: List[int], whichs: List[int]) -> bool:
    assume(len(ops) == nops and len(whichs) == nops)
    # slicing only: the first operation is necessarily a checkout
    assume(ops[0] == 0 and whichs[0] == w0 and ops[1] == op1)
    live: list = []
    try:
        return _simple(live, kind, nops, size, ops, whichs)
    finally:
        _release(None, live)


def _simple(live, kind, nops, size, ops, whichs):
    """ops: 0 checkout (SingletonThreadPool: by emulated thread ``w``), 1 return holder[w], 2 invalidate
    holder[w]."""
    assume(len(ops) == nops and len(whichs) == nops)
    srv = _Srv()
    if kind == "NullPool":
        pool = sa_pool.NullPool(srv.connect)
    elif kind == "StaticPool":
        pool = sa_pool.StaticPool(srv.connect)
    elif kind == "AssertionPool":
        pool = sa_pool.AssertionPool(srv.connect, store_traceback=False)
    else:
        pool = sa_pool.SingletonThreadPool(srv.connect, pool_size=size)
        tids = _Tid(pool, 3)
    holders = []
    owner = []  # SingletonThreadPool: emulated thread of each holder
    for k in range(nops):
        op = ops[k]
        w = whichs[k]
        assume(0 <= op <= 2)
        op = int(op)
        if op == 0:
            if kind == "SingletonThreadPool":
                assume(0 <= w <= 2)
                w = int(w)
                tids.switch(w)
            else:
                assume(w == 0)
            n0 = len(srv.connections)
            try:
                f = pool.connect()
                live.append(f)
                got = "ok"
            except AssertionError:
                got = "assert"
            if kind == "NullPool":
                # always a brand-new connection
                if got != "ok" or f.dbapi_connection.id != n0:
                    return False
            elif kind == "AssertionPool":
                if (got == "assert") != (len(holders) > 0):
                    return False
                if got == "ok" and f.dbapi_connection.closed:
                    return False
            elif kind == "StaticPool":
                if got != "ok" or f.dbapi_connection.closed:
                    return False
            else:
                if got != "ok":
                    return False
                reentrant = any(h is f for h in holders)
                if not reentrant and f.dbapi_connection.closed:
                    return False
                # one connection per thread identity: never the connection of a live holder of another thread
                for j in range(len(holders)):
                    if owner[j] != w and holders[j].dbapi_connection is f.dbapi_connection:
                        return False
                    if owner[j] == w and holders[j] is not f:
                        return False  # same thread: the very same fairy (re-entrant checkout)
                if len(pool._all_conns) > size:
                    return False
            if got == "ok":
                holders.append(f)
                owner.append(w)
        else:
            assume(len(holders) > 0)
            assume(0 <= w < len(holders))
            w = int(w)
            f = holders.pop(w)
            t = owner.pop(w)
            if kind == "SingletonThreadPool":
                tids.switch(t)
            conn = f.dbapi_connection
            if op == 1:
                f.close()
                if kind == "NullPool" and not conn.closed:
                    return False
            else:
                if kind == "SingletonThreadPool":
                    # the same fairy may be held several times (re-entrant); drop all its entries
                    j = 0
                    while j < len(holders):
                        if holders[j] is f:
                            holders.pop(j)
                            owner.pop(j)
                        else:
                            j += 1
                if f.dbapi_connection is not None:
                    f.invalidate()
                    if not conn.closed:
                        return False
        nopen = len(srv.open_connections())
        if kind == "NullPool":
            if nopen != len(holders):
                return False
            cs = [h.dbapi_connection for h in holders]
            for i in range(len(cs)):
                for j in range(i + 1, len(cs)):
                    if cs[i] is cs[j]:
                        return False
        elif kind in ("StaticPool", "AssertionPool"):
            if nopen > 1:
                return False
            if kind == "AssertionPool" and len(holders) > 1:
                return False
        else:
            if len(pool._all_conns) > size:
                return False
    return True


# ------------------------------------------------------------------------------------------

META = {
    "explanation": "QueuePool counters and limits decided as ONE sequential step (checkout / checkout with a failing "
                   "creator / return / return with failing reset / invalidate / soft-invalidate) from an arbitrary pre-state "
                   "that satisfies the representation invariant, with pool._overflow and max_overflow symbolic integers "
                   "(never realised except in the TimeoutError message) and real _ConnectionRecord objects in the real "
                   "util.queue.Queue (FIFO and LIFO); plus short sequential histories against a counting model that also "
                   "fixes the FIFO/LIFO reuse order, and the one-line pools.  Thread schedules are NOT explored.",
    "functions": [
        "pool.impl.QueuePool.{__init__,_do_get,_do_return_conn,_inc_overflow,_dec_overflow,checkedout,checkedin,overflow,size}",
        "util.queue.Queue.{put,get,_full,_empty,_qsize,qsize,_put,_get} (FIFO and use_lifo=True)",
        "pool.base._ConnectionRecord.{checkout,checkin,_checkin_failed,get_connection,invalidate,close}",
        "pool.base._ConnectionFairy.{_checkout,close,invalidate,_checkin}, pool.base._finalize_fairy",
        "pool.impl.NullPool.{_do_get,_do_return_conn}", "pool.impl.StaticPool.{_do_get,_do_return_conn,connection}",
        "pool.impl.AssertionPool.{_do_get,_do_return_conn}",
        "pool.impl.SingletonThreadPool.{_do_get,_cleanup,_do_return_conn,connect}",
    ],
    "bounds": {
        "quick": {"pool_size": "1..4 (concrete per slice)", "max_overflow": "-1..3 symbolic", "_overflow": "symbolic, any integer allowed by the invariant",
                  "idle records": "0..pool_size, each with or without a DBAPI connection (symbolic)",
                  "materialised holders": "0..2 (the remaining held-nreal holders are implied by the counters)",
                  "history": "<=4 ops over {checkout, return, invalidate, failing-creator checkout}, pool_size 1..2, max_overflow in {-1,0,1}",
                  "simple pools": "<=4 ops"},
        "thorough": {"pool_size": "1..6", "max_overflow": "-1..3 symbolic", "_overflow": "symbolic", "idle records": "0..pool_size",
                     "materialised holders": "0..2", "history": "<=5 ops, pool_size 1..3, max_overflow in {-1,0,1,2}", "simple pools": "<=5 ops"},
    },
    "outside": [
        "THREAD SCHEDULES (the property's stated quantifier): preemption between the unlocked read of _overflow in _do_get and "
        "_inc_overflow, condition-variable wake-ups / a waiting checkout served by a later return, weakref-triggered check-ins on another thread",
        "AsyncAdaptedQueuePool / asyncio tasks", "timeout > 0 (blocking get)", "pool_size=0 (unbounded queue)",
        "SingletonThreadPool with real threads (thread identities are emulated sequentially); which connection _cleanup() discards",
        "StaticPool soft invalidation (documented as only partially supported)",
    ],
    "stubs": ["creator = vlib.fakedb FakeServer.connect (can be told to raise)", "logging disabled (logging.disable(CRITICAL))"],
    "assumptions": [
        "QueuePool representation invariant assumed for the pre-state and re-established by every step: -pool_size <= _overflow; "
        "_overflow <= max_overflow when max_overflow > -1; 0 <= idle <= pool_size; idle <= pool_size + _overflow "
        "(checkedout() = pool_size - idle + _overflow >= number of live holders); idle and held records are disjoint",
        "induction: the fresh pool (_overflow = -pool_size, empty queue) satisfies the invariant; every sequential history is a chain of the verified steps",
    ],
}


def harnesses(tier: str) -> List[Harness]:
    q = tier == "quick"
    hs: List[Harness] = []
    sizes = (1, 2, 3, 4) if q else (1, 2, 3, 4, 5, 6)
    step = []
    for S in sizes:
        for lifo in (False, True):
            for idle in range(0, S + 1):
                for op in STEP_OPS:
                    if op.endswith("_overflow"):
                        step.append(dict(op=op, S=S, lifo=lifo, idle=idle, nreal=0))
                    elif op.startswith("checkout"):
                        for nreal in (0, 1):
                            step.append(dict(op=op, S=S, lifo=lifo, idle=idle, nreal=nreal))
                    else:
                        for nreal in (1, 2):
                            step.append(dict(op=op, S=S, lifo=lifo, idle=idle, nreal=nreal))
    hs.append(Harness("step", h_step, step, budget_s=60 if q else 300))
    hist = []
    n = 4 if q else 5
    for S in ((1, 2) if q else (1, 2, 3)):
        for M in ((-1, 0, 1) if q else (-1, 0, 1, 2)):
            for lifo in (False, True):
                for op0 in (0, 3):
                    hist.append(dict(S=S, M=M, lifo=lifo, nops=n, op0=op0))
    hs.append(Harness("history", h_history, hist, budget_s=150 if q else 900))
    simple = []
    for op1 in (0, 1, 2):
        for kind in ("NullPool", "StaticPool", "AssertionPool"):
            simple.append(dict(kind=kind, nops=n, size=0, w0=0, op1=op1))
        for size in (1, 2, 3):
            for w0 in (0,):  # emulated thread identities are interchangeable: first checkout by thread 0 w.l.o.g.
                simple.append(dict(kind="SingletonThreadPool", nops=n, size=size, w0=w0, op1=op1))
    hs.append(Harness("simple", h_simple, simple, budget_s=150 if q else 900))
    return hs


def classify(hname, args, rep):
    if hname == "step":
        return ("C25:step:%s:%s:idle%s" % (args["op"], "lifo" if args["lifo"] else "fifo",
                                            "0" if args["idle"] == 0 else ("full" if args["idle"] == args["S"] else "some")),
                "QueuePool step %s from pre-state S=%s idle=%s max_overflow=%s _overflow=%s empties=%s breaks the invariant/effect (%s)"
                % (args["op"], args["S"], args["idle"], args.get("M"), args.get("O"), args.get("empties"), rep.get("exception")))
    if hname == "history":
        return ("C25:history:%s:ops=%s" % ("lifo" if args["lifo"] else "fifo", args.get("ops")),
                "QueuePool(pool_size=%s,max_overflow=%s,lifo=%s) history %s/%s disagrees with the counting model (%s)"
                % (args["S"], args["M"], args["lifo"], args.get("ops"), args.get("whichs"), rep.get("exception")))
    return ("C25:%s:ops=%s" % (args.get("kind"), args.get("ops")),
            "%s history %s/%s violates its contract (%s)" % (args.get("kind"), args.get("ops"), args.get("whichs"), rep.get("exception")))


def run(tier: str, seed: int):
    return framework.run_symx(PID, __name__, tier, seed, harnesses(tier), classify, META)
