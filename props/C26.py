"""C26 The pool recovers from any fault without leaking or reusing dead connections (E1 symx).

A real ``Engine`` / ``QueuePool`` over the fake DBAPI of ``vlib.fakedb`` is driven by a symbolic history of pool
operations under a SYMBOLIC FAULT SCHEDULE: the k1-th and k2-th DBAPI-level call (connect / ping / rollback /
close / ...) raise, with k1 < k2 and the fault kinds (disconnect / ordinary error) symbolic.  ``time.time`` as
seen by ``sqlalchemy.pool.base`` is a stub clock that only moves when the history says so.

Oracle: a ledger of every fake connection ever opened, the set of live holders, and the invalidation instants.
"""
from __future__ import annotations

import gc
import logging
import os
import sys
import weakref
from typing import List

from vlib import fakedb, framework
from vlib.framework import Harness
from vlib.symx import assume, native

from sqlalchemy import exc as sa_exc
from sqlalchemy.pool import base as pool_base

PID = "C26"

# The pool logs every swallowed error with "%r" of the connection; under the tracer CrossHair's %-formatting model
# deep-realises its arguments (the fake connection -> the fake server -> the symbolic fault schedule), which would
# enumerate fault positions one by one.  Logging is not part of the property.
logging.disable(logging.CRITICAL)

# Everything imported so far is permanent: keep it out of the per-path collections (makes them cheap).
gc.collect()
gc.freeze()

# Strict ledger (default): every connection ever opened must have been close()d by the pool or sit idle in a pool.
# VERIF_C26_STRICT=0 relaxes this: a connection that the pool merely *drops* (no close() call) counts as released
# once the object has been garbage-collected (a real DBAPI connection is closed by its destructor).
STRICT_CLOSE = os.environ.get("VERIF_C26_STRICT", "1") == "1"

POOL_SIZE = 1
MAX_OVERFLOW = 1
RECYCLE = 2

OPNAMES = ["checkout", "checkin", "invalidate", "soft_invalidate", "pool_invalidate", "engine_dispose", "tick",
           "drop_gc", "server_restart", "detach", "pool_invalidate_detached"]


class _Clock:
    """Stand-in for the ``time`` module inside sqlalchemy.pool.base.  Time is an integer that advances
    (a) by ``amb`` (0 or 1) on every ordinary ``time.time()`` call, (b) by the amount of an explicit ``tick``
    operation, (c) strictly before and after every call made by ``_ConnectionRecord.invalidate`` /
    ``Pool._invalidate`` -- the assumption spelled out in the NOTE of ``_ConnectionRecord.get_connection``
    (measurable time passes between connecting and invalidating)."""

    def __init__(self, amb: int):
        self.now = 100
        self.last = 100
        self.amb = amb

    def time(self):
        name = sys._getframe(1).f_code.co_name
        if name in ("_invalidate", "invalidate"):
            self.now += 1
            t = self.now
            self.now += 1
        else:
            t = self.now
            self.now += self.amb
        self.last = t
        return t


_WHY: List[str] = []  # reason of the last oracle failure (read by classify after a concrete re-run)
_LASTLOG: List[List[str]] = []  # per-connection DBAPI call logs of the last run (for classify)
_LASTSITES: List[str] = []  # where the injected BaseExceptions fired in the last run (for classify)


def _no(reason: str) -> bool:
    _WHY.append(reason)
    return False


class _Interrupt(KeyboardInterrupt):
    """Fault kind 2: a BaseException that is not an Exception (KeyboardInterrupt, gevent Timeout, ...)."""


def _run(fn) -> str:
    """Run ONE operation under test.  -> "ok" | "error" (an Exception surfaced to the caller) | "interrupt" (the
    injected BaseException surfaced).  Nothing else is caught: in particular no control-flow exception of the
    symbolic engine."""
    try:
        fn()
    except _Interrupt:
        return "interrupt"
    except Exception as e:
        if type(e).__module__.split(".")[0] == "crosshair" or type(e).__name__ == "Assume":
            raise
        return "error"
    return "ok"


class _Conn(fakedb.FakeConnection):
    def close(self):
        # the ledger records that the pool *asked* to close, even if the close call itself is made to fail
        # (whether the connection then really is closed is ``self.closed``)
        if self.server.state[self.id] == "open":
            self.server.state[self.id] = "closed"
        try:
            super().close()
        except _Interrupt:
            # the close call was interrupted before it did anything: the connection is in fact still open and
            # healthy; the pool did attempt to close it (no leak), and using it again is harmless
            self.server.close_interrupted[self.id] = True
            raise


def _unusable(srv, c) -> bool:
    """May connection ``c`` not be handed out / sit idle any more?  (really closed, or the pool closed it)"""
    return c.closed or (srv.state[c.id] != "open" and not srv.close_interrupted[c.id])


class _Srv(fakedb.FakeServer):
    """Fake server with a symbolic fault schedule and a weak ledger of connections."""

    def __init__(self, clock: _Clock, k1, kind1, k2, kind2):
        super().__init__()
        self.clock = clock
        self.k1, self.kind1, self.k2, self.kind2 = k1, kind1, k2, kind2
        self.armed_at = None  # the fault clock starts when the pre-state has been built
        self.state: List[str] = []  # per connection id: "open" | "closed"
        self.t_open: List[int] = []
        self.gen: List[int] = []
        self.handed: List[bool] = []  # was ever handed to a holder
        self.close_interrupted: List[bool] = []
        self.cur_op = "pre-state"  # harness operation in progress (for classify)
        self.intr_sites: List[str] = []  # "<DBAPI call>-during-<operation>" of every injected BaseException
        self.oplog: List[List[str]] = []  # DBAPI calls seen by each connection ("!" = a fault was injected)
        self.refs: list = []
        self.cur_gen = 0

    def tick(self, conn, op):
        self.calls += 1
        if conn is not None:
            self.oplog[conn.id].append(op)
        if self.armed_at is not None:
            n = self.calls - self.armed_at
            kind = None
            if n == self.k1:
                kind = self.kind1
            elif n == self.k2:
                kind = self.kind2
            if kind is not None:
                # kind: <=0 ordinary DBAPI error, 1 disconnect (connection dead afterwards), >=2 BaseException
                if kind >= 2:
                    if conn is not None:
                        self.oplog[conn.id][-1] = op + "!!"
                    self.intr_sites.append(op + "-during-" + self.cur_op)
                    raise _Interrupt("fake: interrupted in " + op)
                if conn is not None:
                    self.oplog[conn.id][-1] = op + "!"
                if kind == 1:
                    if conn is not None:
                        conn.dead = True
                    raise fakedb.OperationalError("fake: disconnect")
                raise fakedb.ProgrammingError("fake: injected error in " + op)
        if conn is not None and conn.dead and op not in ("close",):
            raise fakedb.OperationalError("fake: disconnect")

    def connect(self):
        self.tick(None, "connect")
        c = _Conn(self, len(self.state))
        self.state.append("open")
        self.t_open.append(self.clock.last)
        self.gen.append(self.cur_gen)
        self.handed.append(False)
        self.close_interrupted.append(False)
        self.oplog.append(["connect"])
        self.refs.append(weakref.ref(c))
        return c

    def restart(self):
        for r in self.refs:
            c = r()
            if c is not None and not c.closed:
                c.dead = True


def _bpick(v, lo: int, hi: int) -> int:
    """Total map of a (symbolic) int onto range(lo, hi) by a balanced cascade of comparisons."""
    hi -= 1
    while lo < hi:
        mid = (lo + hi) // 2
        if v <= mid:
            hi = mid
        else:
            lo = mid + 1
    return lo


def _alphabet(nholders: int, recycle: int, prof: int, ndetached: int = 0):
    """(op, index).  prof 0: full; 1: without server_restart and drop_gc.  Ops 1-4, 7, 9 act on live holder w;
    10 = Pool._invalidate(detached fairy d, exc) -- a connection that has no pool record any more."""
    ops = [(0, 0)]
    for w in range(nholders):
        for o in (1, 2, 3, 4, 7, 9):
            if prof == 1 and o == 7:
                continue
            ops.append((o, w))
    for d in range(ndetached):
        ops.append((10, d))
    ops.append((5, 0))
    if recycle > -1:
        ops.append((6, 0))
    if prof == 0:
        ops.append((8, 0))
    return ops


class _H:
    """A live checkout as seen by the oracle."""

    def __init__(self, fairy, gen):
        self.fairy = fairy
        self.conn = fairy.dbapi_connection
        self.gen = gen


def _mk_engine(srv, pre_ping, recycle):
    eng, _ = fakedb.make_engine(server=srv, pool_size=POOL_SIZE, max_overflow=MAX_OVERFLOW, pool_timeout=0,
                                pool_pre_ping=pre_ping, pool_recycle=recycle)
    return eng


def _idle_conns(pool):
    return [r.dbapi_connection for r in list(pool._pool.queue) if r.dbapi_connection is not None]


def _counters_ok(eng, pools, srv, holders) -> bool:
    p = eng.pool
    live = len([h for h in holders if h.gen == srv.cur_gen])
    if p.checkedout() != live:
        return _no("counters:checkedout")
    if p.checkedin() > POOL_SIZE or p.checkedin() < 0:
        return _no("counters:checkedin")
    if p._overflow > MAX_OVERFLOW or p._overflow < -POOL_SIZE:
        return _no("counters:overflow")
    return True


def _abandon(h) -> None:
    """The holder forgets its fairy (no further call on it): whatever is still checked out is returned by the weakref
    finalizer.  Returns None so that the caller can clear its own variable: ``h = _abandon(h)``."""
    r = weakref.ref(h.fairy)
    h.fairy = None
    if r() is not None:
        gc.collect()
    if r() is not None:
        _run(r().close)  # something else keeps it alive: release it the ordinary way
    return None


def _checkout(eng, srv, clock, holders, soft_inv, stale_before, recycle):
    """One checkout.  Returns a holder, None (the checkout raised: errors surface to the caller), or False
    (oracle violated)."""
    t0 = clock.now
    inv0 = eng.pool._invalidate_time
    box = []
    if _run(lambda: box.append(eng.raw_connection())) != "ok":
        return None
    f = box.pop()
    c = f.dbapi_connection
    if c is None or _unusable(srv, c):
        return _no("handed-out:closed-connection")
    for h in holders:
        if h.conn is c and h.fairy.dbapi_connection is c:
            return _no("handed-out:to-two-holders")
    if c.id in soft_inv:
        return _no("handed-out:soft-invalidated")
    if srv.gen[c.id] != srv.cur_gen:
        return _no("handed-out:disposed-generation")
    if srv.t_open[c.id] < stale_before or srv.t_open[c.id] < inv0:
        return _no("handed-out:older-than-pool-invalidation")
    if recycle > -1 and t0 - srv.t_open[c.id] > recycle:
        return _no("handed-out:older-than-recycle")
    srv.handed[c.id] = True
    return _H(f, srv.cur_gen)


NCHUNK = 3


def _chunk(n: int, b: int):
    """b-th of NCHUNK contiguous chunks of range(n); b = -1: all of it."""
    if b < 0:
        return 0, n
    return (n * b) // NCHUNK, (n * (b + 1)) // NCHUNK


def _history(n, prof, pre, pre_ping, recycle, amb, a0, b1, codes, dts, k1, kind1, k2, kind2) -> bool:
    clock = _Clock(amb)
    srv = _Srv(clock, k1, kind1, k2, kind2)
    saved_time = pool_base.time
    pool_base.time = clock
    eng = None
    holders: List[_H] = []
    try:
        eng = native(lambda: _mk_engine(srv, pre_ping, recycle))
        pools = [eng.pool]
        clean_at_dispose = []  # generations that had no live checkout when they were disposed
        soft_inv: List[int] = []  # connection ids that were soft-invalidated
        stale_before = 0  # oracle's own pool-wide invalidation instant
        # pre-state (built fault-free): 0 cold engine (faults may hit the first-connect initialisation),
        # 1 one idle connection, 2 one idle connection + one live checkout, 3 one live checkout and nothing idle
        for _ in range(1 if pre == 3 else pre):
            got = _checkout(eng, srv, clock, holders, soft_inv, stale_before, recycle)
            if got is False or got is None:
                return _no("pre-state")
            holders.append(got)
            got = None
        if pre in (1, 2):
            holders.pop(0).fairy.close()
        if not _counters_ok(eng, pools, srv, holders):
            return False
        srv.armed_at = srv.calls
        detached: List[_H] = []  # holders whose fairy was detached: the connection belongs to them, not to the pool
        for k in range(n):
            al = _alphabet(len(holders), recycle, prof, len(detached))
            if k == 0:
                assume(a0 < len(al))
                op, w = al[a0]
            elif k == 1:
                lo, hi = _chunk(len(al), b1)
                if lo >= hi:
                    # this part of the partition of the second operation is empty (alphabet shorter than NCHUNK after
                    # the first operation): it contains no history; the sibling chunks cover the alphabet
                    return True
                op, w = al[_bpick(codes[k - 1], lo, hi)]
            else:
                op, w = al[_bpick(codes[k - 1], 0, len(al))]
            srv.cur_op = OPNAMES[op]
            if op == 0:
                got = _checkout(eng, srv, clock, holders, soft_inv, stale_before, recycle)
                if got is False:
                    return False
                if got is not None:
                    holders.append(got)
                got = None
            elif op == 1:
                h = holders.pop(w)
                res = _run(h.fairy.close)
                # (an interrupted release: the caller's stack unwinds and the fairy is garbage)
                h = _abandon(h)
            elif op == 2:
                h = holders.pop(w)
                res = _run(h.fairy.invalidate)
                if res == "ok" and srv.state[h.conn.id] != "closed":
                    return _no("invalidate:connection-not-closed")
                h = _abandon(h)
            elif op == 3:
                h = holders[w]
                if h.fairy.dbapi_connection is not None:
                    res = _run(lambda: h.fairy.invalidate(soft=True))
                    soft_inv.append(h.conn.id)
                h = None
            elif op == 4:
                # what Connection._handle_dbapi_exception does on a disconnect: Pool._invalidate(fairy, e), which
                # moves the pool-wide invalidation instant unless the connection predates the last one, and
                # hard-invalidates the fairy
                h = holders.pop(w)
                # "if this pool's last invalidate time is before when the given connection was created, update the
                # timestamp til now; otherwise no action" -- the last invalidation may be an internal one (pre-ping)
                if h.gen == srv.cur_gen and max(stale_before, pools[h.gen]._invalidate_time) < srv.t_open[h.conn.id]:
                    stale_before = clock.now + 1  # the stub clock's value inside Pool._invalidate
                res = _run(lambda: pools[h.gen]._invalidate(h.fairy, fakedb.OperationalError("fake: disconnect")))
                if res == "ok" and srv.state[h.conn.id] != "closed":
                    return _no("pool_invalidate:connection-not-closed")
                h = _abandon(h)
            elif op == 5:
                clean = not [h for h in holders if h.gen == srv.cur_gen]
                res = _run(eng.dispose)
                h = None
                if eng.pool is not pools[-1]:
                    if clean:
                        clean_at_dispose.append(srv.cur_gen)
                    srv.cur_gen += 1
                    pools.append(eng.pool)
                    stale_before = 0
            elif op == 6:
                d = dts[k]
                if d < 0:
                    d = 0
                elif d > recycle + 1:
                    d = recycle + 1
                clock.now += d
            elif op == 7:
                h = _abandon(holders.pop(w))
            elif op == 9:
                # fairy.detach(): the pool slot is given back (empty record), the DBAPI connection stays with the holder
                h = holders.pop(w)
                res = _run(h.fairy.detach)
                if res != "ok" or h.fairy._connection_record is not None or h.fairy.dbapi_connection is not h.conn or h.conn.closed:
                    return _no("detach:fairy-state")
                srv.state[h.conn.id] = "detached"
                detached.append(h)
                h = None
            elif op == 10:
                # Pool._invalidate(connection without a pool record, exc): "mark all connections established within the
                # generation of the given connection as invalidated" -- nothing is known about its generation, so the
                # pool-wide invalidation instant must advance: no connection that is idle now may be handed out later
                h = detached.pop(w)
                if h.gen == srv.cur_gen:
                    stale_before = clock.now + 1
                res = _run(lambda: pools[h.gen]._invalidate(h.fairy, fakedb.OperationalError("fake: disconnect")))
                h = None
            else:
                srv.restart()
            # ... but never corrupt the counters
            if not _counters_ok(eng, pools, srv, holders):
                return False
        # every holder releases its connection
        srv.cur_op = "checkin"
        while holders:
            h = holders.pop()
            res = _run(h.fairy.close)
            h = _abandon(h)
        srv.cur_op = "close_detached"
        while detached:
            h = detached.pop()
            res = _run(h.fairy.close)
            h = None
        if not _counters_ok(eng, pools, srv, holders):
            return False
        if eng.pool.checkedout() != 0:
            return _no("counters:checkedout-not-zero-at-end")
        for g in clean_at_dispose:
            if pools[g].checkedout() != 0 or pools[g].checkedin() != 0:
                return _no("counters:disposed-generation")
        return native(lambda: _ledger_ok(srv, pools))
    finally:
        pool_base.time = saved_time
        _LASTLOG[:] = [list(x) for x in srv.oplog]
        _LASTSITES[:] = list(srv.intr_sites)
        # no symbolic value may be touched by a finalizer running after the path
        srv.k1 = srv.k2 = 0
        srv.kind1 = srv.kind2 = 0
        clock.now = clock.last = 0
        for h in holders:
            try:
                if h.fairy is not None:
                    h.fairy.close()
            except BaseException:
                pass


def _ledger_ok(srv: _Srv, pools) -> bool:
    """Every connection ever opened is either closed, or idle in (exactly one slot of) a pool generation; a closed
    connection is not referenced by any idle record."""
    idle = []
    for p in pools:
        idle.extend(_idle_conns(p))
    for i in range(len(idle)):
        for j in range(i + 1, len(idle)):
            if idle[i] is idle[j]:
                return _no("ledger:connection-idle-twice")
    for c in idle:
        if _unusable(srv, c):
            return _no("ledger:closed-connection-idle-in-pool")
    collected = False
    for cid in range(len(srv.state)):
        if srv.state[cid] == "open":  # ("detached" connections belong to their holder, not to the pool)
            c = srv.refs[cid]()
            if c is not None and any(x is c for x in idle):
                continue
            what = "leak:%s:%s" % ("handed-out-before" if srv.handed[cid] else "never-handed-out", ">".join(srv.oplog[cid][-3:]))
            if STRICT_CLOSE:
                return _no(what)
            # relaxed mode: a connection that was merely dropped counts as released once it has been collected
            if c is not None and not collected:
                c = None
                gc.collect()
                collected = True
                c = srv.refs[cid]()
            if c is not None:
                return _no(what + ":still-referenced")
    return True


def _flush():
    """Collect the engines / pools / fairies of this path *now* (tracer paused), so that no finalizer of an
    abandoned path runs at an arbitrary point of a later one (exploration must be deterministic)."""
    gc.collect()


def h_pool1(n: int, prof: int, pre: int, pre_ping: bool, recycle: int, amb: int, a0: int, b1: int, c1: int, c2: int,
            d0: int, d1: int, d2: int, k1: int, kind1: int) -> bool:
    """<= 3 operations (first = alphabet entry a0, second in chunk b1: slicing only), <= 1 fault: the k1-th DBAPI
    call raises (k1 beyond the last call = no fault); kind1 <=0 ordinary error, 1 disconnect, >=2 BaseException."""
    assume(k1 >= 1)
    try:
        return _history(n, prof, pre, pre_ping, recycle, amb, a0, b1, [c1, c2], [d0, d1, d2], k1, kind1, 0, 0)
    finally:
        native(_flush)


def h_pool2(n: int, prof: int, pre: int, pre_ping: bool, recycle: int, amb: int, a0: int, b1: int, c1: int, c2: int,
            d0: int, d1: int, d2: int, k1: int, kind1: int, k2: int, kind2: int) -> bool:
    """<= 3 operations, <= 2 faults (k1 < k2)."""
    assume(1 <= k1 < k2)
    try:
        return _history(n, prof, pre, pre_ping, recycle, amb, a0, b1, [c1, c2], [d0, d1, d2], k1, kind1, k2, kind2)
    finally:
        native(_flush)


def h_pool2_long(n: int, prof: int, pre: int, pre_ping: bool, recycle: int, amb: int, a0: int, b1: int, c1: int, c2: int, c3: int,
                 c4: int, d0: int, d1: int, d2: int, d3: int, d4: int, k1: int, kind1: int, k2: int, kind2: int) -> bool:
    """<= 5 operations, <= 2 faults."""
    assume(1 <= k1 < k2)
    try:
        return _history(n, prof, pre, pre_ping, recycle, amb, a0, b1, [c1, c2, c3, c4], [d0, d1, d2, d3, d4], k1, kind1, k2, kind2)
    finally:
        native(_flush)


def h_pool1_long(n: int, prof: int, pre: int, pre_ping: bool, recycle: int, amb: int, a0: int, b1: int, c1: int, c2: int, c3: int,
                 c4: int, d0: int, d1: int, d2: int, d3: int, d4: int, k1: int, kind1: int) -> bool:
    """<= 5 operations, <= 1 fault."""
    assume(k1 >= 1)
    try:
        return _history(n, prof, pre, pre_ping, recycle, amb, a0, b1, [c1, c2, c3, c4], [d0, d1, d2, d3, d4], k1, kind1, 0, 0)
    finally:
        native(_flush)


# ------------------------------------------------------------------------------------------

META = {
    "explanation": "Symbolic histories of checkout / checkin / invalidate (hard, soft) / Pool._invalidate (on a live checkout and on a detached "
                   "connection that has no pool record) / fairy.detach / Engine.dispose / clock tick / dropped fairy + gc / server restart on a real Engine+QueuePool(pool_size=1, max_overflow=1, timeout=0) over the fake "
                   "DBAPI, with the positions and kinds (ordinary error / disconnect / BaseException that is not an Exception) of up to two DBAPI-call faults symbolic, pre_ping and pool_recycle per slice.  "
                   "Ledger oracle over every fake connection ever opened.",
    "functions": [
        "pool.base._ConnectionRecord.{checkout,get_connection,invalidate,checkin,_checkin_failed,close,__close,__connect}",
        "pool.base._ConnectionFairy.{_checkout (retry loop, pre-ping),_checkin,_reset,invalidate,close}", "pool.base._finalize_fairy (explicit and weakref/gc route)",
        "pool.base.Pool.{_invalidate,_close_connection,connect}", "pool.impl.QueuePool.{_do_get,_do_return_conn,_inc_overflow,_dec_overflow,dispose,recreate,checkedout}",
        "engine.base.Engine.{raw_connection,dispose}", "engine.default.DefaultDialect.{_do_ping_w_event,do_rollback,do_close,do_terminate}",
        "engine.create.create_engine first-connect initialisation (faults may hit it)",
    ],
    "bounds": {
        "quick": {"pool": "QueuePool(pool_size=1, max_overflow=1, timeout=0), reset_on_return=rollback", "pre_ping": [False, True], "pool_recycle": [-1, RECYCLE],
                  "pre-states": ["cold engine (faults may hit the first-connect initialisation)", "one idle connection", "one idle connection + one checkout", "one checkout, nothing idle"],
                  "history": "cold: <=2 operations/1 fault, 1 operation/2 faults; warm pre-states: <=2 operations/1 fault and 1 operation/2 faults (all 4 "
                             "configurations); from the pre-states with a live checkout and (pre_ping, recycle) in {(True,-1),(False,2)}: 3 operations/1 fault without "
                             "drop_gc/server_restart, and 2 operations/2 faults (idle+checkout with (True,-1), checkout-only with (False,2)); every run ends with all holders (also detached ones) releasing",
                  "operations": OPNAMES, "fault kinds": ["ordinary DBAPI error", "disconnect (connection dead afterwards)", "a BaseException that is not an Exception (KeyboardInterrupt subclass)"],
                  "fault position": "any DBAPI call after the pre-state (symbolic call number), including the final release of all holders",
                  "clock": "frozen between operations (amb=0) or +1 per time() call (amb=1: single operations); tick amount symbolic in 0..pool_recycle+1"},
        "thorough": {"history": "cold: <=3 operations/1 fault, <=2 operations/2 faults; warm pre-states: <=2 operations with <=2 faults and 3 operations/1 fault "
                                "(without drop_gc/server_restart) for all 4 configurations (amb 0/1 for <=2 operations/1 fault); from the pre-state idle+checkout: "
                                "3 operations/1 fault over the full alphabet for (pre_ping, recycle) in {(True,-1),(False,2)}, and 3 operations/2 faults and "
                                "4 operations/1 fault without drop_gc/server_restart for (True,-1); histories of 5 operations are not explored (path count "
                                "beyond the budget)"},
    },
    "outside": ["thread interleavings (see C25)", "Pool.dispose() on a pool with live checkouts (documented unsupported; drives checkedout() to -1) -- only Engine.dispose() "
                "is in the alphabet and the counters of a pool generation disposed with live checkouts are not examined",
                "asyncio pools / terminate path", "real DBAPIs", "other pool classes than QueuePool", "pool event listeners raising DisconnectionError (checkout event)",
                "availability (that a pre-ping failure is followed by a transparent reconnect) -- only safety is checked",
                "with VERIF_C26_STRICT=0 a connection dropped without close() counts as released once garbage-collected (default: strict ledger)"],
    "stubs": ["logging disabled (logging.disable(CRITICAL)): the pool's error logging is not part of the property",
              "sqlalchemy.pool.base.time -> integer stub clock (module attribute replaced for the duration of a path)",
              "DBAPI = vlib.fakedb (connection subclass records close attempts; server subclass = symbolic fault schedule + weak ledger)"],
    "assumptions": ["time.time() is strictly increasing across _ConnectionRecord.invalidate()/Pool._invalidate() calls and non-decreasing otherwise "
                    "(the assumption the NOTE in _ConnectionRecord.get_connection makes)",
                    "connections returned to a pool generation that Engine.dispose() discarded while they were checked out stay open in that "
                    "generation's queue until it is garbage-collected (documented in Engine.dispose); the ledger counts them as idle-in-pool"],
}


ALL_CFG = ((False, -1), (False, RECYCLE), (True, -1), (True, RECYCLE))
TWO_CFG = ((True, -1), (False, RECYCLE))


def _slices(n: int, prof: int, ambs=(0,), pres=(0, 1, 2), cfgs=ALL_CFG) -> List[dict]:
    out = []
    for pre in pres:
        for (pp, rec) in cfgs:
            for amb in ambs:
                for a0 in range(len(_alphabet(1 if pre >= 2 else 0, rec, prof))):
                    # the second operation is only worth partitioning after a checkout (larger alphabet) or in long histories
                    for b1 in (range(NCHUNK) if (n >= 2 and (a0 == 0 or n >= 3)) else (-1,)):
                        out.append(dict(n=n, prof=prof, pre=pre, pre_ping=pp, recycle=rec, amb=amb, a0=a0, b1=b1))
    return out


def harnesses(tier: str) -> List[Harness]:
    q = tier == "quick"
    hs: List[Harness] = []
    warm = (1, 2, 3)
    if q:
        # cold engine (faults may hit the first-connect initialisation): kept small and separate
        hs.append(Harness("pool_cold_1fault", h_pool1, _slices(1, 0, pres=(0,)) + _slices(2, 0, pres=(0,)), budget_s=400))
        hs.append(Harness("pool_cold_2faults", h_pool2, _slices(1, 0, pres=(0,)), budget_s=400))
        hs.append(Harness("pool_1fault", h_pool1, _slices(1, 0, (0, 1), warm) + _slices(2, 0, (0,), (2, 3)) + _slices(2, 0, (0,), (1,), TWO_CFG)
                          + _slices(3, 1, (0,), (2, 3), TWO_CFG), budget_s=600))
        hs.append(Harness("pool_2faults", h_pool2, _slices(1, 0, (0,), warm) + _slices(2, 0, (0,), (2,), TWO_CFG[:1]) + _slices(2, 0, (0,), (3,), TWO_CFG[1:]), budget_s=600))
    else:
        hs.append(Harness("pool_cold_1fault", h_pool1, _slices(1, 0, pres=(0,)) + _slices(2, 0, pres=(0,)) + _slices(3, 0, pres=(0,)), budget_s=1500))
        hs.append(Harness("pool_cold_2faults", h_pool2, _slices(1, 0, pres=(0,)) + _slices(2, 0, pres=(0,)), budget_s=1500))
        hs.append(Harness("pool_1fault", h_pool1, _slices(1, 0, (0, 1), warm) + _slices(2, 0, (0, 1), warm) + _slices(3, 1, (0,), warm)
                          + _slices(3, 0, (0,), (2,), TWO_CFG), budget_s=2500))
        hs.append(Harness("pool_2faults", h_pool2, _slices(1, 0, (0, 1), warm) + _slices(2, 0, (0,), warm) + _slices(3, 1, (0,), (2,), TWO_CFG[:1]), budget_s=2500))
        hs.append(Harness("pool_1fault_long", h_pool1_long, _slices(4, 1, (0,), (2,), TWO_CFG[:1]), budget_s=1200))
    return hs


def _decode(args):
    n = args["n"]
    codes = [args.get("c%d" % i) for i in range(1, 5)]
    out = []
    nh = 1 if args.get("pre", 0) >= 2 else 0
    nd = 0
    for k in range(n):
        al = _alphabet(nh, args["recycle"], args["prof"], nd)
        if k == 0:
            if args["a0"] >= len(al):
                break
            op, w = al[args["a0"]]
        elif k == 1:
            lo, hi = _chunk(len(al), args.get("b1", -1))
            if lo >= hi:
                break
            op, w = al[_bpick(codes[0], lo, hi)]
        else:
            op, w = al[_bpick(codes[k - 1], 0, len(al))]
        out.append((op, w))
        # the number of holders after a checkout depends on the run (faults); approximation for the description
        if op == 0 and nh < POOL_SIZE + MAX_OVERFLOW:
            nh += 1
        elif op in (1, 2, 4, 7) and nh > 0:
            nh -= 1
        elif op == 9 and nh > 0:
            nh, nd = nh - 1, nd + 1
        elif op == 10 and nd > 0:
            nd -= 1
    return out


def classify(hname, args, rep):
    """Key = the oracle clause that failed (+ for leaks the DBAPI calls the leaked connection saw), obtained by
    re-running the history concretely."""
    from vlib import symx

    del _WHY[:]
    fn = {"pool_1fault": h_pool1, "pool_2faults": h_pool2, "pool_1fault_long": h_pool1_long, "pool_2faults_long": h_pool2_long,
          "pool_cold_1fault": h_pool1, "pool_cold_2faults": h_pool2}[hname]
    symx.run_concrete(fn, args)
    why = _WHY[0] if _WHY else "exception:" + str(rep.get("exception"))[:60]
    try:
        ops = _decode(args)
    except Exception:
        ops = []
    names = ["%s(%d)" % (OPNAMES[o], w) if o in (1, 2, 3, 4, 7, 9, 10) else OPNAMES[o] for (o, w) in ops]
    kinds = []

    def kname(v):
        v = int(v or 0)
        return "BaseException" if v >= 2 else ("disconnect" if v == 1 else "error")

    if args.get("k1"):
        kinds.append("%s@%s" % (kname(args.get("kind1")), args.get("k1")))
    if args.get("k2"):
        kinds.append("%s@%s" % (kname(args.get("kind2")), args.get("k2")))
    # a failure that needs an injected BaseException (KeyboardInterrupt-like) is its own family of keys
    if _LASTSITES:
        # normalise the places where the injected BaseException(s) fired: an interrupt inside DBAPI close() (always
        # called from the pool's own clean-up code) and one inside the reset-on-return of the *gc finalizer* are the
        # two situations from which the pool is known not to recover; any other site is named in full
        sites = set()
        for st in _LASTSITES:
            if st.startswith("close-during-"):
                sites.add("close")
            elif st == "rollback-during-drop_gc":
                sites.add("rollback-in-gc-finalizer")
        if not sites:
            sites = set(_LASTSITES)
        why = why + ":BaseException-in-" + "+".join(sorted(sites))
    return ("C26:" + why,
            "%s -- pre-state %s, history %s, fault(s) at DBAPI call(s) %s (counted from the end of the pre-state; beyond the last call = no fault), "
            "pre_ping=%s pool_recycle=%s amb=%s"
            % (why, ["cold engine", "one idle connection", "one idle connection + one checkout", "one checkout, nothing idle"][args.get("pre", 0)], names, kinds or "none",
               args["pre_ping"], args["recycle"], args["amb"]))


def run(tier: str, seed: int):
    return framework.run_symx(PID, __name__, tier, seed, harnesses(tier), classify, META)
