"""C36 Attribute history reports exactly the net change since the last commit of the attribute (E1 symx).

Real mapped classes (scalar column, scalar column with active_history, many-to-one, many-to-one with
active_history, list / set / attribute_keyed_dict collections), no Session, no database.  A solver-chosen
history of mutations is applied to one attribute of a new ("transient") or loaded-looking ("detached", built with
the public ``make_transient_to_detached``) instance; after every step ``inspect(obj).attrs[key].history`` must
recombine to the (committed value, current value) pair of a reference model.
"""
from __future__ import annotations

import sys
from typing import List

from vlib import framework
from vlib.framework import Harness
from vlib.symx import assume, native

from sqlalchemy import Column, ForeignKey, Integer, String, inspect
from sqlalchemy.orm import attribute_keyed_dict, column_property, make_transient_to_detached, registry, relationship
from sqlalchemy.orm import exc as orm_exc
from sqlalchemy.orm.attributes import PASSIVE_NO_INITIALIZE, History, get_history, instance_dict, instance_state, \
    set_committed_value

PID = "C36"

# ------------------------------------------------------------------------------------------
# mappings (once, at import)

_reg = registry()


def _ix_init(self, ix=None, k=None):
    self.ix = ix
    if k is not None:
        self.k = k


@_reg.mapped
class Target:
    __tablename__ = "c36_target"
    id = Column(Integer, primary_key=True)
    __init__ = _ix_init

    def __repr__(self):
        return "T%s" % self.ix


@_reg.mapped
class Item:
    __tablename__ = "c36_item"
    id = Column(Integer, primary_key=True)
    k = Column(String)
    l_id = Column(ForeignKey("c36_obj.id"))
    s_id = Column(ForeignKey("c36_obj.id"))
    d_id = Column(ForeignKey("c36_obj.id"))
    __init__ = _ix_init

    def __repr__(self):
        return "I%s" % self.ix


@_reg.mapped
class Obj:
    __tablename__ = "c36_obj"
    id = Column(Integer, primary_key=True)
    val = Column(Integer)
    vah = column_property(Column("vah", Integer), active_history=True)
    ref_id = Column(ForeignKey("c36_target.id"))
    rah_id = Column(ForeignKey("c36_target.id"))
    ref = relationship(Target, foreign_keys=[ref_id])
    rah = relationship(Target, foreign_keys=[rah_id], active_history=True)
    li = relationship(Item, foreign_keys=[Item.l_id])
    se = relationship(Item, foreign_keys=[Item.s_id], collection_class=set)
    di = relationship(Item, foreign_keys=[Item.d_id], collection_class=attribute_keyed_dict("k"))


_reg.configure()

KINDS = {"scalar": "val", "scalar_ah": "vah", "m2o": "ref", "m2o_ah": "rah", "list": "li", "set": "se", "dict": "di"}
SCALARS = ("scalar", "scalar_ah", "m2o", "m2o_ah")
ITEM_KEYS = ["a", "b", "a"]  # dict collection: items 0 and 2 share their key, so d["a"] = I2 replaces I0
NEVER = "never"  # initial state: attribute never set


def _tracing():
    m = sys.modules.get("crosshair.tracers")
    return bool(m is not None and m.is_tracing())


def _native(fn, *args):
    if not _tracing():
        return fn(*args)
    from crosshair.tracers import NoTracing

    with NoTracing():
        return fn(*args)


# engine cost only (see props/C38.py): keep the import-time heap out of the garbage collector's way
import gc as _gc  # noqa: E402

_gc.collect()
_gc.freeze()


def pin_code(code, n):
    """Concrete value of the symbolic int ``code`` in [0, n): binary search over solver-decided comparisons,
    one path per value."""
    assume((0 <= code) & (code < n))
    lo, hi = 0, n - 1
    while lo < hi:
        mid = (lo + hi) // 2
        if code <= mid:
            hi = mid
        else:
            lo = mid + 1
    return lo


# ------------------------------------------------------------------------------------------
# step alphabets and initial states.  Values of scalars: None, 0, 1, 2; objects: None or index into a pool of 3.

REPL = {
    "list": [[], [0], [0, 1], [2, 1]],
    "set": [[], [0], [0, 1], [2, 1]],
    "dict": [[], [0], [0, 1], [2, 1]],  # never items 0 and 2 together (same key)
}


DICT_KEYS = ["a", "b"]
UPD = [[0, 1], [2, 1]]  # members of the argument of dict.update (mapping form / iterable-of-pairs form)


def steps_of(kind, alpha="full"):
    """step alphabet of an attribute kind; "core" = the reduced alphabet used for the later steps of the longest
    collection histories"""
    if kind in SCALARS:
        return [("set", v) for v in (None, 0, 1, 2)] + [("del", None), ("commit", None), ("expire", None)]
    if alpha == "core":
        out = [("add", 0), ("add", 2), ("remove", 0), ("replace", 2), ("commit", None), ("expire", None)]
        if kind == "dict":
            return out + [("popitem", None), ("pop", "a"), ("pop_default", "a"), ("setdefault", 2), ("update_map", 1),
                          ("clear", None)]
        return out + [("remove", 1), ("add", 1), ("pop", None), ("clear", None)]
    out = ([("add", i) for i in range(3)] + [("remove", i) for i in range(3)]
           + [("replace", j) for j in range(len(REPL[kind]))] + [("commit", None), ("expire", None)])
    if kind == "dict":
        out += [("popitem", None)] + [("pop", k) for k in DICT_KEYS] + [("pop_default", k) for k in DICT_KEYS]
        out += [("setdefault", i) for i in range(3)] + [("update_map", j) for j in range(len(UPD))]
        out += [("update_pairs", 1), ("clear", None)]
    else:
        out += [("pop", None), ("clear", None)]
    return out


def inits_of(kind):
    if kind in SCALARS:
        return [NEVER, None, 0, 1, 2]
    return [NEVER, [], [0], [0, 1]]


def decode(kind, n, c0, code, rest="full"):
    """(initial committed value, [step, ...]) number ``code`` of the slice (kind, n, first step c0); the first step
    is taken from the full alphabet, the following ones from the alphabet ``rest``"""
    al = steps_of(kind, rest)
    ini = inits_of(kind)
    i0 = code % len(ini)
    code //= len(ini)
    steps = [steps_of(kind)[c0]]
    for _ in range(n - 1):
        steps.append(al[code % len(al)])
        code //= len(al)
    return ini[i0], steps


def space_size(kind, n, rest="full"):
    return len(inits_of(kind)) * len(steps_of(kind, rest)) ** (n - 1)


# ------------------------------------------------------------------------------------------
# the run (concrete; tracer paused)

class PropertyViolation(Exception):
    pass


class _Outside(Exception):
    """the step needs a database load (DetachedInstanceError): outside the in-memory property"""


def _fail(tag, detail=""):
    raise PropertyViolation("[[%s]] %s" % (tag, detail))


ABSENT = ("absent",)


def _ids(seq):
    """pool indices (or plain values) of a history member list"""
    out = []
    for x in seq:
        out.append(x.ix if isinstance(x, (Target, Item)) else x)
    return out


def _msorted(xs):
    return sorted(xs, key=lambda v: (v is None, v if v is not None else 0))


def _check_scalar(kind, hist, cm, cur, where):
    """cm / cur: ABSENT or the (committed / current) value (pool index for objects).  Documented forms
    (History.from_scalar_attribute / from_object_attribute, test_attributes.HistoryTest): no previous value
    information -> nothing in ``deleted``; an attribute without a value reads as None; for object references a
    committed None is not reported in ``deleted``."""
    added, unchanged, deleted = _ids(hist.added), _ids(hist.unchanged), _ids(hist.deleted)
    now = added + unchanged
    was = unchanged + deleted
    if len(now) > 1 or len(was) > 1 or len(added) + len(unchanged) + len(deleted) > 2:
        _fail(where + ":scalar-history-has-too-many-members", repr(hist))
    if added and deleted and added == deleted:
        _fail(where + ":same-value-added-and-deleted", repr(hist))
    # current value = unchanged + added
    if cur is ABSENT:
        if now not in ([], [None]):
            _fail(where + ":current-value-wrong", "no value expected, history %r" % (hist,))
    elif now != [cur]:
        _fail(where + ":current-value-wrong", "current %r, history %r" % (cur, hist))
    # committed value = unchanged + deleted
    obj = kind in ("m2o", "m2o_ah")
    if cm is ABSENT or (obj and cm is None):
        if was not in ([], [None]):
            _fail(where + ":committed-value-wrong", "no committed value known, history %r" % (hist,))
    elif was != [cm]:
        _fail(where + ":committed-value-wrong", "committed %r, history %r" % (cm, hist))
    # no net change <=> nothing added / deleted
    if cm is not ABSENT and cur is not ABSENT and cm == cur and (added or deleted):
        _fail(where + ":set-back-to-committed-value-still-reported-as-change", repr(hist))
    if hist.has_changes() != bool(added or deleted) or hist.empty() != (not (added or deleted or unchanged)):
        _fail(where + ":has_changes-or-empty-inconsistent", repr(hist))


def _check_coll(kind, hist, cm, cur, where):
    """cm / cur: ABSENT or list of pool indices."""
    added, unchanged, deleted = _ids(hist.added), _ids(hist.unchanged), _ids(hist.deleted)
    if set(added) & set(unchanged) or set(added) & set(deleted) or set(unchanged) & set(deleted):
        _fail(where + ":added-unchanged-deleted-not-disjoint", repr(hist))
    now = added + unchanged
    if cur is ABSENT:
        # not loaded / never initialised: "no history available" (AttributeState.history does not load)
        if now or deleted:
            _fail(where + ":history-for-absent-collection", repr(hist))
        return
    if _msorted(now) != _msorted(cur):
        _fail(where + ":current-members-wrong", "current %r, history %r" % (cur, hist))
    if kind != "list" and len(set(now)) != len(now):
        _fail(where + ":duplicate-members", repr(hist))
    if cm is ABSENT:
        if deleted:
            _fail(where + ":committed-members-wrong", "nothing committed, history %r" % (hist,))
    elif set(unchanged + deleted) != set(cm):
        _fail(where + ":committed-members-wrong", "committed %r, history %r" % (cm, hist))
    if hist.has_changes() != bool(added or deleted):
        _fail(where + ":has_changes-inconsistent", repr(hist))


def _wrap(kind, items):
    if kind == "list":
        return list(items)
    if kind == "set":
        return set(items)
    return {it.k: it for it in items}


def _members(kind, coll):
    if kind == "dict":
        return [v.ix for v in dict.values(coll)]
    return [v.ix for v in coll]


_DEFAULT = object()


def _dict_put(cur, i):
    """members after d[item.k] = item"""
    return [j for j in cur if ITEM_KEYS[j] != ITEM_KEYS[i]] + [i]


def _mutator(kind, coll, pool, op, arg, cur):
    """pop / clear / popitem / setdefault / update on the instrumented collection; returns the model's members"""
    cur = list(cur)
    if op == "clear":
        coll.clear()
        return []
    if op == "pop" and kind in ("list", "set"):
        try:
            got = coll.pop()
            raised = False
        except (IndexError, KeyError):
            raised = True
        if raised != (not cur):
            _fail("pop:exception-mismatch", "raised=%r members=%r" % (raised, cur))
        if not raised:
            if got.ix not in cur or (kind == "list" and got.ix != cur[-1]):
                _fail("pop:returns-wrong-member", "returned %r members %r" % (got, cur))
            if kind == "list":
                cur.pop()
            else:
                cur.remove(got.ix)
        return cur
    if op == "popitem":
        try:
            k, got = coll.popitem()
            raised = False
        except KeyError:
            raised = True
        if raised != (not cur):
            _fail("popitem:exception-mismatch", "raised=%r members=%r" % (raised, cur))
        if not raised:
            if got.ix not in cur or k != ITEM_KEYS[got.ix]:
                _fail("popitem:returns-wrong-member", "returned %r members %r" % ((k, got), cur))
            cur.remove(got.ix)
        return cur
    if op in ("pop", "pop_default"):
        present = [j for j in cur if ITEM_KEYS[j] == arg]
        try:
            got = coll.pop(arg) if op == "pop" else coll.pop(arg, _DEFAULT)
            raised = False
        except KeyError:
            raised = True
        if raised != (op == "pop" and not present):
            _fail(op + ":exception-mismatch", "raised=%r key=%r members=%r" % (raised, arg, cur))
        if not raised:
            want = pool[present[0]] if present else _DEFAULT
            if got is not want:
                _fail(op + ":returns-wrong-member", "returned %r key %r members %r" % (got, arg, cur))
            if present:
                cur.remove(present[0])
        return cur
    if op == "setdefault":
        it = pool[arg]
        present = [j for j in cur if ITEM_KEYS[j] == it.k]
        got = coll.setdefault(it.k, it)
        if got is not (pool[present[0]] if present else it):
            _fail("setdefault:returns-wrong-member", "returned %r members %r" % (got, cur))
        return cur if present else cur + [arg]
    if op in ("update_map", "update_pairs"):
        items = [pool[j] for j in UPD[arg]]
        if op == "update_map":
            coll.update({it.k: it for it in items})
        else:
            coll.update([(it.k, it) for it in items])
        for j in UPD[arg]:
            if j not in cur:
                cur = _dict_put(cur, j)
        return cur
    raise AssertionError(op)


def _run_hist(kind, loaded, init, steps):
    key = KINDS[kind]
    scalar = kind in SCALARS
    objects = kind in ("m2o", "m2o_ah")
    pool = [Target(i) for i in range(3)] if objects else [Item(i, ITEM_KEYS[i]) for i in range(3)]
    o = Obj()
    state, dict_ = instance_state(o), instance_dict(o)

    def val(v):
        return pool[v] if (objects and v is not None) else v

    # initial committed value, established the way a loader does (set_committed_value)
    if loaded:
        o.id = 1
    if init != NEVER:
        if scalar:
            set_committed_value(o, key, val(init))
        else:
            set_committed_value(o, key, [pool[i] for i in init])
    if loaded:
        make_transient_to_detached(o)  # public API: identity key, everything committed, unloaded attributes expired
    else:
        state._commit_all(dict_)
    cm = ABSENT if init == NEVER else (init if scalar else list(init))
    cur = cm if scalar else (cm if cm is ABSENT else list(cm))
    check = _check_scalar if scalar else _check_coll
    check(kind, inspect(o).attrs[key].history, cm, cur, "initial")

    for si, (op, arg) in enumerate(steps):
        where = op
        try:
            if op == "commit":
                state._commit_all(dict_)
                cm = cur if scalar else (cur if cur is ABSENT else list(cur))
            elif op == "expire":
                state._expire_attributes(dict_, [key])
                cm = cur = ABSENT
            elif op == "set":
                setattr(o, key, val(arg))
                cur = arg
            elif op == "del":
                try:
                    delattr(o, key)
                    raised = False
                except AttributeError:
                    raised = True
                if raised and cur is not ABSENT:
                    _fail("del:AttributeError-although-a-value-is-present")
                cur = ABSENT
            elif op == "replace":
                new = REPL[kind][arg]
                setattr(o, key, _wrap(kind, [pool[i] for i in new]))
                cur = list(new)
            elif op in ("pop", "pop_default", "popitem", "clear", "setdefault", "update_map", "update_pairs"):
                coll = getattr(o, key)
                if cur is ABSENT:
                    cur = []
                cur = _mutator(kind, coll, pool, op, arg, cur)
            elif op in ("add", "remove"):
                coll = getattr(o, key)  # initialises an empty collection on a new object
                if cur is ABSENT:
                    cur = []
                it = pool[arg]
                if op == "add":
                    if kind == "list":
                        coll.append(it)
                        cur.append(arg)
                    elif kind == "set":
                        coll.add(it)
                        if arg not in cur:
                            cur.append(arg)
                    else:
                        coll[it.k] = it
                        cur = [j for j in cur if ITEM_KEYS[j] != it.k] + [arg]
                else:
                    try:
                        if kind == "dict":
                            if arg in cur:
                                del coll[it.k]
                            else:
                                raise KeyError(it.k)  # the slot is empty or holds the other item with that key
                        else:
                            coll.remove(it)
                        raised = False
                    except (ValueError, KeyError):
                        raised = True
                    if raised != (arg not in cur):
                        _fail("remove:exception-mismatch", "raised=%r members=%r item=%r" % (raised, cur, arg))
                    if not raised:
                        cur.remove(arg)
            else:
                raise AssertionError(op)
        except orm_exc.DetachedInstanceError:
            # the operation wants to load the old value / the collection from the database
            raise _Outside()
        # the model's current value must be what the instance holds
        if scalar:
            have = dict_.get(key, ABSENT)
            have = have if have is ABSENT or not objects or have is None else have.ix
            if have != cur and not (have is ABSENT and cur is ABSENT):
                _fail(where + ":instance-value-differs-from-model", "instance %r model %r" % (have, cur))
        else:
            have = _members(kind, dict_[key]) if key in dict_ else ABSENT
            if have is ABSENT and cur == []:
                # an empty collection handed out for an attribute without value is only stored in the instance
                # on its first mutation (CollectionAdapter._set_empty / _reset_empty): still "no value"
                cur = ABSENT
            if (have is ABSENT) != (cur is ABSENT) or (have is not ABSENT and _msorted(have) != _msorted(cur)):
                _fail(where + ":instance-value-differs-from-model", "instance %r model %r" % (have, cur))
        h = inspect(o).attrs[key].history
        if not isinstance(h, History) or h != get_history(o, key, PASSIVE_NO_INITIALIZE):
            _fail(where + ":history-accessors-disagree")
        check(kind, h, cm, cur, where)
    if not loaded:
        # new object: the default get_history() (PASSIVE_OFF) may initialise the attribute but loads nothing
        try:
            h = get_history(o, key)
        except orm_exc.DetachedInstanceError:
            return True  # expired attribute: the default passive flag wants to load it
        if not scalar and cur is ABSENT:
            cur = []
        check(kind, h, cm, cur, "final-get_history")
    return True


def _guarded(kind, loaded, init, steps):
    try:
        return _run_hist(kind, loaded, init, steps)
    except _Outside:
        return None


def h_hist(kind: str, loaded: bool, n: int, c0: int, rest: str, code: int) -> bool:
    c = pin_code(code, _native(space_size, kind, n, rest))
    init, steps = _native(decode, kind, n, c0, c, rest)
    r = native(_guarded, kind, loaded, init, steps)  # plain values only: the framework's native() section
    if r is None:
        assume(False)
    return r


# ------------------------------------------------------------------------------------------

META = {
    "explanation": "Style (b), solver-chosen inputs, concrete execution: the ORM attribute machinery hands every value to "
                   "dicts / weakrefs / C containers, so the history (initial committed value + operations + values/targets) is "
                   "one symbolic int per slice, case-split by z3-decided comparisons (one path per history) and decoded by a "
                   "mixed-radix table; the real SQLAlchemy code then runs on the decoded history with the tracer paused. After "
                   "every step inspect(obj).attrs[key].history is compared with a reference model (committed, current): "
                   "current = unchanged + added, committed = unchanged + deleted, pairwise disjoint, a value set back to the "
                   "committed one is no change, for scalars the documented tuple forms (no previous-value information -> "
                   "empty `deleted`; missing value reads as None; committed None of an object reference is not listed).",
    "functions": [
        "orm.attributes._ScalarAttributeImpl.{set,delete,get_history}", "orm.attributes._ScalarObjectAttributeImpl.{set,delete,"
        "get_history,fire_replace_event,fire_remove_event}", "orm.attributes._CollectionAttributeImpl.{set,get_history,"
        "fire_append_event,fire_remove_event,fire_pre_remove_event,_initialize_collection,set_committed_value}",
        "orm.attributes.History.{from_scalar_attribute,from_object_attribute,from_collection,has_changes,empty}",
        "orm.attributes.{get_history,set_committed_value}", "orm.state.InstanceState.{_modified_event,_commit,_commit_all,"
        "_expire_attributes,get_history}", "orm.state.AttributeState.history", "orm.collections (list/set/keyed dict "
        "instrumentation, bulk_replace)", "orm.session.make_transient_to_detached",
    ],
    "bounds": {
        "quick": {"history length": "3 (every prefix is checked)", "scalar values": "None, 0, 1, 2", "object pool": "3",
                  "initial committed value": "never set / None / 0..2; collections: never set / [] / [0] / [0,1]",
                  "instance": "new (transient) and loaded (detached via make_transient_to_detached)",
                  "collection replacement": "[], [0], [0,1], [2,1]",
                  "collection mutators": "add / remove one of 3 members, replacement, list/set pop() and clear(); keyed dict: d[k] = o, "
                                         "del d[k], popitem, pop(k), pop(k, default) (existing / missing key), setdefault, update "
                                         "(mapping / iterable of pairs), clear -- each also as the first mutation after load / commit; "
                                         "dict: 2 steps over this alphabet, 3 steps with steps 2-3 from a 12-step core alphabet"},
        "thorough": {"history length": "5 for the scalar and the many-to-one attribute, 4 for their active_history variants; collections: 3 "
                                       "over the full alphabet and 4 with steps 2-4 from the core alphabet", "scalar values": "None, 0, 1, 2",
                     "object pool": "3"},
    },
    "outside": [
        "'a flush persists exactly that difference' (needs a database)",
        "operations that need a database load (DetachedInstanceError on a loaded instance without Session: expired "
        "attribute with active_history, access to an expired / unloaded collection)",
        "`del obj.collection` (only scalar columns and object references are documented for del, migration_13 #4354)",
        "pending mutations of unloaded collections through backrefs (C37), AttributeState.load_history, custom comparators, "
        "mutable scalars, deferred-history (`_deferred_history`) relationships",
    ],
    "stubs": [],
    "assumptions": [
        "a loaded instance is simulated without a Session: set_committed_value + make_transient_to_detached",
        "expiry is InstanceState._expire_attributes (what Session.expire calls), commit is InstanceState._commit_all",
    ],
}


def harnesses(tier: str) -> List[Harness]:
    q = tier == "quick"
    sl = []
    for kind in KINDS:
        if kind in SCALARS:
            plan = [(3 if q else (5 if kind in ("scalar", "m2o") else 4), "full")]
        elif kind == "dict":
            plan = [(2, "full"), (3, "core")] if q else [(3, "full"), (4, "core")]
        else:
            plan = [(3, "full")] if q else [(3, "full"), (4, "core")]
        for n, rest in plan:
            for loaded in (False, True):
                for c0 in range(len(steps_of(kind))):
                    sl.append(dict(kind=kind, loaded=loaded, n=n, c0=c0, rest=rest))
    return [Harness("hist", h_hist, sl, budget_s=120 if q else 900)]


def _tag(rep):
    s = (rep or {}).get("exception") or ""
    if "[[" in s and "]]" in s:
        return s.split("[[", 1)[1].split("]]", 1)[0]
    return ""


def describe(args):
    init, steps = decode(args["kind"], args["n"], args["c0"], args["code"], args.get("rest", "full"))
    return "%s attribute of a %s instance, committed value %r, history %s" % (
        args["kind"], "loaded" if args["loaded"] else "new", init,
        ["%s(%s)" % (op, REPL[args["kind"]][a] if op == "replace" else (UPD[a] if op.startswith("update") else a))
         if a is not None or op == "set" else op for op, a in steps])


def classify(hname, args, rep):
    tag = _tag(rep)
    exc = (rep or {}).get("exception") or ""
    init, steps = decode(args["kind"], args["n"], args["c0"], args["code"], args.get("rest", "full"))
    if tag:
        # the failing step is the last one named in the tag; the steps before it are the state it needs
        return ("C36:%s:%s:%s" % (args["kind"], "loaded" if args["loaded"] else "new", tag), "%s: %s" % (describe(args), exc[:300]))
    return ("C36:%s:harness-exception:%s" % (args["kind"], exc.split(":")[0][:60]), "%s: %s" % (describe(args), exc[:300]))


def run(tier: str, seed: int):
    return framework.run_symx(PID, __name__, tier, seed, harnesses(tier), classify, META)
