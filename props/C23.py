"""C23 Connection transactions and savepoints have nested-transaction semantics (E1 symx).

A real ``Engine``/``Connection`` over the transactional fake DBAPI (``vlib/fakedb.py``) is driven by a
symbolic operation history; after every step the Connection's flags, the transaction handles'
``is_active``, the fake server's committed rows (= what any other connection sees), the uncommitted rows
and the number of open savepoints of the DBAPI connection are compared with a nested-transaction reference
model (stack of pending lists).
"""
from __future__ import annotations

import warnings
from typing import List, Tuple

from vlib import fakedb, framework
from vlib.framework import Harness
from vlib.symx import Assume, assume, native

try:  # warm import: symx.native()/assume() look at the tracer state (also in tracer-less replays)
    import crosshair.tracers  # noqa: F401
except ImportError:
    pass

from sqlalchemy import create_engine
from sqlalchemy import exc as sa_exc
from sqlalchemy.dialects import registry

PID = "C23"

# fake DBAPI extension: savepoint statements go through cursor.execute, as on real dialects (Connection.
# _execute_context is then part of every SAVEPOINT / RELEASE / ROLLBACK TO); fakedb.FakeDialect calls the
# fake connection's savepoint API directly.


class Cursor23(fakedb.FakeCursor):
    def execute(self, statement, parameters=None):
        words = statement.split()
        verb = words[0].upper()
        if verb == "SAVEPOINT":
            self.conn.savepoint(words[1])
        elif verb == "RELEASE":
            self.conn.release_savepoint(words[1])
        elif verb == "ROLLBACK_TO":
            self.conn.rollback_to_savepoint(words[1])
        else:
            super().execute(statement, parameters)
            return
        self.description = None
        self.rowcount = -1
        self._rows = []


class Conn23(fakedb.FakeConnection):
    def cursor(self):
        self._check("cursor")
        return Cursor23(self)


class Server23(fakedb.FakeServer):
    def connect(self):
        self.tick(None, "connect")
        c = Conn23(self, len(self.connections))
        self.connections.append(c)
        return c


class Dialect23(fakedb.FakeDialect):
    name = "fake23"
    supports_statement_cache = True

    def do_savepoint(self, connection, name):
        connection.exec_driver_sql("SAVEPOINT " + name)

    def do_rollback_to_savepoint(self, connection, name):
        connection.exec_driver_sql("ROLLBACK_TO " + name)

    def do_release_savepoint(self, connection, name):
        connection.exec_driver_sql("RELEASE " + name)


# operation alphabet ---------------------------------------------------------------------------------
INSERT, BEGIN, BEGIN_NESTED, C_COMMIT, C_ROLLBACK, H_COMMIT, H_ROLLBACK, H_CLOSE, \
    WITH_BEGIN, WITH_NESTED, EXIT_OK, EXIT_EXC, RECONNECT, GET_TRANS, C_COMMIT_FAIL = range(15)
OPNAMES = ["insert", "begin", "begin_nested", "conn.commit", "conn.rollback", "handle.commit",
           "handle.rollback", "handle.close", "with-begin", "with-begin_nested", "with-exit-normal",
           "with-exit-exception", "conn.close+reconnect", "get_transaction", "conn.commit[DBAPI-commit-fails]"]
HOPS = (H_COMMIT, H_ROLLBACK, H_CLOSE)
NOPS = len(OPNAMES)


class PropertyViolation(Exception):
    """Raised by the harness with a normalised tag (used by classify)."""


class _BlockError(Exception):
    """The exception 'raised inside the with block' for EXIT_EXC."""


def _fail(tag: str, detail: str = ""):
    raise PropertyViolation("[[%s]] %s" % (tag, detail))


# reference model ------------------------------------------------------------------------------------


class _H:
    __slots__ = ("kind", "active", "gen")

    def __init__(self, kind, gen):
        self.kind = kind  # "root" | "nested"
        self.active = True
        self.gen = gen


class Model:
    """Nested transactions as a stack of pending lists.  ``levels[0]`` is the work of the outer
    transaction, ``levels[i]`` the work since the i-th open savepoint."""

    def __init__(self):
        self.committed: List[int] = []
        self.in_txn = False
        self.root_h = None  # index into handles of the current root transaction, if the user holds it
        self.levels: List[List[int]] = [[]]
        self.sp: List[int] = []  # handle indices of the open savepoints, outermost first
        # savepoints existing on the server: ROLLBACK TO SAVEPOINT keeps the savepoint itself (standard
        # SQL), so a rolled-back NestedTransaction leaves its savepoint behind until an enclosing
        # savepoint or the transaction ends
        self.dbsp: List[int] = []
        self.handles: List[_H] = []
        self.ctx: List[int] = []  # handle indices of entered context managers (LIFO)
        self.gen = 0  # Connection generation (close + reconnect)
        self.taint = False  # an outer savepoint was ended while an inner one was open
        self.failed = False  # the DBAPI COMMIT failed: "rollback() fully before proceeding"

    def pending(self) -> List[int]:
        out: List[int] = []
        for l in self.levels:
            out.extend(l)
        return out

    def ctx_blocked(self) -> bool:
        """Inside a ``with`` block of this Connection whose transaction has already ended."""
        for hi in reversed(self.ctx):
            h = self.handles[hi]
            if h.gen == self.gen:
                return not h.active
        return False

    def autobegin(self):
        if not self.in_txn:
            self.in_txn = True
            self.root_h = None
            self.levels = [[]]
            self.sp = []
            self.dbsp = []

    def end_root(self, commit: bool):
        if commit:
            self.committed.extend(self.pending())
        for hi in self.sp:
            self.handles[hi].active = False
        if self.root_h is not None:
            self.handles[self.root_h].active = False
        self.in_txn = False
        self.root_h = None
        self.levels = [[]]
        self.sp = []
        self.dbsp = []
        self.taint = False
        self.failed = False

    def new_root(self) -> int:
        self.in_txn = True
        self.levels = [[]]
        self.sp = []
        self.dbsp = []
        self.handles.append(_H("root", self.gen))
        self.root_h = len(self.handles) - 1
        return self.root_h

    def new_nested(self) -> int:
        self.autobegin()
        self.handles.append(_H("nested", self.gen))
        hi = len(self.handles) - 1
        self.sp.append(hi)
        self.dbsp.append(hi)
        self.levels.append([])
        return hi

    def end_nested(self, hi: int, commit: bool) -> bool:
        """End the open savepoint ``hi``; returns True when it was *not* the innermost one (SQL semantics
        are applied: RELEASE / ROLLBACK TO of an outer savepoint destroys the inner ones)."""
        pos = self.sp.index(hi)
        out_of_order = pos != len(self.sp) - 1
        if commit:
            merged: List[int] = []
            for l in self.levels[pos + 1:]:
                merged.extend(l)
            del self.levels[pos + 1:]
            self.levels[pos].extend(merged)
        else:
            del self.levels[pos + 1:]
        dpos = self.dbsp.index(hi)
        del self.dbsp[(dpos if commit else dpos + 1):]
        self.handles[hi].active = False
        if out_of_order:
            # what the Connection reports about the destroyed inner savepoints is outside the oracle
            self.taint = True
        else:
            self.sp.pop()
        return out_of_order


OK, INV, NOOP, ANY, DBERR = "ok", "must-raise-InvalidRequestError", "no-op (may raise InvalidRequestError)", "any", "DBAPIError"


# alphabets: 0 = everything except the failing commit; 1 = without the near-duplicates (handle.close ~
# handle.rollback, get_transaction, with-begin ~ begin + with-exit) for the longest histories of the thorough
# tier; 2 = histories in which the DBAPI's commit() may fail with an ordinary (non-disconnect) error
ALPHABETS = [
    [INSERT, BEGIN, BEGIN_NESTED, C_COMMIT, C_ROLLBACK, H_COMMIT, H_ROLLBACK, H_CLOSE, WITH_BEGIN, WITH_NESTED,
     EXIT_OK, EXIT_EXC, RECONNECT, GET_TRANS],
    [INSERT, BEGIN, BEGIN_NESTED, C_COMMIT, C_ROLLBACK, H_COMMIT, H_ROLLBACK, WITH_NESTED, EXIT_OK, EXIT_EXC, RECONNECT],
    [INSERT, BEGIN, BEGIN_NESTED, C_COMMIT, C_ROLLBACK, H_COMMIT, H_ROLLBACK, H_CLOSE, RECONNECT, C_COMMIT_FAIL],
]


def codes(alpha: int, n: int) -> List[Tuple[int, int]]:
    """The step alphabet of a history of length ``n``: (operation, handle index) pairs; a handle operation
    may name any of the (at most n-1) handles created earlier."""
    al = ALPHABETS[alpha]
    out = [(op, 0) for op in al if op not in HOPS]
    for op in al:
        if op in HOPS:
            out.extend((op, k) for k in range(n - 1))
    return out


def _pick(x, lo: int, hi: int) -> int:
    """Concrete value of the symbolic int ``x`` (known to be in [lo, hi)): binary search over solver-decided
    comparisons, one path per feasible value (``concrete()`` may visit a value twice)."""
    while hi - lo > 1:
        mid = (lo + hi) // 2
        if x < mid:
            hi = mid
        else:
            lo = mid
    return lo


def _statically_possible(prefix) -> bool:
    """Necessary condition on a history prefix of (op, k) steps: a handle operation needs that many earlier
    handle-creating steps, a with-exit needs an open with block."""
    max_handles = 0
    max_ctx = 0
    maybe_txn = False
    for op, k in prefix:
        if op in (INSERT, BEGIN, BEGIN_NESTED, WITH_BEGIN, WITH_NESTED):
            maybe_txn = True
        if op in HOPS:
            if k >= max_handles:
                return False
        elif op in (EXIT_OK, EXIT_EXC):
            if max_ctx <= 0:
                return False
            max_ctx -= 1
        elif op in (BEGIN, BEGIN_NESTED):
            max_handles += 1
        elif op == GET_TRANS:
            if maybe_txn:  # get_transaction() returns None outside a transaction
                max_handles += 1
        elif op in (WITH_BEGIN, WITH_NESTED):
            max_handles += 1
            max_ctx += 1
    return True


def _h_txn(n: int, alpha: int, c0: int, lo1: int, hi1: int, ops) -> bool:
    """History of ``n`` steps; step i is ``codes(alpha, n)[ops[i]]``.  If ``c0 >= 0`` the slice fixes the
    first step and, if ``lo1 >= 0``, restricts the second step to ``lo1 <= ops[1] < hi1``; everything else
    is symbolic."""
    table = codes(alpha, n)
    r = len(table)
    ok = True
    fixed = 0
    if c0 >= 0:
        ok = ops[0] == c0
        fixed = 1
    for x in ops[fixed:]:
        ok = ok & (0 <= x) & (x < r)
    if lo1 >= 0:
        ok = ok & (lo1 <= ops[1]) & (ops[1] < hi1)
    assume(ok)  # one fork for all bounds
    # realise the history (solver-decided binary search per step) and drop histories that are impossible
    # whatever SQLAlchemy does, before an engine is built
    hist = []
    for i in range(n):
        c = c0 if i < fixed else (_pick(ops[i], lo1, hi1) if (i == 1 and lo1 >= 0) else _pick(ops[i], 0, r))
        hist.append(table[c])
        assume(_statically_possible(hist))
    # from here on everything is concrete: the real SQLAlchemy code runs with the tracer paused
    try:
        return native(_run_concrete, hist)
    except Assume:
        assume(False)  # a precondition that depends on what SQLAlchemy did (see _run)


def _make(n: int):
    def h(alpha, c0, lo1, hi1, ops):
        return _h_txn(n, alpha, c0, lo1, hi1, ops)

    h.__name__ = h.__qualname__ = "h_txn_%d" % n
    h.__annotations__ = {"alpha": int, "c0": int, "lo1": int, "hi1": int, "ops": Tuple[(int,) * n], "return": bool}
    h.__doc__ = "symbolic history of %d steps" % n
    return h


MAXN = 6
H_TXN = {n: _make(n) for n in range(1, MAXN + 1)}
globals().update({h.__name__: h for h in H_TXN.values()})


def _run_concrete(hist) -> bool:
    with warnings.catch_warnings():
        warnings.simplefilter("ignore")
        return _run(hist)


def _effects(srv) -> int:
    """Number of DBAPI calls so far that can change anything (opening a cursor cannot)."""
    return len([1 for _, op in srv.log if op != "cursor"])


def _setup():
    registry.register("fake23", "props.C23", "Dialect23")
    srv = Server23()
    eng = create_engine("fake23://", module=fakedb.FakeDBAPI(srv))
    return eng, srv, eng.connect()


def _run(hist) -> bool:
    eng, srv, conn = _setup()
    m = Model()
    handles = []  # real Transaction objects, parallel to m.handles
    for i in range(len(hist)):
        op, k = hist[i]
        if op in HOPS:
            assume(k < len(handles))
        name = OPNAMES[op]
        if m.taint:
            # after an out-of-order savepoint operation only operations ending the outer transaction
            # are inside the oracle
            ends_root = op in (C_COMMIT, C_ROLLBACK, RECONNECT) or (
                op in (H_COMMIT, H_ROLLBACK, H_CLOSE) and m.handles[k].kind == "root" and m.handles[k].active)
            assume(ends_root)
        raw = conn.connection.dbapi_connection
        log0 = _effects(srv)
        expect = OK
        v = i + 1
        what = name
        act = None  # model transition, applied only if the real operation did not raise
        # ---- model: expectation from the pre-state
        if m.failed:
            # the DBAPI COMMIT failed: the transaction stays in place "so that a rollback needs to occur"
            what = name + ":after-failed-commit"
            if op in (INSERT, BEGIN, BEGIN_NESTED, C_COMMIT, C_COMMIT_FAIL):
                expect = INV
            elif op == C_ROLLBACK:
                act = ("end_root", False)
            elif op in HOPS:
                mh = m.handles[k]
                what = "%s:%s-%s:after-failed-commit" % (name, mh.kind, "current" if mh.active else "ended")
                if mh.kind == "root" and mh.active:
                    if op == H_COMMIT:
                        expect = INV
                    else:
                        act = ("end_root", False)
                elif op == H_COMMIT:
                    expect = INV
                else:
                    expect = NOOP
            elif op == RECONNECT:
                act = ("reconnect",)
            else:
                assume(False)
        elif op == C_COMMIT_FAIL:
            if m.in_txn:
                expect = DBERR
                srv.faults[srv.calls + 1] = "error"
                act = ("fail_commit",)
        elif op == INSERT:
            if m.ctx_blocked():
                expect = INV
            else:
                act = ("insert", v)
        elif op in (BEGIN, WITH_BEGIN):
            if m.in_txn or m.ctx_blocked():
                expect = INV
            else:
                act = ("new_root",)
        elif op in (BEGIN_NESTED, WITH_NESTED):
            if m.ctx_blocked():
                expect = INV
            else:
                act = ("new_nested",)
        elif op == C_COMMIT:
            if m.in_txn:
                act = ("end_root", True)
        elif op == C_ROLLBACK:
            if m.in_txn:
                act = ("end_root", False)
        elif op in (H_COMMIT, H_ROLLBACK, H_CLOSE, EXIT_OK, EXIT_EXC):
            if op in (EXIT_OK, EXIT_EXC):
                assume(len(m.ctx) > 0)
                k = m.ctx.pop()  # the block is left whatever __exit__ does
            mh = m.handles[k]
            commit = op in (H_COMMIT, EXIT_OK)
            what = "%s:%s-%s" % (name, mh.kind, "active" if mh.active else "ended")
            if mh.active:
                if mh.kind == "root":
                    act = ("end_root", commit)
                else:
                    # RELEASE / ROLLBACK TO are statements: inside a with block whose own transaction has
                    # already ended they are refused ("Can't operate on closed transaction inside context
                    # manager") after the handle was marked inactive -- outside the oracle
                    assume(not m.ctx_blocked())
                    act = ("end_nested", k, commit)
                    if m.sp[-1] != k:
                        what += "-with-inner-open"
                        expect = ANY
            elif op == H_COMMIT:
                expect = INV
            elif op in (H_ROLLBACK, H_CLOSE):
                expect = NOOP
            # leaving a ``with`` block whose transaction already ended: nothing to do, must not raise
        elif op == RECONNECT:
            act = ("reconnect",)
        # ---- the real thing
        raised = None
        dberr = None
        ret = None
        try:
            if op == INSERT:
                conn.exec_driver_sql("INSERT %d" % v)
            elif op == BEGIN:
                ret = conn.begin()
            elif op == BEGIN_NESTED:
                ret = conn.begin_nested()
            elif op == WITH_BEGIN:
                ret = conn.begin()
                if ret.__enter__() is not ret:
                    _fail("with-enter:returns-other-object")
            elif op == WITH_NESTED:
                ret = conn.begin_nested()
                if ret.__enter__() is not ret:
                    _fail("with-enter:returns-other-object")
            elif op in (C_COMMIT, C_COMMIT_FAIL):
                conn.commit()
            elif op == C_ROLLBACK:
                conn.rollback()
            elif op == H_COMMIT:
                handles[k].commit()
            elif op == H_ROLLBACK:
                handles[k].rollback()
            elif op == H_CLOSE:
                handles[k].close()
            elif op == EXIT_OK:
                handles[k].__exit__(None, None, None)
            elif op == EXIT_EXC:
                e = _BlockError("raised inside the with block")
                if handles[k].__exit__(_BlockError, e, None):
                    _fail("with-exit-exception:swallows-the-exception")
            elif op == RECONNECT:
                conn.close()
                if not conn.closed:
                    _fail("conn.close:not-closed")
                if raw.pending or raw.savepoints:
                    _fail("conn.close:work-left-on-dbapi-connection", "%r %r" % (raw.pending, raw.savepoints))
                conn = eng.connect()
            elif op == GET_TRANS:
                ret = conn.get_transaction()
        except sa_exc.InvalidRequestError as e:  # includes ResourceClosedError, PendingRollbackError
            raised = e
        except sa_exc.DBAPIError as e:
            if expect != DBERR:
                _fail("%s:unexpected-DBAPIError" % what, repr(e))
            dberr = e
        srv.faults.clear()
        # ---- compare
        if expect == DBERR:
            if dberr is None:
                _fail("%s:DBAPI-error-not-raised" % what, repr(raised))
            # rows stay uncommitted on the server (the fake COMMIT failed before taking effect); every
            # savepoint handle is cancelled; the Connection waits for rollback()
            m.failed = True
            for hi in m.sp:
                m.handles[hi].active = False
            m.sp = []
            act = None
        if expect == OK and raised is not None:
            _fail("%s:unexpected-error" % what, repr(raised))
        if expect == INV and raised is None:
            _fail("%s:did-not-raise" % what)
        if raised is not None:
            # "raise instead of acting": the model stays in its pre-state
            if _effects(srv) != log0:
                _fail("%s:raised-but-touched-the-dbapi-connection" % what, repr(srv.log[-3:]))
        else:
            if expect == NOOP and _effects(srv) != log0:
                _fail("%s:touched-the-dbapi-connection" % what, repr(srv.log[-3:]))
            new_handle = None
            if act is not None:
                if act[0] == "insert":
                    m.autobegin()
                    m.levels[-1].append(act[1])
                elif act[0] == "new_root":
                    new_handle = m.new_root()
                elif act[0] == "new_nested":
                    new_handle = m.new_nested()
                elif act[0] == "end_root":
                    m.end_root(act[1])
                elif act[0] == "end_nested":
                    m.end_nested(act[1], act[2])
                elif act[0] == "reconnect":
                    if m.in_txn:
                        m.end_root(False)
                    m.taint = False
                    m.gen += 1
            if op in (BEGIN, BEGIN_NESTED, WITH_BEGIN, WITH_NESTED):
                handles.append(ret)
                if op in (WITH_BEGIN, WITH_NESTED):
                    m.ctx.append(new_handle)
        if op == GET_TRANS:
            # the current root transaction object, also when it was begun implicitly
            if (ret is not None) != m.in_txn:
                _fail("get_transaction:presence")
            if ret is not None:
                if m.root_h is None:
                    m.handles.append(_H("root", m.gen))
                    m.root_h = len(m.handles) - 1
                    handles.append(ret)
                elif handles[m.root_h] is not ret:
                    _fail("get_transaction:other-object")
        raw = conn.connection.dbapi_connection
        if srv.committed != m.committed:
            _fail("%s:committed-rows" % what, "server %r model %r" % (srv.committed, m.committed))
        if raw.pending != m.pending():
            _fail("%s:uncommitted-rows" % what, "dbapi %r model %r" % (raw.pending, m.pending()))
        if not m.taint and not m.failed:
            if conn.in_transaction() != m.in_txn:
                _fail("%s:in_transaction" % what, "real %r model %r" % (conn.in_transaction(), m.in_txn))
            if conn.in_nested_transaction() != (len(m.sp) > 0):
                _fail("%s:in_nested_transaction" % what, "real %r model %r" % (conn.in_nested_transaction(), len(m.sp) > 0))
            if len(raw.savepoints) != len(m.dbsp):
                _fail("%s:open-savepoints" % what, "dbapi %r model %d" % (raw.savepoints, len(m.dbsp)))
            for j in range(len(handles)):
                if bool(handles[j].is_active) != m.handles[j].active:
                    _fail("%s:is_active-of-%s-handle" % (what, m.handles[j].kind),
                          "handle %d real %r model %r" % (j, handles[j].is_active, m.handles[j].active))
    return True


# --------------------------------------------------------------------------------------------------

META = {
    "explanation": "Real Engine/Connection/RootTransaction/NestedTransaction/TransactionalContext over a transactional fake DBAPI. "
                   "The operation history (a tuple of step codes: operation + handle index) is symbolic; the solver decides every "
                   "step (binary search over z3-decided comparisons), statically impossible histories are cut before an engine is "
                   "built, and the SQLAlchemy code then runs on the realised history (no symbolic value can reach it: statements are "
                   "fixed strings).  After every step in_transaction(), in_nested_transaction(), every handle's is_active, the rows "
                   "committed on the fake server, the uncommitted rows and the number of savepoints on the DBAPI connection are compared "
                   "with a stack-of-pending-lists reference model; expected InvalidRequestErrors must be raised without any DBAPI call.",
    "functions": [
        "engine.base.Connection.{begin,begin_nested,_autobegin,commit,rollback,close,in_transaction,in_nested_transaction,"
        "get_transaction,exec_driver_sql,_execute_context,_begin_impl,_commit_impl,_rollback_impl,_savepoint_impl,"
        "_release_savepoint_impl,_rollback_to_savepoint_impl,_invalid_transaction}",
        "engine.base.RootTransaction.{__init__,_do_commit,_do_rollback,_do_close,_close_impl,_deactivate_from_connection}",
        "engine.base.NestedTransaction.{__init__,_do_commit,_do_rollback,_do_close,_close_impl,_cancel,_deactivate_from_connection}",
        "engine.base.Transaction.{commit,rollback,close}",
        "engine.util.TransactionalContext.{__enter__,__exit__,_trans_ctx_check}",
        "pool checkin on Connection.close (QueuePool, reset_on_return=rollback)",
    ],
    "bounds": {
        "quick": {"history length": "<=4 over the 14 operations of ALPHABETS[0]; <=3 over ALPHABETS[2] (with a DBAPI commit() that fails)",
                  "handle operations": "commit/rollback/close on any handle created earlier (active, ended, stale, of a closed Connection)"},
        "thorough": {"history length": "<=4 over ALPHABETS[0]; 5 over the 11 operations of ALPHABETS[1]; <=4 over ALPHABETS[2]",
                     "handle operations": "any handle created earlier"},
    },
    "outside": [
        "real servers (SQLite/PostgreSQL/MariaDB): the fake DBAPI implements standard SAVEPOINT semantics (ROLLBACK TO keeps the savepoint), "
        "statement errors do not abort the transaction, a failed COMMIT leaves the transaction open (as SQLite does for deferred constraints)",
        "two-phase transactions, async, threads",
        "after RELEASE / ROLLBACK TO of an *outer* savepoint while an inner one is open (undocumented misuse; SQLAlchemy warns and keeps the "
        "inner handle 'active'): only the rows are checked and the history must continue with an operation that ends the outer transaction",
        "RELEASE / ROLLBACK TO of an open savepoint issued inside a with block whose own transaction has already ended (refused with "
        "InvalidRequestError after the handle was already marked inactive)",
        "rollback()/close() of an already ended handle may either raise InvalidRequestError or be a no-op (the test-suite expects a warning); "
        "in both cases nothing may change",
        "in_transaction()/is_active while the Connection waits for rollback() after a failed DBAPI commit; with-blocks in those histories",
        "DBAPI failures other than one ordinary error in commit() (see C27)",
    ],
    "stubs": ["vlib/fakedb.py fake DBAPI, extended in props/C23.py (Dialect23/Cursor23): SAVEPOINT / RELEASE / ROLLBACK TO are statements "
              "executed through Connection.exec_driver_sql, as on real dialects; no SQL is compiled"],
    "assumptions": ["with-blocks are exited in LIFO order (as the with statement guarantees)",
                    "engine creation, the first connect and everything after the solver has fixed the history run concretely (tracer paused)"],
}


def _slices(n: int, alpha: int, split: int):
    """split 0: one slice; 1: one slice per first step; k > 1: per first step and k ranges of the second."""
    if split == 0:
        return [dict(alpha=alpha, c0=-1, lo1=-1, hi1=-1)]
    table = codes(alpha, n)
    r = len(table)
    out = []
    for c0, step0 in enumerate(table):
        if not _statically_possible([step0]):
            continue
        if split == 1 or n < 2:
            out.append(dict(alpha=alpha, c0=c0, lo1=-1, hi1=-1))
            continue
        bounds = [(j * r) // split for j in range(split + 1)]
        for j in range(split):
            lo, hi = bounds[j], bounds[j + 1]
            if any(_statically_possible([step0, table[c1]]) for c1 in range(lo, hi)):
                out.append(dict(alpha=alpha, c0=c0, lo1=lo, hi1=hi))
    return out


def harnesses(tier: str) -> List[Harness]:
    q = tier == "quick"
    per_n = {n: [] for n in range(1, MAXN + 1)}
    per_n[1] += _slices(1, 0, 0)
    per_n[2] += _slices(2, 0, 0)
    per_n[3] += _slices(3, 0, 1)
    per_n[4] += _slices(4, 0, 1)
    if not q:
        per_n[5] += _slices(5, 1, 2)
    # DBAPI commit() failing with an ordinary error
    per_n[1] += _slices(1, 2, 0)
    per_n[2] += _slices(2, 2, 0)
    per_n[3] += _slices(3, 2, 0)
    if not q:
        per_n[4] += _slices(4, 2, 0)
    return [Harness("txn_history_n%d" % n, H_TXN[n], sl, budget_s=150 if q else 800) for n, sl in per_n.items() if sl]


def _history(hname, args):
    n = int(hname.rsplit("n", 1)[1])
    table = codes(args["alpha"], n)
    return [table[c] for c in args["ops"]]


def _tag(rep) -> str:
    s = (rep or {}).get("exception") or ""
    if "[[" in s and "]]" in s:
        return s.split("[[", 1)[1].split("]]", 1)[0]
    return ""


def classify(hname, args, rep):
    key, what = _classify(hname, args, rep)
    return key, "%s  [key %s]" % (what, key)


def _classify(hname, args, rep):
    tag = _tag(rep)
    exc_s = (rep or {}).get("exception") or ""
    hist = [OPNAMES[o] + ("(%d)" % k if o in HOPS else "") for o, k in _history(hname, args)]
    if tag in ("handle.rollback:root-ended:in_nested_transaction", "handle.close:root-ended:in_nested_transaction") \
            and "real False model True" in exc_s:
        # rollback()/close() on a RootTransaction that has already ended, while a *later* transaction of the
        # same Connection has an open savepoint: the savepoint's NestedTransaction is cancelled
        return ("C23:stale-root-rollback-or-close:cancels-savepoints-of-current-transaction",
                "rollback()/close() of an already ended RootTransaction cancels the open savepoints of the Connection's current "
                "transaction (in_nested_transaction() turns False, NestedTransaction.rollback() then silently does nothing): history %s" % hist)
    if tag in ["%s:after-failed-commit:%s" % (o, w) for o in ("conn.rollback", "handle.rollback:root-current", "handle.close:root-current")
               for w in ("uncommitted-rows", "open-savepoints")]:
        return ("C23:rollback-after-failed-commit:no-dbapi-rollback",
                "after the DBAPI commit() failed (transaction still open on the server) rollback() of the Connection / RootTransaction "
                "emits no DBAPI rollback: the rows stay uncommitted on the connection and are committed by the next commit(): history %s: %s"
                % (hist, exc_s[:200]))
    if tag == "conn.close:work-left-on-dbapi-connection" and C_COMMIT_FAIL in [o for o, _ in _history(hname, args)]:
        return ("C23:close-after-failed-commit:no-dbapi-rollback",
                "after the DBAPI commit() failed Connection.close() returns the DBAPI connection to the pool without any rollback "
                "(uncommitted rows left on it): history %s: %s" % (hist, exc_s[:200]))
    if tag:
        return ("C23:" + tag, "history %s: %s" % (hist, exc_s[:300]))
    return ("C23:history:%s" % "/".join(hist), "history %s fails: %s" % (hist, exc_s[:300]))


def run(tier: str, seed: int):
    return framework.run_symx(PID, __name__, tier, seed, harnesses(tier), classify, META)
