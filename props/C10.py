"""C10 Result objects deliver exactly the underlying rows under any access pattern (E1 symx).

The real ``IteratorResult`` / ``ChunkedIteratorResult`` / ``FrozenResult`` / ``MergedResult`` and their
``scalars()/mappings()/columns()/unique()/yield_per()`` views, and the real ``CursorResult`` with the three
cursor fetch strategies over a lazy pure-Python DBAPI cursor, are driven by a *symbolic operation history*
and compared, call by call, with a plain-list model.

Symbolic inputs: the number of rows ``n`` (the row source tests ``i < n`` lazily, so the solver forks on
exhaustion only where a call can observe it), the first-column values ``vals[i]`` (duplicates matter for
``unique()``), the op codes and the size arguments.  Second column = row position, so that *which* row was
delivered is observable.
"""
from __future__ import annotations

from typing import List, Optional

from vlib import fakedb
from vlib import framework
from vlib.framework import Harness
from vlib.symx import assume, concrete, native, pick

from sqlalchemy import exc
from sqlalchemy import pool as sa_pool
from sqlalchemy.engine import cursor as _cursor
from sqlalchemy.engine import default as _default
from sqlalchemy.engine.result import ChunkedIteratorResult
from sqlalchemy.engine.result import IteratorResult
from sqlalchemy.engine.result import SimpleResultMetaData
from sqlalchemy.engine.row import Row
from sqlalchemy.engine.row import RowMapping

PID = "C10"

# ------------------------------------------------------------------------------------------
# operation alphabet

OPS = ["fetchone", "fetchmany", "all", "first", "one", "one_or_none", "scalar", "scalar_one",
       "scalar_one_or_none", "partition", "next", "iter", "close", "fetchall"]
(FETCHONE, FETCHMANY, ALL, FIRST, ONE, ONE_OR_NONE, SCALAR, SCALAR_ONE, SCALAR_ONE_OR_NONE, PART, NEXT, ITER,
 CLOSE, FETCHALL) = range(len(OPS))
SIZED = (FETCHMANY, PART)
ONLY_ONE = (FIRST, ONE, ONE_OR_NONE, SCALAR, SCALAR_ONE, SCALAR_ONE_OR_NONE)

OPEN, DEAD, HARD = 0, 1, 2


def _key0(row):
    return row[0]


# filter configurations: how the view is derived from the Result, which columns a delivered object shows
# (in order), how it is represented, whether uniquing (on column "a") is active, the source row width
FILTERS = {
    "plain": dict(ncols=2, cols="ab", kind="row", uniq=False, apply=lambda r, k: r),
    "scalars0": dict(ncols=2, cols="a", kind="scalar", uniq=False, apply=lambda r, k: r.scalars()),
    "scalars1": dict(ncols=2, cols="b", kind="scalar", uniq=False, apply=lambda r, k: r.scalars(1)),
    "scalarsb": dict(ncols=2, cols="b", kind="scalar", uniq=False, apply=lambda r, k: r.scalars("b")),
    "mappings": dict(ncols=2, cols="ab", kind="map", uniq=False, apply=lambda r, k: r.mappings()),
    "columns10": dict(ncols=2, cols="ba", kind="row", uniq=False, apply=lambda r, k: r.columns(1, 0)),
    "columnsb": dict(ncols=2, cols="b", kind="row", uniq=False, apply=lambda r, k: r.columns("b")),
    "map_columns10": dict(ncols=2, cols="ba", kind="map", uniq=False, apply=lambda r, k: r.columns(1, 0).mappings()),
    "yield_per": dict(ncols=2, cols="ab", kind="row", uniq=False, yp=True, apply=lambda r, k: r.yield_per(k)),
    "scalars_yp": dict(ncols=2, cols="a", kind="scalar", uniq=False, yp=True, apply=lambda r, k: r.scalars().yield_per(k)),
    "uniq1": dict(ncols=1, cols="a", kind="row", uniq=True, apply=lambda r, k: r.unique()),
    "uniq_cols0": dict(ncols=2, cols="a", kind="row", uniq=True, apply=lambda r, k: r.columns(0).unique()),
    "uniq_scalars": dict(ncols=2, cols="a", kind="scalar", uniq=True, apply=lambda r, k: r.scalars().unique()),
    "uniq_then_scalars": dict(ncols=2, cols="a", kind="scalar", uniq=True, apply=lambda r, k: r.unique().scalars()),
    "uniq_strategy": dict(ncols=2, cols="ab", kind="row", uniq=True, apply=lambda r, k: r.unique(_key0)),
    "uniq_map": dict(ncols=2, cols="a", kind="map", uniq=True, apply=lambda r, k: r.columns(0).mappings().unique()),
    "uniq_yp": dict(ncols=1, cols="a", kind="row", uniq=True, yp=True, apply=lambda r, k: r.unique().yield_per(k)),
    # 1-column sources (scalar sources: the ORM single-entity case)
    "plain1": dict(ncols=1, cols="a", kind="row", uniq=False, apply=lambda r, k: r),
    "scalars1c": dict(ncols=1, cols="a", kind="scalar", uniq=False, apply=lambda r, k: r.scalars()),
    "mappings1": dict(ncols=1, cols="a", kind="map", uniq=False, apply=lambda r, k: r.mappings()),
    "uniq_scalars1": dict(ncols=1, cols="a", kind="scalar", uniq=True, apply=lambda r, k: r.scalars().unique()),
}


# Filters applied *late*: some rows are fetched first, through the object ``pre`` builds (a plain Result, or an
# already derived ScalarResult / MappingResult), THEN ``late`` modifies that same object (or derives a view from
# it), and fetching continues through what ``late`` returns.  cols/kind/uniq describe the delivered objects before
# (0) and after (1) the late filter; ``yp``: the late filter is yield_per(k).
LATE = {
    "uniq1": dict(ncols=1, pre=lambda r: r, cols0="a", kind0="row", late=lambda r, v, k: v.unique(),
                  cols="a", kind="row", uniq=True),
    "uniq_cols0": dict(ncols=2, pre=lambda r: r, cols0="ab", kind0="row", late=lambda r, v, k: v.columns(0).unique(),
                       cols="a", kind="row", uniq=True),
    "uniq_strategy": dict(ncols=2, pre=lambda r: r, cols0="ab", kind0="row", late=lambda r, v, k: v.unique(_key0),
                          cols="ab", kind="row", uniq=True),
    "uniq_scalars": dict(ncols=2, pre=lambda r: r, cols0="ab", kind0="row", late=lambda r, v, k: v.unique().scalars(),
                         cols="a", kind="scalar", uniq=True),
    "columns10": dict(ncols=2, pre=lambda r: r, cols0="ab", kind0="row", late=lambda r, v, k: v.columns(1, 0),
                      cols="ba", kind="row", uniq=False),
    "scalars0": dict(ncols=2, pre=lambda r: r, cols0="ab", kind0="row", late=lambda r, v, k: v.scalars(),
                     cols="a", kind="scalar", uniq=False),
    "mappings": dict(ncols=2, pre=lambda r: r, cols0="ab", kind0="row", late=lambda r, v, k: v.mappings(),
                     cols="ab", kind="map", uniq=False),
    "yield_per": dict(ncols=2, pre=lambda r: r, cols0="ab", kind0="row", late=lambda r, v, k: v.yield_per(k),
                      cols="ab", kind="row", uniq=False, yp=True),
    # the filter object exists already and has been fetched from when it is modified
    "scalars_then_uniq": dict(ncols=2, pre=lambda r: r.scalars(), cols0="a", kind0="scalar", late=lambda r, v, k: v.unique(),
                              cols="a", kind="scalar", uniq=True),
    "mappings_then_uniq": dict(ncols=1, pre=lambda r: r.mappings(), cols0="a", kind0="map", late=lambda r, v, k: v.unique(),
                               cols="a", kind="map", uniq=True),
    "mappings_then_columns": dict(ncols=2, pre=lambda r: r.mappings(), cols0="ab", kind0="map",
                                  late=lambda r, v, k: v.columns(1, 0), cols="ba", kind="map", uniq=False),
    "scalars_then_yp": dict(ncols=2, pre=lambda r: r.scalars(), cols0="a", kind0="scalar", late=lambda r, v, k: v.yield_per(k),
                            cols="a", kind="scalar", uniq=False, yp=True),
}


def _ops_for(kind: str):
    if kind == "scalar":
        return [o for o in range(len(OPS)) if o not in (FETCHONE, SCALAR, SCALAR_ONE, SCALAR_ONE_OR_NONE)]
    if kind == "map":
        return [o for o in range(len(OPS)) if o not in (SCALAR, SCALAR_ONE, SCALAR_ONE_OR_NONE)]
    return list(range(len(OPS)))


# ------------------------------------------------------------------------------------------
# lazy row sources


_RELAX_CON = [False]  # classification re-runs an input under a variant: other rows may get produced


def _mkrow(vals, i, ncols, con):
    if con and not _RELAX_CON[0]:
        # value domain 0..2 where values are hashed (unique()); constrained lazily: only rows that are
        # actually produced constrain the path.  Without uniquing the values stay unconstrained ints.
        v = vals[i]
        assume(0 <= v <= 2)
    if ncols == 2:
        return (vals[i], i)
    if ncols == 1:
        return (vals[i],)
    return vals[i]  # ncols == 0: scalar source


def _gen(vals, lo, cap, n, ncols, con):
    """rows lo <= i < min(cap, n); ``i < n`` is decided by the solver only when a consumer asks"""
    i = lo
    while i < cap and i < n:
        yield _mkrow(vals, i, ncols, con)
        i += 1


def _mkchunks(vals, n, ncols, con):
    """Same contract and shape as the ``chunks(size)`` closure of orm/loading.py ``instances()``:
    every call continues from the shared position; size None/0 = everything that is left, once."""
    st = [0]

    def chunks(size):
        while True:
            out = []
            while st[0] < n and (not size or len(out) < size):
                out.append(_mkrow(vals, st[0], ncols, con))
                st[0] += 1
            if size and not out:
                break
            yield out
            if not size:
                break

    return chunks


# ------------------------------------------------------------------------------------------
# plain-list model


class _Model:
    def __init__(self, vals, n, ncols, cols, kind, uniq, yp, variant=None):
        self.vals, self.n, self.ncols, self.cols, self.kind = vals, n, ncols, cols, kind
        self.uniq, self.yp, self.variant = uniq, yp, variant
        self.pos = 0
        self.seen = []
        self.delivered = []  # first-column values of the rows handed out so far
        self.state = OPEN
        self.soft_before = False  # (classification only) soft closed before the single-row call that closed it

    def refilter(self, cols, kind, uniq, yp, earlier_rows_count: bool):
        """a filter is applied while rows have been fetched already: it governs the remaining rows.  For
        unique(): ``earlier_rows_count`` selects the reading -- do duplicates of rows delivered *before*
        unique() was applied count as seen (True) or does the set of seen rows start empty (False)?"""
        self.cols, self.kind, self.uniq, self.yp = cols, kind, uniq, yp
        self.seen = list(self.delivered) if (uniq and earlier_rows_count) else []

    def soft_dead(self) -> bool:
        """(classification only) a variant that lets the result stay merely soft closed after a single-row call"""
        return self.state == DEAD and (self.variant == "soft-close-after-single-row"
                                       or (self.variant == "no-hard-close-when-exhausted-before" and self.soft_before))

    # -- deliverable rows -----------------------------------------------------------------
    def pull(self):
        """index of the next deliverable source row, or None"""
        while self.pos < self.n:
            i = self.pos
            self.pos += 1
            if self.uniq:
                v = self.vals[i]
                if v in self.seen:
                    continue
                self.seen.append(v)
            self.delivered.append(self.vals[i])
            return i
        return None

    def take(self, k):
        rows = []
        while len(rows) < k:
            i = self.pull()
            if i is None:
                break
            rows.append(i)
        return rows

    def take_all(self):
        rows = []
        while True:
            i = self.pull()
            if i is None:
                return rows
            rows.append(i)

    # -- the known _only_one_row deviation (classification only) ---------------------------
    def _pull_raw(self):
        if self.pos < self.n:
            i = self.pos
            self.pos += 1
            self.delivered.append(self.vals[i])
            return i
        return None

    # -- representation checks -----------------------------------------------------------
    def exp_tuple(self, i):
        return tuple(self.vals[i] if c == "a" else i for c in self.cols)

    def is_obj(self, got, i):
        e = self.exp_tuple(i)
        if self.kind == "scalar":
            return (not isinstance(got, (Row, RowMapping))) and (got is e[0] or got == e[0])
        if self.kind == "map":
            if not isinstance(got, RowMapping) or len(got) != len(e):
                return False
            for j in range(len(self.cols)):
                if not (got[self.cols[j]] == e[j]):
                    return False
            return list(got.keys()) == list(self.cols)
        if type(got) is not Row or len(got) != len(e):
            return False
        for j in range(len(e)):
            if not (got[j] is e[j] or got[j] == e[j]):
                return False
        return True

    def is_opt(self, got, i):
        return got is None if i is None else self.is_obj(got, i)

    def is_list(self, got, idx):
        if isinstance(got, (str, bytes)) or not hasattr(got, "__len__") or len(got) != len(idx):
            return False
        got = list(got)
        for j in range(len(idx)):
            if not self.is_obj(got[j], idx[j]):
                return False
        return True

    def is_scalar(self, got, i):
        if i is None:
            return got is None
        e = self.exp_tuple(i)[0]
        return got is e or got == e

    # -- one call ---------------------------------------------------------------------------
    def step(self, op, n, kind, got):
        if op == CLOSE:
            self.state = HARD
            return kind == "ok" and got is None
        if self.state != OPEN:
            # HARD: Result.close() -- "cause any subsequent iteration or row fetching to raise ResourceClosedError".
            # DEAD: after a "single row or value" method.  first(): "Closes the result set and discards remaining
            # rows"; scalar(): "the object is fully closed, e.g. the CursorResult.close() method will have been
            # called"; changelog (#7274): "All Result objects will now consistently raise ResourceClosedError if
            # they are used after a hard close, which includes the 'hard close' that occurs after calling 'single
            # row or value' methods like Result.first() and Result.scalar()" (test_resultset: "first(), scalar() and
            # one() which want to embed a hard close") -> the same contract as after close(), whatever the outcome
            # of the single-row call was (row, None, NoResultFound, MultipleResultsFound).
            if kind == "closed":
                return True
            # a request for zero rows fetches nothing: the empty outcome is accepted as well (not documented)
            if op in SIZED and n == 0:
                return kind == "stop" if op == PART else (kind == "ok" and self.is_list(got, []))
            if self.state == DEAD and (self.variant == "soft-close-after-single-row"
                                       or (self.variant == "no-hard-close-when-exhausted-before" and self.soft_before)):
                # (classification only) the result behaves as merely soft closed: empty outcomes
                if op == FETCHONE or op in (FIRST, SCALAR, ONE_OR_NONE, SCALAR_ONE_OR_NONE):
                    return kind == "ok" and got is None
                if op in (FETCHMANY, ALL, FETCHALL):
                    return kind == "ok" and self.is_list(got, [])
                return kind == ("none" if op in (ONE, SCALAR_ONE) else "stop")
            return False
        # OPEN
        if op == FETCHONE:
            return kind == "ok" and self.is_opt(got, self.pull())
        if op in (NEXT, ITER):
            i = self.pull()
            if i is None:
                return kind == "stop"
            return kind == "ok" and self.is_obj(got, i)
        if op in SIZED:
            if n < 0 and self.yp is None:
                # "the fetchmany default, which may be backend specific and not well defined": any non-empty
                # prefix of the deliverable rows; empty only at exhaustion
                if op == PART and kind == "stop":
                    return self.pull() is None
                if kind != "ok" or isinstance(got, (str, bytes)) or not hasattr(got, "__len__"):
                    return False
                if len(got) == 0:
                    return op == FETCHMANY and self.pull() is None
                return self.is_list(got, self.take(len(got)))
            if n == 0 and self.variant == "size0-closes":
                self.pos = self.n  # (classification only) FullyBuffered: an empty fetchmany() result soft-closes
            rows = self.take(self.yp if n < 0 else n)
            if op == PART and not rows:
                return kind == "stop"
            return kind == "ok" and self.is_list(got, rows)
        if op in (ALL, FETCHALL):
            return kind == "ok" and self.is_list(got, self.take_all())
        # _only_one_row family
        ignore_seen = self.variant == "onerow-ignores-seen" and self.uniq
        first = self._pull_raw() if ignore_seen else self.pull()
        self.state = DEAD
        scalar = op in (SCALAR, SCALAR_ONE, SCALAR_ONE_OR_NONE)
        if first is None:
            if op in (ONE, SCALAR_ONE):
                return kind == "none"
            return kind == "ok" and got is None
        if op in (ONE, ONE_OR_NONE, SCALAR_ONE, SCALAR_ONE_OR_NONE):
            if ignore_seen:
                second = None
                while True:
                    j = self._pull_raw()
                    if j is None:
                        break
                    if self.vals[j] != self.vals[first]:
                        second = j
                        break
            else:
                second = self.pull()
            if second is not None:
                return kind == "multi"
        if kind != "ok":
            return False
        return self.is_scalar(got, first) if scalar else self.is_obj(got, first)


def _call(view, op, n):
    size = None if n < 0 else n
    if op == FETCHONE:
        return view.fetchone()
    if op == FETCHMANY:
        return view.fetchmany(size)
    if op == ALL:
        return view.all()
    if op == FETCHALL:
        return view.fetchall()
    if op == FIRST:
        return view.first()
    if op == ONE:
        return view.one()
    if op == ONE_OR_NONE:
        return view.one_or_none()
    if op == SCALAR:
        return view.scalar()
    if op == SCALAR_ONE:
        return view.scalar_one()
    if op == SCALAR_ONE_OR_NONE:
        return view.scalar_one_or_none()
    if op == PART:
        return next(view.partitions(size))
    if op == NEXT:
        return next(view)
    if op == ITER:
        return next(iter(view))
    if op == CLOSE:
        return view.close()
    raise AssertionError(op)


def _observe(view, op, n):
    try:
        return "ok", _call(view, op, n)
    except exc.MultipleResultsFound:
        return "multi", None
    except exc.NoResultFound:
        return "none", None
    except exc.ResourceClosedError:
        return "closed", None
    except StopIteration:
        return "stop", None


GROUP_SIZED, GROUP_ROW, GROUP_CLOSING = 0, 1, 2
_ORDER = [FETCHMANY, PART,  # sized
          FETCHONE, NEXT, ITER,  # row at a time
          ALL, FETCHALL, CLOSE, FIRST, ONE, ONE_OR_NONE, SCALAR, SCALAR_ONE, SCALAR_ONE_OR_NONE]  # closing; ONLY_ONE last


class _Table:
    """The call alphabet of one configuration: (op, size) pairs, size -1 = None (no argument), ordered so that
    every class of calls the slicing refers to is a contiguous range of codes (a range test on a symbolic
    code costs two solver decisions; decoding it costs one per table entry)."""

    def __init__(self, kind: str, smin: int, smax: int, no_zero: bool = False):
        allowed = _ops_for(kind)
        self.calls = []
        for op in _ORDER:
            if op not in allowed:
                continue
            if op in SIZED:
                self.calls.extend((op, z) for z in range(smin, smax + 1) if not (no_zero and z == 0))
            else:
                self.calls.append((op, 0))
        ops = [c[0] for c in self.calls]

        def rng(pred):
            idx = [i for i, o in enumerate(ops) if pred(o)]
            assert idx == list(range(idx[0], idx[-1] + 1))
            return idx[0], idx[-1] + 1

        self.group = {GROUP_SIZED: rng(lambda o: o in SIZED), GROUP_ROW: rng(lambda o: o in (FETCHONE, NEXT, ITER)),
                      GROUP_CLOSING: rng(lambda o: o not in SIZED and o not in (FETCHONE, NEXT, ITER))}
        self.only_one = rng(lambda o: o in ONLY_ONE)
        self.close = ops.index(CLOSE)
        self.fetchall = ops.index(FETCHALL)
        self.zero = [i for i, c in enumerate(self.calls) if c[0] in SIZED and c[1] == 0]


_TABLES = {}


def _table(kind: str, smin: int, smax: int, no_zero: bool = False) -> _Table:
    key = (kind, smin, smax, no_zero)
    if key not in _TABLES:
        _TABLES[key] = _Table(*key)
    return _TABLES[key]


def _in(c, rng) -> bool:
    return rng[0] <= c < rng[1]


def _risky(risk: str, tables, codes) -> bool:
    """Histories on which a defect already attributed to a specific root cause (see classify) can show.
    Purely a *partition* of the history space into slices (tail=1: the complement, tail=2: these); both parts
    are explored in full with the same oracle."""
    for t in range(len(codes)):
        c, T = codes[t], tables[t]
        if "u" in risk and t >= 1 and _in(c, T.only_one):
            return True  # first()/one()/scalar*() after rows were consumed, under unique()
        if "d" in risk and t >= 1 and _in(c, T.group[GROUP_SIZED]):
            return True  # fetchmany()/partitions() after another fetch, dynamic_yield_per
    return False


class _Run:
    """what one history runs against: the object calls go through before / after the late filter, the call
    alphabets, the model(s) -- more than one when the documentation leaves two readings open; a history passes
    if one reading explains every observation"""

    def __init__(self, view, models, T, npre=0, late=None, T1=None, after=None):
        self.view, self.models, self.T0, self.npre, self.late = view, models, T, npre, late
        self.T1 = T if T1 is None else T1
        self.after = after


def _drive(run: _Run, codes, g0, g1, g2, risk, tail):
    npre = run.npre
    tables = [run.T0 if t < npre else run.T1 for t in range(len(codes))]
    # the part of the history space this slice is responsible for (range tests on the symbolic codes) ...
    for t in range(len(codes)):
        T = tables[t]
        assume(0 <= codes[t] < len(T.calls))
        assume(t == 0 or codes[t] != T.fetchall)  # synonym of all(): only as a single call
        if t < npre:
            assume(codes[t] < T.group[GROUP_CLOSING][0])  # calls before the late filter leave the result open
    if g0 >= 0:
        assume(_in(codes[0], tables[0].group[g0]))
    if g1 >= 0:
        assume(_in(codes[1], tables[1].group[g1]))
    if g2 >= 0:
        assume(_in(codes[2], tables[2].group[g2]))
    if tail:
        assume(_risky(risk, tables, codes) == (tail == 2))
    # ... then call by call: decode (a balanced tree of solver-decided comparisons) and run
    view, models = run.view, run.models
    for t in range(len(codes)):
        if npre and t == npre:
            view = run.late(view, models)
        T = tables[t]
        op, n = T.calls[pick(codes[t], len(T.calls))]
        if op in ONLY_ONE and models[0].variant == "no-hard-close-when-exhausted-before":
            # (classification only) was the result already soft closed -- by exhaustion -- before this call?
            for m in models:
                m.soft_before = bool(view._soft_closed)
        kind, got = _observe(view, op, n)
        models = [m for m in models if m.step(op, n, kind, got)]
        if not models:
            return False
        # Result.closed: "True if this Result was hard closed ... not True if the Result was only soft closed"
        if bool(view.closed) != (models[0].state != OPEN) and not models[0].soft_dead():
            return False
        if run.after is not None and not run.after(models[0]):
            return False
    return True


# ------------------------------------------------------------------------------------------
# harness 1: in-memory results

MD2 = ["a", "b"]
MD1 = ["a"]


def _build_source(src: str, vals, n, ncols, k: int, con: bool):
    md = SimpleResultMetaData(list(MD2 if ncols == 2 else MD1))
    if src == "iter":
        return IteratorResult(md, _gen(vals, 0, len(vals), n, ncols, con))
    if src == "sscalar":
        # rows are bare scalars (ORM single entity): _source_supports_scalars
        return IteratorResult(md, _gen(vals, 0, len(vals), n, 0, con), _source_supports_scalars=True)
    if src == "chunked":
        return ChunkedIteratorResult(md, _mkchunks(vals, n, ncols, con), dynamic_yield_per=False)
    if src == "chunked_dyn":
        return ChunkedIteratorResult(md, _mkchunks(vals, n, ncols, con), dynamic_yield_per=True)
    if src == "merged":
        a = IteratorResult(md, _gen(vals, 0, k, n, ncols, con))
        b = IteratorResult(md, _gen(vals, k, len(vals), n, ncols, con))
        return a.merge(b)
    if src == "merged3":
        a = IteratorResult(md, _gen(vals, 0, k, n, ncols, con))
        b = IteratorResult(md, _gen(vals, k, k + 1, n, ncols, con))
        c = IteratorResult(md, _gen(vals, k + 1, len(vals), n, ncols, con))
        return a.merge(b, c)
    raise AssertionError(src)


def _args(nmax, nops, vs, cs):
    return list(vs[:nmax]), list(cs[:nops])


def _models(vals, n, ncols, spec, k, variant, late: bool):
    """late unique(): Result.unique() says the rows returned "will [be] filtered such that each row is returned
    uniquely" and that "a Python set() is used to store these identities" -- it does not say whether rows
    handed out before unique() was called are part of that set, so both readings are accepted (one model each)."""
    if not late:
        return [_Model(vals, n, ncols, spec["cols"], spec["kind"], spec["uniq"], k if spec.get("yp") else None, variant)]
    ms = [_Model(vals, n, ncols, spec["cols0"], spec["kind0"], False, None, variant)]
    if spec["uniq"]:
        ms.append(_Model(vals, n, ncols, spec["cols0"], spec["kind0"], False, None, variant))
    return ms


def _late_fn(base, spec, k, variant):
    def late(view, models):
        out = spec["late"](base, view, k)
        if variant == "late-reset-memoizations":
            out._reset_memoizations()  # (classification only) what @_generative would have done
        for j, m in enumerate(models):
            m.refilter(spec["cols"], spec["kind"], spec["uniq"], k if spec.get("yp") else None, j == 1)
        return out

    return late


def _run_mem(src, flt, k, npre, nmax, smin, smax, g0, g1, g2, tail, n, vals, codes, variant=None):
    assume(0 <= n <= nmax)
    f = LATE[flt] if npre else FILTERS[flt]
    ncols = f["ncols"]
    if src in ("frozen", "frozen_pre"):
        base = IteratorResult(SimpleResultMetaData(list(MD2 if ncols == 2 else MD1)), _gen(vals, 0, nmax, n, ncols, f["uniq"]))
        if src == "frozen_pre":
            # filter (column slice / uniquing) applied before freezing; the thawed result shows its effect
            frozen = f["apply"](base, k).freeze()
        else:
            frozen = base.freeze()
        other = frozen()
        other.fetchone()  # an independent thawed copy must not influence the next one
        view = frozen() if src == "frozen_pre" else f["apply"](frozen(), k)
        return _drive(_Run(view, _models(vals, n, ncols, f, k, variant, False), _table(f["kind"], smin, smax)),
                      codes, g0, g1, g2, _risk_of(src, flt, npre), tail)
    base = _build_source(src, vals, n, ncols, k, f["uniq"])
    models = _models(vals, n, ncols, f, k, variant, bool(npre))
    if not npre:
        run = _Run(f["apply"](base, k), models, _table(f["kind"], smin, smax))
    else:
        run = _Run(f["pre"](base), models, _table(f["kind0"], smin, smax), npre, _late_fn(base, f, k, variant),
                   _table(f["kind"], smin, smax))
    return _drive(run, codes, g0, g1, g2, _risk_of(src, flt, npre), tail)


def _risk_of(src_or_strategy: str, flt: str, npre: int = 0) -> str:
    r = ""
    if (LATE[flt] if npre else FILTERS[flt])["uniq"]:
        r += "u"
    if src_or_strategy == "chunked_dyn":
        r += "d"
    return r


def h_mem(src: str, flt: str, k: int, npre: int, nmax: int, nops: int, smin: int, smax: int, g0: int, g1: int, g2: int, tail: int,
          n: int, v0: int, v1: int, v2: int, v3: int, v4: int, v5: int, c0: int, c1: int, c2: int, c3: int) -> bool:
    vals, codes = _args(nmax, nops, (v0, v1, v2, v3, v4, v5), (c0, c1, c2, c3))
    return _run_mem(src, flt, k, npre, nmax, smin, smax, g0, g1, g2, tail, n, vals, codes)


# ------------------------------------------------------------------------------------------
# harness 2: CursorResult over a lazy fake DBAPI cursor, three fetch strategies


class _Cur(fakedb.FakeCursor):
    arraysize = 2

    def execute(self, statement, parameters=None):
        if statement != "SELECT2":
            return super().execute(statement, parameters)
        self.conn._check("execute")
        srv = self.conn.server
        self._vals, self._n, self._con, self._pos = srv.vals, srv.n, srv.con, 0
        self.description = (("a", None, None, None, None, None, None), ("b", None, None, None, None, None, None))
        self.rowcount = -1
        srv.cursors.append(self)

    def _ck(self):
        if self.closed:  # like every real DBAPI
            raise fakedb.ProgrammingError("fake: cursor is closed")

    def _next(self):
        i = self._pos
        self._pos += 1
        return _mkrow(self._vals, i, 2, self._con)

    def fetchone(self):
        self._ck()
        if self._pos < self._n:
            return self._next()
        return None

    def fetchmany(self, size=None):
        self._ck()
        k = self.arraysize if size is None else size
        out = []
        while len(out) < k and self._pos < self._n:
            out.append(self._next())
        return out

    def fetchall(self):
        self._ck()
        out = []
        while self._pos < self._n:
            out.append(self._next())
        return out


class _Conn(fakedb.FakeConnection):
    def cursor(self):
        self._check("cursor")
        return _Cur(self)


class _Srv(fakedb.FakeServer):
    def __init__(self):
        super().__init__()
        self.reset([], 0, False)

    def reset(self, vals, n, con):
        self.vals, self.n, self.con = vals, n, con
        self.cursors = []
        del self.connections[:]
        del self.log[:]
        self.calls = 0

    def connect(self):
        self.tick(None, "connect")
        c = _Conn(self, len(self.connections))
        self.connections.append(c)
        return c


class _Ctx(_default.DefaultExecutionContext):
    def create_server_side_cursor(self):
        return self._dbapi_connection.cursor()

    def post_exec(self):
        # the way dialects (mssql, oracle, ...) select the fully buffered strategy
        if self.execution_options.get("c10_fully_buffered", False):
            self.cursor_fetch_strategy = _cursor.FullyBufferedCursorFetchStrategy(self.cursor)


class C10Dialect(fakedb.FakeDialect):
    name = "fakec10"
    supports_server_side_cursors = True
    supports_statement_cache = True
    execution_ctx_cls = _Ctx


def _engine():
    from sqlalchemy import create_engine
    from sqlalchemy.dialects import registry

    registry.impls["fakec10"] = lambda: C10Dialect  # (registry.register() would re-import this module)
    srv = _Srv()
    eng = create_engine("fakec10://", module=fakedb.FakeDBAPI(srv), poolclass=sa_pool.NullPool)
    with eng.connect():  # first-connect initialisation of the dialect happens here, once, concretely
        pass
    return eng, srv


# One engine per interpreter, NullPool: every harness run gets a brand new DBAPI connection and cursor and
# resets the fake server, so no state is carried between paths; nothing symbolic ever reaches the engine
# construction (create_engine / URL parsing are not what is being checked here).
ENG, SRV = _engine()

CURSOR_FILTERS = ("plain", "scalars0", "mappings", "columns10", "uniq_cols0", "uniq_scalars", "uniq_strategy")
STRATEGIES = ("default", "buffered", "buffered_dflt", "fully", "default_yp", "buffered_yp", "fully_yp")
_WANT = {"default": _cursor.CursorFetchStrategy, "default_yp": _cursor.CursorFetchStrategy,
         "fully": _cursor.FullyBufferedCursorFetchStrategy, "fully_yp": _cursor.FullyBufferedCursorFetchStrategy}


def _run_cur(strategy, flt, k, npre, nmax, smin, smax, g0, g1, g2, tail, n, m, vals, codes, variant=None):
    assume(0 <= n <= nmax)
    f = LATE[flt] if npre else FILTERS[flt]
    SRV.reset(vals, n, f["uniq"])
    conn = ENG.connect()
    try:
        if strategy in ("buffered", "buffered_yp"):
            assume(1 <= m <= 7)
            c2 = conn.execution_options(stream_results=True, max_row_buffer=m)
        elif strategy == "buffered_dflt":
            c2 = conn.execution_options(stream_results=True)
        elif strategy in ("fully", "fully_yp"):
            c2 = conn.execution_options(c10_fully_buffered=True)
        else:
            c2 = conn
        res = c2.exec_driver_sql("SELECT2")
        if type(res.cursor_strategy) is not _WANT.get(strategy, _cursor.BufferedRowCursorFetchStrategy):
            return False
        if strategy.endswith("_yp"):
            res = res.yield_per(k)
        if strategy == "default_yp" and type(res.cursor_strategy) is not _cursor.BufferedRowCursorFetchStrategy:
            return False
        cur = SRV.cursors[0]
        late_yp = bool(npre) and bool(f.get("yp"))

        def after(model):
            st = res.cursor_strategy
            if isinstance(st, _cursor.BufferedRowCursorFetchStrategy):
                # "grows its buffer size ... up the max_row_buffer size" (a yield_per() applied late may find more
                # rows buffered than its new size: they are drained, not refilled)
                if st._max_row_buffer >= 1 and (st._bufsize > st._max_row_buffer
                                                or (not late_yp and len(st._rowbuffer) > st._max_row_buffer)):
                    return False
            if model.state != OPEN:
                # closed: the DBAPI cursor is released, CursorResult.closed says so
                if not cur.closed or res.cursor is not None:
                    return False
                if res.closed is not True and not model.soft_dead():
                    return False
            elif res.closed:
                return False
            return True

        spec = dict(f)
        if strategy.endswith("_yp") and not npre:
            spec["yp"] = True
        models = _models(vals, n, 2, spec, k, variant, bool(npre))
        if not npre:
            run = _Run(f["apply"](res, k), models, _cur_table(strategy, f["kind"], smin, smax), after=after)
        else:
            run = _Run(f["pre"](res), models, _cur_table(strategy, f["kind0"], smin, smax), npre,
                       _late_fn(res, f, k, variant), _cur_table(strategy, f["kind"], smin, smax), after=after)
        return _drive(run, codes, g0, g1, g2, _risk_of(strategy, flt, npre), tail)
    finally:
        conn.close()


def _cur_table(strategy, kind, smin, smax) -> _Table:
    # fetchmany(0) on the pass-through strategy is whatever the DBAPI makes of it -> outside
    return _table(kind, smin, smax, strategy == "default")


def h_cur(strategy: str, flt: str, k: int, npre: int, nmax: int, nops: int, smin: int, smax: int, g0: int, g1: int, g2: int, tail: int,
          n: int, m: int,
          v0: int, v1: int, v2: int, v3: int, v4: int, v5: int, c0: int, c1: int, c2: int, c3: int) -> bool:
    vals, codes = _args(nmax, nops, (v0, v1, v2, v3, v4, v5), (c0, c1, c2, c3))
    return _run_cur(strategy, flt, k, npre, nmax, smin, smax, g0, g1, g2, tail, n, m, vals, codes)


# ------------------------------------------------------------------------------------------

META = {
    "explanation": "Operation histories on the real IteratorResult / ChunkedIteratorResult / FrozenResult / MergedResult "
                   "(engine/result.py, pure-Python engine/_result_cy.py) with scalars/mappings/columns/unique/yield_per "
                   "views, and on the real CursorResult with CursorFetchStrategy / BufferedRowCursorFetchStrategy / "
                   "FullyBufferedCursorFetchStrategy (engine/cursor.py) over a lazy pure-Python DBAPI cursor, compared call "
                   "by call with a plain-list model (rows in order, projected, de-duplicated; documented exceptions; "
                   "Result.closed and ResourceClosedError after close()/first()/one()/scalar*(); filters applied before any "
                   "fetch and *late*, after rows were fetched through the same object). "
                   "Row count, first-column values, op codes, size arguments and max_row_buffer are symbolic.",
    "functions": [
        "engine._result_cy.BaseResultInternal.{_row_getter,_iterator_getter,_onerow_getter,_manyrow_getter,_allrows,"
        "_only_one_row,_unique_strategy,_next_impl,_iter_impl}", "engine._result_cy._apply_unique_strategy",
        "engine.result.Result.{fetchone,fetchmany,fetchall,all,first,one,one_or_none,scalar,scalar_one,scalar_one_or_none,"
        "partitions,__next__,__iter__,close,columns,scalars,mappings,unique,yield_per,freeze,merge}",
        "engine.result.{ScalarResult,MappingResult,FilterResult}.*", "engine.result.SimpleResultMetaData.{_reduce,_for_freeze}",
        "engine.result.IteratorResult.{_fetchone_impl,_fetchmany_impl,_fetchall_impl,_fetchiter_impl,_soft_close}",
        "engine.result.ChunkedIteratorResult.{yield_per,_fetchmany_impl,_soft_close}", "engine.result.FrozenResult.{__init__,__call__}",
        "engine.result.MergedResult.{__init__,_soft_close}",
        "engine.cursor.CursorResult.{_fetchone_impl,_fetchmany_impl,_fetchall_impl,_fetchiter_impl,_soft_close,close,yield_per}",
        "engine.cursor.CursorFetchStrategy.*", "engine.cursor.BufferedRowCursorFetchStrategy.{__init__,_buffer_rows,fetchone,"
        "fetchmany,fetchall,yield_per,soft_close,hard_close}", "engine.cursor.FullyBufferedCursorFetchStrategy.*",
        "engine.cursor.NoCursorDQLFetchStrategy._non_result", "engine.default.DefaultExecutionContext._setup_dml_or_text_result",
    ],
    "bounds": {},
    "outside": [
        "real DBAPI cursors; fetchmany(0) and fetchmany() default size on the pass-through CursorFetchStrategy (DBAPI-defined)",
        "negative sizes; yield_per(<1)", "unhashable row values under unique()", "threads",
        "continuing an iterator obtained from iter(result) across a close of the result (each iteration step uses a fresh iter())",
        "row values beyond 0..2, row counts / history lengths beyond the bound", "compiled (.so) variants of the _cy modules",
        "CursorResultMetaData key lookup rules (targeting by Column objects), splice_horizontally/vertically",
    ],
    "stubs": ["DBAPI: lazy pure-Python cursor (props/C10.py _Cur over vlib/fakedb.py) with 2 columns; raises on use after close"],
    "assumptions": [
        "closedness is an observable: after every call Result.closed must be False while the result is open or only "
        "soft closed (exhausted) and True after close() and after first()/one()/one_or_none()/scalar()/scalar_one()/"
        "scalar_one_or_none() whatever their outcome, and every later fetch must raise ResourceClosedError. Reading: "
        "first() 'Closes the result set and discards remaining rows'; scalar() 'the object is fully closed, e.g. the "
        "CursorResult.close() method will have been called'; changelog #7274 'All Result objects will now consistently raise "
        "ResourceClosedError if they are used after a hard close, which includes the hard close that occurs after calling "
        "single row or value methods like Result.first() and Result.scalar()'; test_resultset 'first(), scalar() and one() "
        "which want to embed a hard close'. Left relaxed (undocumented): fetchmany(0)/partitions(0) on a closed result may "
        "return the empty outcome instead of raising",
        "filters applied late (unique/scalars/mappings/columns/yield_per after rows were fetched through the same object) "
        "govern the remaining rows. Result.unique(): the rows returned 'will [be] filtered such that each row is returned "
        "uniquely ... a Python set() is used to store these identities' -- whether rows handed out *before* unique() was "
        "called belong to that set is not stated, so both readings are accepted (two models; a history passes if one of "
        "them explains every observation); rows returned after unique() must be unique among themselves under both",
        "fetchmany(None)/partitions(None) without yield_per: any non-empty prefix of the deliverable rows is accepted "
        "(documented as backend specific); with yield_per(k>=1): exactly k",
        "unique() realises the first-column values at the hash-set boundary: one path per value",
    ],
}


def _slices(configs, cursor=False):
    """Slices partition the history space of one configuration by history length, by the group of the first
    (for length 3 also the second and third) call -- sized / row-at-a-time / closing -- and, for configurations
    where an already attributed defect can show, into the histories that can trigger it (tail=2) and the rest
    (tail=1).  ``first`` = "nonterminal": histories of length >= 2 start with a call that leaves the result
    open; what follows a closing first call is covered at full width by the "all" configurations.  ``npre`` > 0:
    that many (non-closing) calls come before the late filter, at least one call after it.
    Inputs that cannot influence the run (values beyond nmax, codes beyond the history length, max_row_buffer
    of strategies that do not read it) are fixed, so they are not symbolic at all."""
    out = []
    for cfg in configs:
        cfg = dict(cfg)
        first, maxops = cfg.pop("first"), cfg.pop("maxops")
        npre = cfg.setdefault("npre", 0)
        risk = _risk_of(cfg.get("src", cfg.get("strategy")), cfg["flt"], npre)
        open_groups = (GROUP_SIZED, GROUP_ROW)
        allg = (GROUP_SIZED, GROUP_ROW, GROUP_CLOSING)
        groups = open_groups if (first == "nonterminal" or npre) else allg

        def add(nops, g0, g1, g2, tail):
            d = dict(cfg)
            d.update(nops=nops, g0=g0, g1=g1, g2=g2, tail=tail)
            for i in range(cfg["nmax"], 6):
                d["v%d" % i] = 0
            for i in range(nops, 4):
                d["c%d" % i] = 0
            if cursor and cfg["strategy"] not in ("buffered", "buffered_yp"):
                d["m"] = 0
            out.append(d)

        if not npre:
            add(1, -1, -1, -1, 0)
        for nops in range(max(2, npre + 1), maxops + 1):
            g1s = (-1,) if nops < 3 else (open_groups if npre >= 2 else allg)
            for g0 in groups:
                for g1 in g1s:
                    for g2 in ((-1,) if nops < 3 else allg):
                        add(nops, g0, g1, g2, 1 if risk else 0)
            if risk:
                if nops < 3:
                    if groups is allg:
                        add(nops, -1, -1, -1, 2)
                    else:
                        for g0 in groups:
                            add(nops, g0, -1, -1, 2)
                else:
                    for g0 in groups:
                        for g1 in g1s:
                            add(nops, g0, g1, -1, 2)
    return out


def _configs(tier: str):
    q = tier == "quick"
    # (rows, sizes, history length, first call) per class of configuration
    if q:
        core = dict(nmax=3, smin=-1, smax=2, maxops=2, first="all")
        rest = dict(nmax=3, smin=-1, smax=2, maxops=2, first="nonterminal")
        deep = deep_nt = None
    else:
        core = rest = dict(nmax=4, smin=-1, smax=2, maxops=2, first="all")
        deep = dict(nmax=3, smin=-1, smax=2, maxops=3, first="all")  # histories of length 3
        deep_nt = dict(nmax=3, smin=-1, smax=2, maxops=3, first="nonterminal")
    late1 = dict(nmax=3, smin=-1, smax=1 if q else 2, maxops=2, first="nonterminal")
    late3 = dict(nmax=3, smin=-1, smax=1, maxops=3, first="nonterminal")
    mem, cur = [], []

    def M(src, flt, k=0, cls=None):
        mem.append(dict(src=src, flt=flt, k=k, **(cls or rest)))

    def C(strategy, flt, k=0, cls=None):
        cur.append(dict(strategy=strategy, flt=flt, k=k, **(cls or rest)))

    M("iter", "plain", cls=core if q else deep)
    M("iter", "uniq1", cls=core if q else deep_nt)
    M("merged", "plain", 1, cls=core)
    for flt in ("scalars0", "mappings", "uniq_scalars", "uniq_strategy"):
        M("iter", flt)
    M("iter", "yield_per", 2)
    M("sscalar", "uniq1")
    if not q:
        M("iter", "columns10")
        M("chunked", "yield_per", 2)
    M("chunked_dyn", "plain")
    M("chunked_dyn", "yield_per", 2)
    M("frozen", "plain")
    M("frozen_pre", "uniq_cols0")
    M("merged", "uniq1", 1)
    C("default", "plain", cls=core)
    C("buffered", "plain", cls=core if q else deep_nt)
    C("fully", "plain", cls=core)
    C("buffered", "uniq_cols0")
    C("default_yp", "plain", 2)
    if not q:
        C("buffered_dflt", "plain")
    # filters applied late: one fetch, then the filter, then one more call (thorough: 1+2 and 2+1 calls)
    lates = [dict(late1, npre=1)] if q else [dict(late1, npre=1, maxops=2), dict(late3, npre=1), dict(late3, npre=2)]
    for lt in lates:
        if lt["maxops"] == 3:
            M("iter", "uniq1", cls=lt)
            M("iter", "scalars_then_uniq", cls=lt)
            if lt["npre"] == 1:
                C("buffered", "uniq_cols0", cls=lt)
            continue
        for flt in ("uniq1", "scalars0", "columns10", "scalars_then_uniq", "mappings_then_uniq"):
            M("iter", flt, cls=lt)
        M("iter", "yield_per", 2, cls=lt)
        M("chunked", "yield_per", 2, cls=lt)
        C("buffered", "uniq_cols0", cls=lt)
        C("fully", "uniq_cols0", cls=lt)
        C("default", "yield_per", 2, cls=lt)  # the strategy object is exchanged while rows have been fetched
        C("fully", "scalars0", cls=lt)
        if not q:
            for flt in ("uniq_cols0", "mappings", "uniq_strategy", "uniq_scalars", "mappings_then_columns", "scalars_then_yp"):
                M("iter", flt, 2, cls=lt)
            M("sscalar", "uniq1", cls=lt)
            M("merged", "uniq1", 1, cls=lt)
            M("chunked_dyn", "uniq1", cls=lt)
            C("buffered", "yield_per", 2, cls=lt)
            C("default", "uniq_cols0", cls=lt)
            C("buffered_dflt", "scalars_then_uniq", cls=lt)
            C("fully", "scalars_then_uniq", cls=lt)
    if not q:
        M("iter", "uniq1")  # length <= 2 with every first call (the length-3 run starts with a non-closing call)
        C("buffered", "plain")
        for flt in ("scalars1", "scalarsb", "columnsb", "map_columns10", "uniq_cols0", "uniq_then_scalars", "uniq_map"):
            M("iter", flt)
        M("iter", "uniq_yp", 2)
        M("iter", "scalars_yp", 2)
        M("iter", "yield_per", 1)
        M("iter", "yield_per", 3)
        for flt in ("plain1", "scalars1c", "mappings1", "uniq_scalars1"):
            M("sscalar", flt)
        M("chunked", "plain")
        M("chunked", "uniq1")
        M("chunked_dyn", "uniq1")
        M("chunked_dyn", "yield_per", 3)
        M("frozen", "uniq1")
        M("frozen", "columns10")
        M("frozen_pre", "plain")
        M("frozen_pre", "columns10")
        M("merged", "plain", 0)
        M("merged", "plain", 2)
        M("merged", "scalars0", 1)
        M("merged3", "plain", 1)
        C("default", "uniq_cols0")
        C("fully", "uniq_cols0")
        C("buffered", "scalars0")
        C("fully", "mappings")
        C("buffered_yp", "plain", 2)
        C("fully_yp", "plain", 2)
        C("default_yp", "plain", 1)
        C("buffered_dflt", "uniq_cols0")
    return mem, cur, core, rest, deep


def _describe(c):
    return {"rows": "0..%d (symbolic, decided lazily at each fetch)" % c["nmax"],
            "sizes": "None,%d..%d" % (max(c["smin"], 0), c["smax"]), "history length": "<=%d" % c["maxops"],
            "first call": c["first"]}


def harnesses(tier: str) -> List[Harness]:
    q = tier == "quick"
    mem, cur, core, rest, deep = _configs(tier)
    b = {
        "first-column values": "0..2 where uniquing hashes them, unconstrained ints otherwise",
        "max_row_buffer": "1..7 symbolic", "yield_per": "2" if q else "1..3",
        "configurations": sorted({"%s/%s%s" % (c["src"], "late:" if c.get("npre") else "", c["flt"]) for c in mem}
                                 | {"cursor:%s/%s%s" % (c["strategy"], "late:" if c.get("npre") else "", c["flt"]) for c in cur}),
    }
    if q:
        b["core configurations (iter/plain, iter/uniq1, merged/plain; cursor default/plain, buffered/plain, fully/plain)"] = _describe(core)
        b["other configurations"] = _describe(rest)
        b["late-filter configurations (npre=1: one non-closing call, the filter, one call)"] = _describe(
            [c for c in mem if c.get("npre")][0])
    else:
        b["all configurations"] = _describe(rest)
        b["additionally iter/plain (any first call) and iter/uniq1, cursor buffered/plain (first call leaves the result open)"] = _describe(deep)
        b["late-filter configurations"] = "1 call + filter + 1 call (rows 0..3, sizes None,0..2); 1+2 and 2+1 calls (sizes " \
            "None,0..1) for iter/uniq1, iter/scalars_then_uniq; 1+2 calls for cursor buffered/uniq_cols0"
    META["bounds"][tier] = b
    return [
        # (budgets are CPU seconds per slice and only a cap)
        Harness("mem", h_mem, _slices(mem), budget_s=240 if q else 2400, per_path_timeout=10 if q else 30),
        Harness("cur", h_cur, _slices(cur, cursor=True), budget_s=240 if q else 2400, per_path_timeout=10 if q else 30),
    ]


def _decode(hname, a):
    npre = a.get("npre", 0)
    f = LATE[a["flt"]] if npre else FILTERS[a["flt"]]

    def tab(kind):
        return _cur_table(a["strategy"], kind, a["smin"], a["smax"]) if hname == "cur" else _table(kind, a["smin"], a["smax"])

    codes = [a["c%d" % i] for i in range(a["nops"])]
    calls = [tab(f["kind0"] if t < npre else f["kind"]).calls[c] for t, c in enumerate(codes)]
    vals = [a["v%d" % i] for i in range(a["nmax"])]
    return calls, codes, vals


def _fmt(calls, npre=0):
    names = [OPS[o] + ("(%s)" % ("None" if z < 0 else z) if o in SIZED else "") for o, z in calls]
    if npre:
        names.insert(npre, "<late filter>")
    return ",".join(names)


K_ONEROW = "C10:_only_one_row:unique-ignores-seen-set"
K_FULLY0 = "C10:FullyBufferedCursorFetchStrategy:fetchmany(0)-closes-result"
K_CHUNKDYN = "C10:ChunkedIteratorResult:dynamic_yield_per:fetchmany-drops-buffered-chunk"
K_MERGED = "C10:MergedResult:close-does-not-close-merged-iterator"


def _holds(fn, *a, **kw):
    from vlib.symx import Assume
    _RELAX_CON[0] = True
    try:
        return bool(fn(*a, **kw))
    except Assume:
        return False
    except Exception:  # noqa: BLE001
        return False
    finally:
        _RELAX_CON[0] = False


K_LATE_UNIQUE = "C10:FilterResult.unique:applied-after-fetching-is-ignored-by-memoized-getters"
K_CHUNK_YP = "C10:ChunkedIteratorResult:yield_per-after-fetch-drops-buffered-chunk"
K_CUR_EXHAUSTED = "C10:CursorResult:single-row-method-on-exhausted-result-does-not-hard-close"


def classify(hname, args, rep):
    """A failure is attributed to a specific defect only if the *same input* passes when exactly that
    deviation is granted (variant model / differential configuration); anything else gets its own key."""
    a = dict(args)
    npre = a.get("npre", 0)
    calls, codes, vals = _decode(hname, a)
    cfg = "%s/%s%s" % (a.get("src", a.get("strategy")), "late:" if npre else "", a["flt"])
    desc = "%s %s calls=%s n=%s vals=%s" % (hname, cfg, _fmt(calls, npre), a["n"], vals)

    def rerun(variant=None, **over):
        b = dict(a)
        b.update(over)
        if hname == "mem":
            return _holds(_run_mem, b["src"], b["flt"], b["k"], npre, b["nmax"], b["smin"], b["smax"], -1, -1, -1, 0, b["n"], vals, codes,
                          variant)
        return _holds(_run_cur, b["strategy"], b["flt"], b["k"], npre, b["nmax"], b["smin"], b["smax"], -1, -1, -1, 0, b["n"], b["m"],
                      vals, codes, variant)

    uniq = (LATE[a["flt"]] if npre else FILTERS[a["flt"]])["uniq"]
    if uniq and any(o in ONLY_ONE for o, _ in calls[1:]) and rerun("onerow-ignores-seen"):
        return (K_ONEROW, "first()/one()/scalar*() under unique() ignore the rows already seen (return or count a "
                          "duplicate of an earlier row): " + desc)
    if npre and uniq and not a["flt"].endswith("_then_uniq") and rerun("late-reset-memoizations"):
        return ("C10:Result.unique:applied-after-fetching-is-ignored-by-memoized-getters",
                "Result.unique() called after rows were fetched has no effect on the memoized row getters: " + desc)
    if npre and uniq and a["flt"].endswith("_then_uniq") and rerun("late-reset-memoizations"):
        return (K_LATE_UNIQUE, "ScalarResult/MappingResult.unique() called after rows were fetched through the same object "
                               "has no effect on fetchone/next/fetchmany/partitions/iteration (the memoized row getters "
                               "are not reset; all() honours it): " + desc)
    if hname == "mem" and npre and a["src"].startswith("chunked") and LATE[a["flt"]].get("yp") and rerun(src="iter"):
        return (K_CHUNK_YP, "ChunkedIteratorResult.yield_per() after rows were fetched drops the rest of the chunk held by "
                            "the iterator: " + desc)
    if hname == "cur" and a["strategy"].startswith("fully") and any(o in SIZED and z == 0 for o, z in calls[:-1]) \
            and rerun("size0-closes"):
        return (K_FULLY0, "fetchmany(0)/partitions(0) on the fully buffered strategy closes the result and discards "
                          "the remaining rows: " + desc)
    if hname == "mem" and a["src"] == "chunked_dyn" and any(o in SIZED for o, _ in calls[1:]) and rerun(src="chunked"):
        return (K_CHUNKDYN, "ChunkedIteratorResult(dynamic_yield_per=True): fetchmany()/partitions() after a "
                            "row-at-a-time fetch drops the rest of the chunk held by the iterator: " + desc)
    if hname == "mem" and a["src"].startswith("merged") and any(o == CLOSE or o in ONLY_ONE for o, _ in calls[:-1]) \
            and rerun(src="iter"):
        return (K_MERGED, "MergedResult: close()/one()... do not close the merged row iterator (rows are still "
                          "delivered / no ResourceClosedError): " + desc)
    single = [OPS[o] for o, _ in calls if o in ONLY_ONE]
    if single and hname == "cur" and rerun("no-hard-close-when-exhausted-before"):
        return (K_CUR_EXHAUSTED, "CursorResult: first()/one()/scalar*() on a result that is already exhausted (soft closed) do "
                                 "not hard close it (closed stays False, later fetches return empty results instead of "
                                 "raising ResourceClosedError): " + desc)
    if single and rerun("soft-close-after-single-row"):
        return ("C10:%s:%s:not-hard-closed-after-%s" % (hname, a.get("src", a.get("strategy")), single[0]),
                "after %s() the result is not hard closed (Result.closed is False / later fetches return empty results "
                "instead of raising ResourceClosedError): " % single[0] + desc)
    return ("C10:%s:%s:%s" % (hname, cfg, _fmt(calls, npre)), desc + " disagrees with the list model (%s)" % rep.get("exception"))


# Documentation only (not used by the check): a patch against the current tree that makes the open findings
# disappear -- K_ONEROW, K_CHUNKDYN + K_CHUNK_YP (one fix), K_LATE_UNIQUE, K_CUR_EXHAUSTED.  Checked with this module
# against a patched copy of lib/ (quick tier: exit 0, holds-within-bounds, no KNOWN-FINDING line) and with
# test/base/test_result.py, test/sql/test_resultset.py, test_insert_exec.py, test_returning.py, test/engine/test_execute.py,
# test/orm/test_query.py, test_loading.py, test_eager_relations.py, test_deprecations.py: 2277 passed.
SUGGESTED_FIXES = r'''
diff -ru /repo/lib/sqlalchemy/engine/_result_cy.py lib/sqlalchemy/engine/_result_cy.py
--- /repo/lib/sqlalchemy/engine/_result_cy.py	2026-09-11 03:18:07.352572464 +0000
+++ lib/sqlalchemy/engine/_result_cy.py	2026-09-22 16:18:51.690937273 +0000
@@ -541,14 +541,37 @@
             else:
                 return None
 
-        if scalar and self._source_supports_scalars:
+        if (
+            scalar
+            and self._source_supports_scalars
+            and not self._unique_filter_state
+        ):
             self._generate_rows = False
             make_row = None
         else:
+            # with uniquing, keep producing rows so that the objects
+            # compared against the "seen" collection are of the same
+            # form as the ones other fetch methods have added to it
             make_row = self._row_getter[0]
 
         try:
             row = make_row(row) if make_row is not None else row  # type: ignore[assignment] # noqa: E501
+            if self._unique_filter_state:
+                # rows already delivered by earlier fetches are not
+                # candidates for "the first row"
+                seen, seen_strategy = self._unique_strategy
+                while (
+                    seen_strategy(row) if seen_strategy is not None else row
+                ) in seen:
+                    row = onerow(hard_close=True)
+                    if row is None:
+                        if raise_for_none:
+                            raise exc.NoResultFound(
+                                "No row was found when one was required"
+                            )
+                        else:
+                            return None
+                    row = make_row(row) if make_row is not None else row  # type: ignore[assignment] # noqa: E501
         except:
             self._soft_close(hard=True)
             raise
@@ -557,7 +580,7 @@
             if self._unique_filter_state:
                 # for no second row but uniqueness, need to essentially
                 # consume the entire result :(
-                strategy = self._unique_strategy[1]
+                seen, strategy = self._unique_strategy
 
                 existing_row_hash = (
                     strategy(row) if strategy is not None else row
@@ -578,9 +601,13 @@
 
                         if strategy is not None:
                             # assert next_row is not _NO_ROW
-                            if existing_row_hash == strategy(next_row):
+                            next_hash = strategy(next_row)
+                            if (
+                                existing_row_hash == next_hash
+                                or next_hash in seen
+                            ):
                                 continue
-                        elif row == next_row:
+                        elif row == next_row or next_row in seen:
                             continue
                         # here, we have a row and it's different
                         break
diff -ru /repo/lib/sqlalchemy/engine/cursor.py lib/sqlalchemy/engine/cursor.py
--- /repo/lib/sqlalchemy/engine/cursor.py	2026-09-22 10:10:14.262909483 +0000
+++ lib/sqlalchemy/engine/cursor.py	2026-09-22 16:19:29.360018963 +0000
@@ -1193,6 +1193,19 @@
 
     __slots__ = ()
 
+    def fetchone(
+        self,
+        result: CursorResult[Unpack[TupleAny]],
+        dbapi_cursor: DBAPICursor,
+        hard_close: bool = False,
+    ) -> Any:
+        row = self._non_result(result, None)
+        if hard_close:
+            # first() / one() / scalar() on a result that is exhausted
+            # already: these methods leave the result hard closed
+            result._soft_close(hard=True)
+        return row
+
     def _non_result(
         self,
         result: CursorResult[Unpack[TupleAny]],
diff -ru /repo/lib/sqlalchemy/engine/result.py lib/sqlalchemy/engine/result.py
--- /repo/lib/sqlalchemy/engine/result.py	2026-09-22 10:10:11.146909483 +0000
+++ lib/sqlalchemy/engine/result.py	2026-09-22 16:18:51.698225602 +0000
@@ -1326,6 +1326,7 @@
 
         self._unique_filter_state = real_result._unique_filter_state
 
+    @_generative
     def unique(self, strategy: Optional[_UniqueFilterType] = None) -> Self:
         """Apply unique filtering to the objects returned by this
         :class:`_engine.ScalarResult`.
@@ -1608,6 +1609,7 @@
         if result._source_supports_scalars:
             self._metadata = self._metadata._reduce([0])
 
+    @_generative
     def unique(self, strategy: Optional[_UniqueFilterType] = None) -> Self:
         """Apply unique filtering to the objects returned by this
         :class:`_engine.MappingResult`.
@@ -1941,10 +1943,19 @@
         self.chunks = chunks
         self._source_supports_scalars = source_supports_scalars
         self.raw = raw
-        self.iterator = itertools.chain.from_iterable(self.chunks(None))
+        self._current_chunk: Iterator[Any] = iter(())
+        self.iterator = self._iter_chunks(None)
         self.dynamic_yield_per = dynamic_yield_per
         self.context = context
 
+    def _iter_chunks(self, num: Optional[int]) -> Iterator[Any]:
+        # rows left over from the chunk in progress come first, so that
+        # changing the chunk size never drops rows already fetched
+        yield from self._current_chunk
+        for chunk in self.chunks(num):
+            self._current_chunk = iter(chunk)
+            yield from self._current_chunk
+
     @_generative
     def yield_per(self, num: int) -> Self:
         # TODO: this throws away the iterator which may be holding
@@ -1954,7 +1965,7 @@
         # keep track.
 
         self._yield_per = num
-        self.iterator = itertools.chain.from_iterable(self.chunks(num))
+        self.iterator = self._iter_chunks(num)
         return self
 
     def _soft_close(self, hard: bool = False, **kw: Any) -> None:
@@ -1965,7 +1976,7 @@
         self, size: Optional[int] = None
     ) -> List[_InterimRowType[Row[Unpack[TupleAny]]]]:
         if self.dynamic_yield_per:
-            self.iterator = itertools.chain.from_iterable(self.chunks(size))
+            self.iterator = self._iter_chunks(size)
         return super()._fetchmany_impl(size=size)
 
 
'''


def run(tier: str, seed: int):
    return framework.run_symx(PID, __name__, tier, seed, harnesses(tier), classify, META)
