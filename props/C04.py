"""C04 Bound parameters are delivered to the right placeholders in every paramstyle.

Two parts:
  (a) z3 directly: is the bind-name escaping (table read from SQLCompiler.bindname_escape_characters at run
      time) injective on names, and disjoint from unescaped names?  sat models are replayed through the
      public API on sqlite3.
  (b) E1 style (b): solver-chosen statement shapes x bind-name assignments x paramstyles executed on a real
      Engine over a capturing DBAPI; the delivered (statement, parameters) pair, with each placeholder
      replaced by the value it received, must equal the literal_binds rendering of the same statement.
"""
from __future__ import annotations

import itertools
import re
import sqlite3
import time
from typing import Any, Dict, List, Optional, Tuple

import z3

from vlib import framework
from vlib.framework import Failure, Harness, Outcome
from vlib.symx import assume, concrete, native, pick

PID = "C04"
PARAMSTYLES = ["qmark", "format", "numeric", "numeric_dollar", "named", "pyformat"]
NAMES = ["a", "a_b2", "a.b", "x y", "x%y", "p(q)", "c:d", "e[0]"]


# ------------------------------------------------------------------------------------------------
# capturing DBAPI + engines


class _Cur:
    description = None
    rowcount = -1
    arraysize = 1
    lastrowid = 1

    def __init__(self, log):
        self.log = log

    def execute(self, stmt, params=None):
        self.log.append((stmt, params))

    def executemany(self, stmt, seq):
        self.log.append((stmt, list(seq)))

    def fetchone(self):
        return None

    def fetchall(self):
        return []

    def fetchmany(self, n=None):
        return []

    def close(self):
        pass

    def setinputsizes(self, *a):
        pass


class _Conn:
    def __init__(self, log):
        self.log = log

    def cursor(self):
        return _Cur(self.log)

    def commit(self):
        pass

    def rollback(self):
        pass

    def close(self):
        pass


class _DBAPI:
    apilevel = "2.0"
    threadsafety = 1

    class Error(Exception):
        pass

    def __init__(self, paramstyle):
        self.paramstyle = paramstyle
        self.log: List[Any] = []

    def connect(self, *a, **k):
        return _Conn(self.log)


_ENGINES: Dict[str, Any] = {}


def engine_for(style: str):
    if style not in _ENGINES:
        from sqlalchemy.engine import default
        from sqlalchemy.engine.base import Engine
        from sqlalchemy.engine.url import URL
        from sqlalchemy.pool import StaticPool

        dbapi = _DBAPI(style)
        d = default.DefaultDialect(paramstyle=style)
        d.dbapi = dbapi
        d.supports_statement_cache = True
        pool = StaticPool(lambda: dbapi.connect())
        _ENGINES[style] = (Engine(pool, d, URL.create("capture")), dbapi, d)
    return _ENGINES[style]


# ------------------------------------------------------------------------------------------------
# statement shapes: functions of a list of (name, value) pairs -> statement


def _shapes():
    import sqlalchemy as sa

    class Shifted(sa.TypeDecorator):
        """An integer type whose bind processing is observable (+100000), so that a parameter delivered
        without (or with another parameter's) processor is detected."""

        impl = sa.Integer
        cache_ok = True

        def process_bind_param(self, value, dialect):
            return None if value is None else value + 100000

    t = sa.table("t", sa.column("x", sa.Integer), sa.column("y", sa.Integer), sa.column("z", Shifted))
    B = sa.bindparam

    def bp(nv):
        return B(nv[0], nv[1], type_=sa.Integer)

    def bpz(nv):
        return B(nv[0], nv[1], type_=Shifted)

    def s_select_list(nvs):
        return sa.select(*[bp(nv).label("c%d" % i) for i, nv in enumerate(nvs)])

    def s_where(nvs):
        return sa.select(t.c.x).where(sa.and_(*[t.c.x == bp(nv) for nv in nvs]))

    def s_repeat(nvs):
        first = bp(nvs[0])
        return sa.select(t.c.x).where(sa.or_(t.c.x == first, *[t.c.y == bp(nv) for nv in nvs[1:]], t.c.y > first))

    def s_cte(nvs):
        cte = sa.select(t.c.x).where(t.c.x == bp(nvs[-1])).cte("c")
        return sa.select(*[bp(nv).label("c%d" % i) for i, nv in enumerate(nvs[:-1])], cte.c.x).where(cte.c.x > 0)

    def s_subq_order_limit(nvs):
        sub = sa.select(t.c.y).where(t.c.y == bp(nvs[0])).scalar_subquery()
        s = sa.select(t.c.x, sub.label("s"))
        if len(nvs) > 1:
            s = s.where(t.c.x == bp(nvs[1]))
        if len(nvs) > 2:
            s = s.order_by(t.c.x + bp(nvs[2]))
        return s.limit(7).offset(3)

    def s_having(nvs):
        s = sa.select(t.c.x, sa.func.count()).group_by(t.c.x).having(sa.func.count() > bp(nvs[0]))
        for nv in nvs[1:]:
            s = s.where(t.c.y != bp(nv))
        return s

    def s_in_expanding(nvs):
        s = sa.select(t.c.x).where(t.c.x.in_(B(nvs[0][0], [nvs[0][1], nvs[0][1] + 100, nvs[0][1] + 200], expanding=True)))
        for nv in nvs[1:]:
            s = s.where(t.c.y == bp(nv))
        return s

    def s_literal_execute(nvs):
        s = sa.select(t.c.x).where(t.c.x == B(nvs[0][0], nvs[0][1], type_=sa.Integer, literal_execute=True))
        for nv in nvs[1:]:
            s = s.where(t.c.y == bp(nv))
        return s

    def s_insert(nvs):
        vals = {"x": bp(nvs[0])}
        if len(nvs) > 1:
            vals["y"] = bp(nvs[1]) + (bp(nvs[2]) if len(nvs) > 2 else 0)
        return sa.insert(t).values(**vals)

    def s_update(nvs):
        u = sa.update(t).values(x=bp(nvs[0]))
        for nv in nvs[1:]:
            u = u.where(t.c.y == bp(nv))
        return u

    def s_text(nvs):
        frag = " + ".join(":p%d" % i for i in range(len(nvs))) + " + :p0"
        return sa.text("SELECT " + frag).bindparams(*[B("p%d" % i, nv[1]) for i, nv in enumerate(nvs)])

    def s_union(nvs):
        parts = [sa.select(bp(nv).label("v")) for nv in nvs]
        return sa.union_all(*parts) if len(parts) > 1 else parts[0]

    def s_typed_where(nvs):
        return sa.select(t.c.x).where(sa.and_(*[(t.c.z == bpz(nv)) if i % 2 == 0 else (t.c.x == bp(nv)) for i, nv in enumerate(nvs)]))

    def s_typed_in(nvs):
        s = sa.select(t.c.x).where(t.c.z.in_(B(nvs[0][0], [nvs[0][1], nvs[0][1] + 100, nvs[0][1] + 200], expanding=True, type_=Shifted)))
        for nv in nvs[1:]:
            s = s.where(t.c.y == bp(nv))
        return s

    def s_tuple_in(nvs):
        v = nvs[0][1]
        s = sa.select(t.c.x).where(sa.tuple_(t.c.x, t.c.z).in_(B(nvs[0][0], [(v, v + 1), (v + 10, v + 11), (v + 20, v + 21)], expanding=True)))
        for nv in nvs[1:]:
            s = s.where(t.c.y == bpz(nv))
        return s

    def s_anon_clash(nvs):
        # an explicit bind whose name equals the name an anonymous bind of the same statement will be given
        # (x_1, y_1 ...): must be rejected (CompileError) or delivered correctly, never merged
        s = sa.select(t.c.x).where(t.c.x == B("x_1", nvs[0][1], type_=sa.Integer)).where(t.c.x == nvs[0][1] + 50)
        for nv in nvs[1:]:
            s = s.where(t.c.y == bp(nv))
        return s.where(t.c.y == B("y_1", 7100, type_=sa.Integer)).where(t.c.y > 7200)

    return [s_select_list, s_where, s_repeat, s_cte, s_subq_order_limit, s_having, s_in_expanding, s_literal_execute, s_insert, s_update, s_text, s_union,
            s_typed_where, s_typed_in, s_tuple_in, s_anon_clash]


_SH = None


def shapes():
    global _SH
    if _SH is None:
        _SH = _shapes()
    return _SH


def name_tuples(k: int) -> List[Tuple[str, ...]]:
    return [p for p in itertools.permutations(NAMES, k) if not _collide(p)]


_ESC = None


def _escape(name: str) -> str:
    global _ESC
    if _ESC is None:
        from sqlalchemy.sql.compiler import SQLCompiler

        _ESC = dict(SQLCompiler.bindname_escape_characters)
    return "".join(_ESC.get(ch, ch) for ch in name)


def _collide(names) -> bool:
    esc = [_escape(n) for n in names]
    return len(set(esc)) != len(esc)


_PLACEHOLDER = {
    "qmark": re.compile(r"\?"),
    "format": re.compile(r"%s"),
    "numeric": re.compile(r":(\d+)"),
    "numeric_dollar": re.compile(r"\$(\d+)"),
    "named": re.compile(r":([A-Za-z_][A-Za-z_0-9]*)"),
    "pyformat": re.compile(r"%\(([^)]*)\)s"),
}


def substitute(style: str, stmt: str, params) -> str:
    """Replace every placeholder by the value the DBAPI received for it."""
    pat = _PLACEHOLDER[style]
    if style in ("qmark", "format"):
        it = iter(params)
        n = [0]

        def rep(m):
            n[0] += 1
            return repr(next(it))

        out = pat.sub(rep, stmt)
        if n[0] != len(params):
            raise AssertionError("%d placeholders but %d parameters" % (n[0], len(params)))
        if style == "format":
            out = out.replace("%%", "%")
        return out
    if style in ("numeric", "numeric_dollar"):
        used = set()

        def rep(m):
            i = int(m.group(1))
            used.add(i)
            return repr(params[i - 1])

        out = pat.sub(rep, stmt)
        if used != set(range(1, len(params) + 1)):
            raise AssertionError("numeric placeholders %s do not cover parameters 1..%d" % (sorted(used), len(params)))
        return out
    used = set()

    def rep(m):
        used.add(m.group(1))
        return repr(params[m.group(1)])

    out = pat.sub(rep, stmt)
    if used != set(params):
        raise AssertionError("placeholders %s vs parameter keys %s" % (sorted(used), sorted(params)))
    if style == "pyformat":
        out = out.replace("%%", "%")
    return out


def _deliver(style: str, shape_i: int, names: Tuple[str, ...]) -> bool:
    eng, dbapi, d = engine_for(style)
    nvs = [(n, 7001 + i) for i, n in enumerate(names)]
    if shape_i == 10:  # text(): names are fixed p0..pk
        nvs = [("p%d" % i, 7001 + i) for i in range(len(names))]
    stmt = shapes()[shape_i](nvs)
    import sqlalchemy.exc as saexc

    try:
        literal = str(stmt.compile(dialect=d, compile_kwargs={"literal_binds": True}))
        stmt.compile(dialect=d)
    except saexc.CompileError:
        return True  # documented refusal (bind-name conflict)
    del dbapi.log[:]
    with eng.connect() as c:
        c.execute(stmt)
    if len(dbapi.log) != 1:
        raise AssertionError("expected one DBAPI execute, saw %d" % len(dbapi.log))
    sql, params = dbapi.log[0]
    got = substitute(style, sql, params)
    norm = lambda s: " ".join(s.split())  # noqa: E731
    if norm(got) != norm(literal):
        raise AssertionError("delivered `%s` with %r = `%s` but literal_binds rendering is `%s`" % (norm(sql), params, norm(got), norm(literal)))
    # second execution through the compiled cache with other values: must deliver the new values
    nvs2 = [(n, v + 500) for n, v in nvs]
    stmt2 = shapes()[shape_i](nvs2)
    literal2 = str(stmt2.compile(dialect=d, compile_kwargs={"literal_binds": True}))
    del dbapi.log[:]
    with eng.connect() as c:
        c.execute(stmt2)
    sql2, params2 = dbapi.log[0]
    if norm(substitute(style, sql2, params2)) != norm(literal2):
        raise AssertionError("cached re-execution delivered `%s` with %r but literal_binds rendering is `%s`" % (norm(sql2), params2, norm(literal2)))
    return True


def h_deliver(style: str, shape_i: int, k: int, code: int) -> bool:
    tuples = native(name_tuples, k)
    c = pick(code, len(tuples))
    return native(_deliver, style, shape_i, tuples[c])


# ------------------------------------------------------------------------------------------------
# (a) z3: injectivity of the escaping


def escape_collisions(maxlen: int):
    """All (char, char) collision classes of the escaping, found by z3 over code points."""
    from sqlalchemy.sql.compiler import SQLCompiler

    table = dict(SQLCompiler.bindname_escape_characters)
    a, b = z3.Int("a"), z3.Int("b")

    def esc(x):
        r = x
        for ch, rep in table.items():
            if len(rep) != 1:
                return None
            r = z3.If(x == ord(ch), ord(rep), r)
        return r

    ea, eb = esc(a), esc(b)
    found = []
    queries = 0
    t0 = time.perf_counter()
    if ea is None:
        return [("multi-char replacement", "", "")], 0, 0.0
    s = z3.Solver()
    s.add(a >= 32, a < 127, b >= 32, b < 127, a < b, ea == eb)
    while True:
        queries += 1
        if s.check() != z3.sat:
            break
        m = s.model()
        ca, cb = chr(m[a].as_long()), chr(m[b].as_long())
        found.append((ca, cb))
        s.add(z3.Or(a != m[a], b != m[b]))
        if len(found) > 200:
            break
    return found, queries, time.perf_counter() - t0


def replay_collision(ca: str, cb: str) -> Dict[str, Any]:
    """Public API on sqlite3: two binds whose names differ only by the colliding characters."""
    import sqlalchemy as sa
    from sqlalchemy import exc

    n1, n2 = "a" + ca + "b", "a" + cb + "b"
    eng = sa.create_engine("sqlite://")
    try:
        with eng.connect() as c:
            row = c.execute(sa.select(sa.bindparam(n1, 1).label("c1"), sa.bindparam(n2, 2).label("c2"))).one()
        ok = tuple(row) == (1, 2)
        return {"holds": ok, "names": [n1, n2], "row": list(row)}
    except exc.SQLAlchemyError as e:
        if isinstance(e, (exc.CompileError, exc.ArgumentError, exc.InvalidRequestError)) and not isinstance(e, exc.DBAPIError):
            return {"holds": True, "names": [n1, n2], "declined": type(e).__name__}
        return {"holds": False, "names": [n1, n2], "exception": "%s: %s" % (type(e).__name__, str(e)[:200])}
    except Exception as e:  # noqa: BLE001  internal error instead of a documented one
        return {"holds": False, "names": [n1, n2], "exception": "%s: %s" % (type(e).__name__, str(e)[:200])}
    finally:
        eng.dispose()


# ------------------------------------------------------------------------------------------------

META = {
    "explanation": "(b) The solver picks (bind-name assignment) per (paramstyle, statement shape, number of binds) slice; the statement is executed on a real Engine whose DBAPI "
                   "records what it receives; every placeholder is replaced by the value delivered for it and the result must equal the literal_binds rendering of the same statement "
                   "(first execution and a second, cache-hitting execution with other values). (a) z3 enumerates all collisions of the bind-name escaping table; each is replayed on sqlite3.",
    "functions": ["SQLCompiler.visit_bindparam / bindparam_string / _process_positional / _process_numeric / _literal_execute_expanding_parameter / construct_params",
                  "SQLCompiler.bindname_escape_characters / escaped_bind_names", "DefaultExecutionContext._init_compiled (parameter assembly per paramstyle)", "TextClause bind handling"],
    "bounds": {"quick": "12 statement shapes x 6 paramstyles x ordered name tuples of length 1-2 from a pool of 10 names (all escape characters) + length 3 for 3 shapes",
               "thorough": "all shapes with name tuples of length 1-3"},
    "outside": ["real drivers (sqlite3 is used for the escape-collision replay only)", "executemany / insertmanyvalues (C12)", "statement shapes beyond the 12 listed"],
    "stubs": ["capturing DBAPI module (records execute(statement, parameters))", "DefaultDialect(paramstyle=...) stands for the driver-specific dialects"],
    "assumptions": ["literal_binds rendering of integers is the identity on their repr (values are 7001.. distinct ints)"],
}


def harnesses(tier: str) -> List[Harness]:
    sl = []
    for style in PARAMSTYLES:
        for si in range(len(_shape_names())):
            for k in (1, 2, 3):
                if tier == "quick" and k == 3:
                    continue
                sl.append(dict(style=style, shape_i=si, k=k))
    return [Harness("deliver", h_deliver, sl, budget_s=200 if tier == "quick" else 900)]


def _shape_names():
    return ["select_list", "where", "repeat", "cte", "subq_order_limit", "having", "in_expanding", "literal_execute", "insert", "update", "text", "union",
            "typed_where", "typed_in", "tuple_in", "anon_clash"]


def classify(hname, args, rep):
    exc = rep.get("exception") or ""
    kind = "mismatch" if "literal_binds rendering" in exc else ("count" if "placeholders" in exc else "error:" + exc.split(":")[0][:40])
    return ("C04:deliver:%s:%s:%s" % (args["style"], _shape_names()[args["shape_i"]], kind),
            "paramstyle %s, shape %s, names #%s: %s" % (args["style"], _shape_names()[args["shape_i"]], args.get("code"), exc[:300]))


def run(tier: str, seed: int) -> Outcome:
    out = framework.run_symx(PID, __name__, tier, seed, harnesses(tier), classify, META)
    # (a) escaping injectivity by z3
    found, queries, secs = escape_collisions(3)
    seen = set()
    collisions = []
    for ca, cb in found:
        rep = replay_collision(ca, cb)
        collisions.append({"chars": [ca, cb], "replay": rep})
        if rep["holds"]:
            continue
        key = "C04:escape-collision:%r~%r:%s" % (ca, cb, "wrong-values" if "row" in rep else rep.get("exception", "").split(":")[0])
        if key in seen:
            continue
        seen.add(key)
        what = "bind names %s escape to the same placeholder name: %s" % (rep["names"], ("row %s instead of [1, 2]" % rep["row"]) if "row" in rep else rep.get("exception"))
        out.failures.append(Failure(PID, key, what, {"property": PID, "engine": "z3", "module": __name__, "chars": [ca, cb], "observed": rep}))
    out.coverage["escape_table_collisions_found_by_z3"] = collisions
    out.coverage["solver_queries"] = out.coverage.get("solver_queries", 0) + queries
    out.coverage["solver_time_s"] = round(out.coverage.get("solver_time_s", 0) + secs, 2)
    return out


def replay(rec) -> Dict[str, Any]:
    return replay_collision(rec["chars"][0], rec["chars"][1])
