"""C02 The compiled-statement cache is transparent (E1 style (b) histories + a symbolic type-resolution harness)."""
from __future__ import annotations

from typing import Any, Dict, List, Optional, Tuple

from vlib import framework
from vlib.framework import Harness
from vlib.symx import assume, native, pick
from props import C04

PID = "C02"


# ------------------------------------------------------------------------------------------------
# corpus: shape(values) -> (statement, "core"|"orm")

VALUESETS = [
    dict(i=5, j=7, s="ab", lst=[1, 2], lst2=[9], scale=2, length=10),
    dict(i=2 ** 31, j=-1, s="", lst=[3], lst2=[4, 5, 6], scale=0, length=0),
    dict(i=0, j=2 ** 63 - 1, s="x'y%z", lst=[], lst2=[7, 8], scale=None, length=None),
    dict(i=None, j=3, s=None, lst=[None, 2], lst2=[1], scale=4, length=20),
]


def _build_corpus():
    import sqlalchemy as sa
    from sqlalchemy import orm

    md = sa.MetaData()
    t = sa.Table("t", md, sa.Column("id", sa.Integer, primary_key=True), sa.Column("x", sa.Integer), sa.Column("s", sa.String))
    u = sa.Table("u", md, sa.Column("id", sa.Integer, primary_key=True), sa.Column("t_id", sa.ForeignKey("t.id")), sa.Column("y", sa.Integer))

    class Base(orm.DeclarativeBase):
        pass

    class A(Base):
        __tablename__ = "a"
        id = sa.Column(sa.Integer, primary_key=True)
        x = sa.Column(sa.Integer)
        s = sa.Column(sa.String)
        bs = orm.relationship("B", back_populates="a")

    class B(Base):
        __tablename__ = "b"
        id = sa.Column(sa.Integer, primary_key=True)
        a_id = sa.Column(sa.ForeignKey("a.id"))
        y = sa.Column(sa.Integer)
        a = orm.relationship("A", back_populates="bs")

    shapes = []

    def core(f):
        shapes.append((f.__name__, "core", f))
        return f

    def ormq(f):
        shapes.append((f.__name__, "orm", f))
        return f

    @core
    def where_eq(v):
        return sa.select(t).where(t.c.x == v["i"])

    @core
    def where_two(v):
        return sa.select(t.c.id).where(t.c.x > v["i"], t.c.s == v["s"]).order_by(t.c.id)

    @core
    def literal_col(v):
        return sa.select(sa.literal(v["i"]).label("a"), sa.literal(v["s"]).label("b"), t.c.x)

    @core
    def in_list(v):
        return sa.select(t.c.id).where(t.c.x.in_(v["lst"]))

    @core
    def in_two_lists(v):
        return sa.select(t.c.id).where(sa.or_(t.c.x.in_(v["lst"]), t.c.id.not_in(v["lst2"])))

    @core
    def limit_offset(v):
        return sa.select(t.c.id).order_by(t.c.id).limit(v["j"] if v["j"] is not None and 0 <= v["j"] < 10 ** 6 else 4).offset(2)

    @core
    def join_where(v):
        return sa.select(t.c.id, u.c.y).join_from(t, u).where(u.c.y == v["j"], t.c.s != v["s"])

    @core
    def subquery(v):
        sq = sa.select(u.c.t_id).where(u.c.y > v["j"]).subquery()
        return sa.select(t.c.x).where(t.c.id.in_(sa.select(sq.c.t_id))).where(t.c.x != v["i"])

    @core
    def cte(v):
        c = sa.select(t.c.id, t.c.x).where(t.c.x >= v["i"]).cte("c")
        return sa.select(c.c.id).where(c.c.x < v["j"])

    @core
    def union(v):
        return sa.union(sa.select(t.c.id).where(t.c.x == v["i"]), sa.select(u.c.id).where(u.c.y == v["j"]))

    @core
    def case_expr(v):
        return sa.select(sa.case((t.c.x > v["i"], v["s"]), else_="other"))

    @core
    def func_coalesce(v):
        return sa.select(sa.func.coalesce(t.c.x, v["j"]) + v["i"] if v["i"] is not None else sa.func.coalesce(t.c.x, v["j"]))

    @core
    def insert_values(v):
        return sa.insert(t).values(x=v["i"], s=v["s"])

    @core
    def insert_returning(v):
        return sa.insert(t).values(x=v["j"]).returning(t.c.id)

    @core
    def update_where(v):
        return sa.update(t).where(t.c.id == v["j"]).values(x=v["i"], s=v["s"])

    @core
    def update_expr(v):
        return sa.update(t).where(t.c.x.in_(v["lst2"])).values(x=t.c.x + v["j"])

    @core
    def delete_where(v):
        return sa.delete(t).where(t.c.s == v["s"], t.c.x < v["j"])

    @core
    def text_bind(v):
        return sa.text("select * from t where x = :a and s = :b").bindparams(a=v["j"], b=v["s"])

    @core
    def between_label(v):
        return sa.select((t.c.x + v["j"]).label("k")).where(t.c.x.between(v["j"], v["j"] if v["j"] is not None else 0))

    @core
    def cast_numeric(v):
        # type arguments are part of the statement structure: 0, None and 2 must not share a cached compilation
        return sa.select(sa.cast(t.c.x, sa.Numeric(10, v["scale"])), sa.cast(t.c.s, sa.String(v["length"])))

    @core
    def typed_literal(v):
        return sa.select(sa.literal(v["j"], sa.Numeric(12, v["scale"])) + t.c.x, sa.type_coerce(t.c.s, sa.String(v["length"])) == v["s"])

    @core
    def nested_params(v):
        inner = sa.select(t.c.id).where(t.c.x == sa.bindparam("p", 1)).params(p=v["j"]).subquery()
        return sa.select(inner.c.id).where(inner.c.id > sa.bindparam("q", 2)).params(q=v["i"] if v["i"] is not None else 0)

    @core
    def nested_params_same_name(v):
        inner = sa.select(t.c.id).where(t.c.x == sa.bindparam("p", 1)).params(p=v["j"]).scalar_subquery()
        return sa.select(t.c.x).where(t.c.id == inner, t.c.x != sa.bindparam("p")).params(p=7 if v["i"] is None else v["i"])

    @ormq
    def orm_select(v):
        return sa.select(A).where(A.x == v["i"])

    @ormq
    def orm_join(v):
        return sa.select(A).join(A.bs).where(B.y == v["j"], A.s == v["s"])

    @ormq
    def orm_in(v):
        return sa.select(A.id).where(A.x.in_(v["lst"])).order_by(A.id)

    @ormq
    def orm_options(v):
        return sa.select(A).options(orm.selectinload(A.bs)).where(A.x > v["j"])

    @ormq
    def orm_loader_criteria(v):
        return sa.select(A).options(orm.with_loader_criteria(B, B.y != v["j"])).join(A.bs).where(A.x == v["i"])

    @ormq
    def orm_aliased(v):
        a2 = orm.aliased(A)
        return sa.select(A.id, a2.id).join(a2, A.id == a2.x).where(a2.s == v["s"])

    @ormq
    def orm_update(v):
        return sa.update(A).where(A.x == v["i"]).values(s=v["s"]).execution_options(synchronize_session=False)

    @ormq
    def orm_delete(v):
        return sa.delete(B).where(B.y.in_(v["lst2"])).execution_options(synchronize_session=False)

    return shapes


_CORPUS = None


def corpus():
    global _CORPUS
    if _CORPUS is None:
        _CORPUS = _build_corpus()
    return _CORPUS


def _engine(cache: bool):
    from sqlalchemy.engine import default
    from sqlalchemy.engine.base import Engine
    from sqlalchemy.engine.url import URL
    from sqlalchemy.pool import StaticPool

    dbapi = C04._DBAPI("named")
    d = default.DefaultDialect(paramstyle="named")
    d.dbapi = dbapi
    d.supports_statement_cache = True
    d.insert_returning = d.update_returning = d.delete_returning = True
    pool = StaticPool(lambda: dbapi.connect())
    eng = Engine(pool, d, URL.create("capture"), query_cache_size=(500 if cache else 0))
    return eng, dbapi


def _execute(eng, dbapi, kind, stmt):
    from sqlalchemy import orm

    del dbapi.log[:]
    if kind == "core":
        with eng.connect() as c:
            c.execute(stmt)
    else:
        with orm.Session(eng) as s:
            r = s.execute(stmt)
            try:
                r.all()
            except Exception:
                pass
    return [(" ".join(sql.split()), _norm_params(p)) for sql, p in dbapi.log]


def _norm_params(p):
    if isinstance(p, dict):
        return {k: (list(v) if isinstance(v, (list, tuple)) else v) for k, v in p.items()}
    return p


def _history(codes: List[int]) -> bool:
    """Execute the coded statements in order on one engine with a shared compiled cache; each must reach
    the DBAPI exactly as it does on an engine whose cache is disabled."""
    cp = corpus()
    nv = len(VALUESETS)
    warm, wdb = _engine(True)
    cold, cdb = _engine(False)
    for step, code in enumerate(codes):
        name, kind, f = cp[code // nv]
        v = VALUESETS[code % nv]
        import sqlalchemy.exc as saexc

        try:
            stmt_w, stmt_c = f(v), f(v)
        except saexc.ArgumentError:
            continue  # the constructors reject this value (e.g. ``x > None``): not a statement

        def run_(eng, db, st):
            try:
                return _execute(eng, db, kind, st)
            except Exception as e:  # noqa: BLE001
                # the recording DBAPI returns no rows / no cursor.description, so ORM loading gives up
                # after the statement was delivered: compare what was delivered + the exception type
                return [(" ".join(sql.split()), _norm_params(p)) for sql, p in db.log] + ["raised " + type(e).__name__]

        got = run_(warm, wdb, stmt_w)
        exp = run_(cold, cdb, stmt_c)
        if got != exp:
            raise AssertionError("step %d: %s%r reached the DBAPI as %r with the shared cache but as %r with the cache disabled" % (step, name, v, got, exp))
    # cache statistics sanity: the second execution of an identical structure must be a hit, i.e. the
    # check above exercised the re-binding path
    return True


def h_history2(first: int, code2: int) -> bool:
    n = len(corpus()) * len(VALUESETS)
    c2 = pick(code2, n)
    return native(_history, [first, c2])


def h_history3_same_shape(shape: int, code: int) -> bool:
    nv = len(VALUESETS)
    c = pick(code, nv ** 3)
    a, b, cc = c % nv, (c // nv) % nv, c // (nv * nv)
    return native(_history, [shape * nv + a, shape * nv + b, shape * nv + cc])


# ------------------------------------------------------------------------------------------------
# symbolic: equal cache keys imply equal resolved bind types, for every int / str / bool / None literal


def h_key_implies_type(kind: str, base: int, d1: int, d2: int) -> bool:
    import sqlalchemy as sa

    assume(-3 <= d1 <= 3)
    assume(-3 <= d2 <= 3)
    v1, v2 = base + d1, base + d2
    if kind == "where":
        t = sa.table("t", sa.column("x", sa.Integer))
        a = sa.select(t.c.x).where(sa.literal(v1) > t.c.x)
        b = sa.select(t.c.x).where(sa.literal(v2) > t.c.x)
    else:
        a = sa.select(sa.literal(v1))
        b = sa.select(sa.literal(v2))
    k1, k2 = a._generate_cache_key(), b._generate_cache_key()
    if k1.key != k2.key:
        return True
    if len(k1.bindparams) != len(k2.bindparams):
        return False
    for p1, p2 in zip(k1.bindparams, k2.bindparams):
        if type(p1.type) is not type(p2.type):
            return False
    return True


META = {
    "explanation": "Histories of executions (solver-chosen statements of a 27-shape Core+ORM corpus x 4 value sets incl. 2**31, 2**63-1, None, empty and NULL-containing lists) run on one "
                   "Engine with a shared compiled cache and on an Engine with the cache disabled, over a recording DBAPI: every execution must reach the DBAPI with identical SQL text and "
                   "parameters. A symbolic harness decides, for ints around every power-of-two boundary, that equal cache keys imply equal resolved bind types.",
    "functions": ["sql.cache_key.CacheKey / HasCacheKey._generate_cache_key", "SQLCompiler.construct_params(extracted_parameters=...) / _cache_key_bind_match", "Connection._execute_clauseelement / _get_cache_stats (cache lookup)",
                  "BindParameter._with_value / sqltypes._resolve_value_to_type", "orm.context ORM compile state caching, loader options, with_loader_criteria"],
    "bounds": {"quick": "all histories of length 2 (first statement fixed per slice: 108 slices x 108), length 3 within one shape (27 x 64)", "thorough": "same + symbolic type harness at more boundaries"},
    "outside": ["result rows (the DBAPI is a recorder and returns no rows)", "injectivity of cache keys w.r.t. statement structure beyond the corpus", "lambda statements (C17)", "threads"],
    "stubs": ["recording DBAPI, DefaultDialect(paramstyle='named')"],
    "assumptions": [],
}


def harnesses(tier: str) -> List[Harness]:
    n = len(corpus()) * len(VALUESETS)
    hs = [
        Harness("history2", h_history2, [dict(first=i) for i in range(n)], budget_s=120 if tier == "quick" else 300),
        Harness("history3_same_shape", h_history3_same_shape, [dict(shape=i) for i in range(len(corpus()))], budget_s=120 if tier == "quick" else 300),
    ]
    bases = [2 ** 31, -2 ** 31, 2 ** 63, 0] if tier == "quick" else [2 ** 15, 2 ** 31, -2 ** 31, 2 ** 32, 2 ** 63, -2 ** 63, 2 ** 64, 0]
    hs.append(Harness("key_implies_type", h_key_implies_type, [dict(kind=k, base=b) for k in ("where", "select") for b in bases], budget_s=60 if tier == "quick" else 200))
    return hs


def classify(hname, args, rep):
    exc = rep.get("exception") or ""
    if hname.startswith("history"):
        import re

        m = re.search(r"step \d+: (\w+)", exc)
        shape = m.group(1) if m else "?"
        return ("C02:cache-changes-delivery:%s" % shape, exc[:400])
    return ("C02:%s:%s" % (hname, args.get("base")), "%s fails for %s" % (hname, args))


def run(tier: str, seed: int):
    return framework.run_symx(PID, __name__, tier, seed, harnesses(tier), classify, META)
