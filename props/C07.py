"""C07 IN / NOT IN with expanding parameters follows SQL semantics (E2 sqlsem)."""
from __future__ import annotations

import itertools
import json
import re
import sqlite3
import time
from typing import Any, Dict, List, Optional, Tuple

from vlib import framework, sqlparse, sqlsem
from vlib.framework import Failure, Outcome
from vlib.sqlsem import BOOL, INT, STR
from props import C01

PID = "C07"
DIALECTS = C01.DIALECTS


def col(n, t=INT):
    return ["col", n, t]


def in_exprs(tier: str) -> List[Any]:
    """IN / NOT IN expressions: scalar lhs x value lists with every NULL pattern, duplicates; tuple IN."""
    out = []
    maxlen = 4 if tier == "quick" else 6
    lhs_list = [col("x"), ["add", col("x"), col("y")]]
    for op in ("in_list", "not_in_list"):
        for lhs in lhs_list:
            for n in range(0, maxlen + 1):
                pats = list(itertools.product([False, True], repeat=n)) if n <= 4 else \
                    [tuple(i == j for i in range(n)) for j in range(n)] + [tuple([False] * n), tuple([True] * n)]
                for pat in pats:
                    vals = [None if isnull else 101 + i for i, isnull in enumerate(pat)]
                    out.append([op, lhs, {"v": vals}])
            out.append([op, lhs, {"v": [101, 101]}])
            out.append([op, lhs, {"v": [101, None, 101]}])
    arities = (2,) if tier == "quick" else (2, 3)
    for op in ("tin_list", "not_tin_list"):
        for ar in arities:
            elems = [col("x"), col("y"), col("z")][:ar]
            for n in range(0, 3 if tier == "quick" else 4):
                rowsets = []
                base = [[101 + 10 * r + c for c in range(ar)] for r in range(n)]
                rowsets.append(base)
                for r in range(n):
                    for c in range(ar):
                        v = [list(x) for x in base]
                        v[r][c] = None
                        rowsets.append(v)
                if n >= 2:
                    rowsets.append([list(base[0])] * n)
                for rows in rowsets:
                    out.append([op] + elems + [{"rows": rows}])
    return out


CONTEXTS = [
    lambda e: e,
    lambda e: ["not", e],
    lambda e: ["inv", e],
    lambda e: ["and", e, col("p", BOOL)],
    lambda e: ["and", col("p", BOOL), e],
    lambda e: ["or", e, col("p", BOOL)],
    lambda e: ["or", col("p", BOOL), e],
    lambda e: ["eq", e, col("p", BOOL)],
    lambda e: ["ne", col("p", BOOL), e],
    lambda e: ["is_true", e],
    lambda e: ["is_false", e],
    lambda e: ["is_null", e],
    lambda e: ["is_not_null", e],
    lambda e: ["case", e, col("a"), col("b")],
    lambda e: ["not", ["and", e, col("p", BOOL)]],
    lambda e: ["or", ["not", e], col("p", BOOL)],
    lambda e: ["and", e, ["in_list", col("w"), {"v": []}]],
    lambda e: ["or", ["not_in_list", col("w"), {"v": []}], e],
]


def shapes(tier: str) -> List[Any]:
    out = []
    for e in in_exprs(tier):
        for k, ctx in enumerate(CONTEXTS):
            if tier == "quick" and k >= 4 and e[0].startswith(("tin", "not_tin")) and len(e[-1]["rows"]) > 1:
                continue
            out.append(ctx(e))
    return out


# ------------------------------------------------------------------------------------------------


def _sqlite_subq_rows(text: str):
    """Ground truth for a SQLite sub-select used as IN operand (the empty-set idiom): run it."""
    conn = sqlite3.connect(":memory:")
    try:
        return conn.execute(text).fetchall()
    finally:
        conn.close()


def _resolve_subq(node, dname):
    """Replace ('in', a, ('subq', text), neg) by an explicit item list when the sub-select has no
    free column references (evaluated on the linked sqlite3 for the SQLite dialect)."""
    if isinstance(node, list):
        return [_resolve_subq(x, dname) for x in node]
    if not isinstance(node, tuple):
        return node
    if node[0] == "in" and isinstance(node[2], tuple) and node[2][0] == "subq":
        if dname != "sqlite":
            raise sqlparse.ParseError("unexpected sub-select as IN operand on %s: %s" % (dname, node[2][1]))
        try:
            rows = _sqlite_subq_rows(node[2][1])
        except sqlite3.Error as e:
            raise sqlparse.ParseError("IN operand is not an executable sub-select: %s (%s)" % (node[2][1], e))
        items = [("row", [("lit", v) for v in r]) if len(r) > 1 else ("lit", r[0]) for r in rows]
        return ("in", _resolve_subq(node[1], dname), items, node[3])
    return tuple(_resolve_subq(x, dname) if isinstance(x, (tuple, list)) else x for x in node)


def _values_of(spec, out):
    if isinstance(spec, dict):
        for v in spec.get("v", []):
            out.append(v)
        for r in spec.get("rows", []):
            out.extend(r)
    elif isinstance(spec, list):
        for c in spec[1:]:
            _values_of(c, out)


def check_one(spec, dname: str, mode: str) -> Dict[str, Any]:
    """mode: literal | bound | rebind (compiled once for a list of another length, then re-bound
    through construct_params(extracted_parameters=...) + post-compile expansion, as the cache does)."""
    coltypes: Dict[str, str] = {}
    built = sqlsem.build(spec, dname, coltypes)
    d = C01.dialect_obj(dname)
    pd = d.paramstyle in ("format", "pyformat")
    res: Dict[str, Any] = {"spec": spec, "dialect": dname, "mode": mode}
    if mode == "literal":
        compiled = built.sa.compile(dialect=d, compile_kwargs={"literal_binds": True})
        sql = str(compiled)
        values: Dict[Any, Any] = {}
    elif mode == "bound":
        compiled = built.sa.compile(dialect=d, compile_kwargs={"render_postcompile": True})
        sql = str(compiled)
        params = compiled.params
        values = dict(params)
        if compiled.positional:
            for i, n in enumerate(compiled.positiontup):
                values[i] = params[n]
    else:
        # compile a structurally identical statement whose lists have *different* lengths/values,
        # then deliver this statement's values through the cache-key re-binding path
        other = _other_lengths(spec)
        ct2: Dict[str, str] = {}
        built_other = sqlsem.build(other, dname, ct2)
        k_other = built_other.sa._generate_cache_key()
        k_this = built.sa._generate_cache_key()
        if k_other is None or k_this is None or k_other.key != k_this.key:
            res["verdict"] = "equal"  # different cache keys: nothing is shared, nothing to check
            res["sql"] = "(cache keys differ)"
            res["solver_s"] = 0.0
            res["skipped"] = True
            return res
        compiled = built_other.sa.compile(dialect=d, cache_key=k_other)
        params = compiled.construct_params(extracted_parameters=k_this.bindparams, _check=False)
        exp = compiled._process_parameters_for_postcompile(params)
        sql = exp.statement
        if compiled.positional:
            values = {i: params_v for i, params_v in enumerate(exp.parameters)} if isinstance(exp.parameters, (list, tuple)) else dict(exp.parameters)
            if exp.positiontup is not None and isinstance(exp.parameters, dict):
                values = dict(exp.parameters)
                for i, n in enumerate(exp.positiontup):
                    values[i] = exp.parameters[n]
        else:
            values = dict(exp.parameters)
    res["sql"] = sql
    try:
        parsed = sqlparse.parse_expr(sql, dname, pd)
        parsed_n = C01._subst_params(_resolve_subq(sqlsem.normalize(parsed, dname), dname), values)
    except sqlparse.ParseError as e:
        res["verdict"] = "parse_error"
        res["detail"] = str(e)
        return res
    intended = sqlsem.normalize(built.ast, dname)
    symlits = set()
    if mode != "literal":
        C01._literals(intended, symlits)
    try:
        verdict, model, dt = sqlsem.decide(intended, parsed_n, coltypes, symlits)
    except sqlparse.ParseError as e:
        res["verdict"] = "parse_error"
        res["detail"] = "no semantics: " + str(e)
        return res
    res.update(verdict=verdict, solver_s=dt, model=model, coltypes=coltypes)
    return res


def _other_lengths(spec):
    """Same structure, every value list replaced by one of a different length (values 900+)."""
    if isinstance(spec, dict):
        if "v" in spec:
            n = len(spec["v"])
            m = 2 if n != 2 else 3
            return {"v": [900 + i for i in range(m)]}
        rows = spec["rows"]
        ar = len(rows[0]) if rows else None
        return {"rows": [[900 + i for i in range(ar or 2)]] if len(rows) != 1 else [[900 + i for i in range(ar)], [950 + i for i in range(ar)]], "_arity": ar}
    if isinstance(spec, list) and spec and isinstance(spec[0], str):
        if spec[0] in ("tin_list", "not_tin_list"):
            ar = len(spec) - 2
            rows = spec[-1]["rows"]
            newrows = [[900 + i for i in range(ar)]] if len(rows) != 1 else [[900 + i for i in range(ar)], [950 + i for i in range(ar)]]
            return spec[:-1] + [{"rows": newrows}]
        return [spec[0]] + [_other_lengths(c) for c in spec[1:]]
    return spec


def confirm_sqlite(spec, mode: str, model) -> Dict[str, Any]:
    """Execute the emitted SQL and the explicit OR-of-equalities reference on sqlite3."""
    coltypes: Dict[str, str] = {}
    built = sqlsem.build(spec, "sqlite", coltypes)
    d = C01.dialect_obj("sqlite")
    if mode == "literal":
        compiled = built.sa.compile(dialect=d, compile_kwargs={"literal_binds": True})
        params: Tuple = ()
    else:
        compiled = built.sa.compile(dialect=d, compile_kwargs={"render_postcompile": True})
        params = tuple(compiled.params[n] for n in compiled.positiontup)
    emitted = str(compiled)
    reference = render_reference(built.ast)
    rows = []
    if model:
        rows.append({n: model["cols"].get(n) for n in coltypes})
    names = sorted(coltypes)
    pools = [[None, 101, 102, 0] if coltypes[n] == INT else [None, 0, 1] for n in names]
    for k, combo in enumerate(itertools.product(*pools)):
        rows.append(dict(zip(names, combo)))
        if k > 200:
            break
    for row in rows:
        got = sqlsem.sqlite_eval([emitted], coltypes, row, params)[0]
        exp = sqlsem.sqlite_eval([reference], coltypes, row, ())[0]
        if C01._val_differs(got, exp):
            return {"confirmed": True, "row": row, "emitted": emitted, "emitted_value": got, "reference": reference, "reference_value": exp, "params": list(params)}
    return {"confirmed": False, "emitted": emitted, "reference": reference, "rows_tried": len(rows)}


def render_reference(node) -> str:
    """Fully parenthesised SQLite text in which IN is spelled out as OR of equalities (the
    property's own reference), NOT IN as its negation; empty list = constant false."""
    if node[0] == "in":
        _, a, items, neg = node
        if a[0] == "row":
            eqs = ["(" + " AND ".join("(%s = %s)" % (render_reference(x), render_reference(y)) for x, y in zip(a[1], it[1])) + ")" for it in items]
        else:
            eqs = ["(%s = %s)" % (render_reference(a), render_reference(it)) for it in items]
        body = "(" + " OR ".join(eqs) + ")" if eqs else "(0)"
        return "(NOT %s)" % body if neg else body
    if node[0] in ("col", "lit"):
        return sqlsem.render_full(node)
    k = node[0]
    if k == "bin" or k == "cmp":
        return "(%s %s %s)" % (render_reference(node[2]), node[1], render_reference(node[3]))
    if k in ("and", "or"):
        return "(%s %s %s)" % (render_reference(node[1]), k.upper(), render_reference(node[2]))
    if k == "not":
        return "(NOT %s)" % render_reference(node[1])
    if k == "nsafe_eq":
        return "(%s IS %s)" % (render_reference(node[1]), render_reference(node[2]))
    if k == "is_null":
        return "(%s IS NULL)" % render_reference(node[1])
    if k == "not_null":
        return "(%s IS NOT NULL)" % render_reference(node[1])
    if k == "case":
        _, operand, whens, else_ = node
        s = "(CASE"
        for c, v in whens:
            s += " WHEN %s THEN %s" % (render_reference(c), render_reference(v))
        if else_ is not None:
            s += " ELSE " + render_reference(else_)
        return s + " END)"
    raise ValueError("reference rendering: " + k)


def key_of(spec, dname, kind) -> str:
    """Identity of a failing shape: dialect, kind, context operators, IN operator, list length class,
    NULL presence."""
    def walk(s):
        if isinstance(s, dict):
            if "v" in s:
                v = s["v"]
                return "[len=%s%s]" % ("0" if not v else "n", ",null" if any(x is None for x in v) else "")
            r = s["rows"]
            return "[rows=%s%s]" % ("0" if not r else "n", ",null" if any(x is None for row in r for x in row) else "")
        if s[0] == "col":
            return "c"
        if s[0] == "lit":
            return "l"
        return "%s(%s)" % (s[0], ",".join(walk(c) for c in s[1:]))
    return "C07:%s:%s:%s" % (dname, kind, walk(spec))


def chunk(tier: str, i: int, n: int) -> Dict[str, Any]:
    import sqlalchemy.exc as saexc

    out = {"checked": 0, "equal": 0, "unknown": 0, "solver_s": 0.0, "candidates": 0, "confirmed": {}, "unconfirmed": [],
           "samples": [], "errors": [], "rejected_by_constructor": 0, "rebind_skipped": 0}
    idx = 0
    for spec in shapes(tier):
        for dname in DIALECTS:
            for mode in ("literal", "bound", "rebind"):
                idx += 1
                if idx % n != i:
                    continue
                try:
                    r = check_one(spec, dname, mode)
                except (saexc.SQLAlchemyError, NotImplementedError):
                    out["rejected_by_constructor"] += 1
                    continue
                except Exception as e:
                    import traceback
                    out["errors"].append({"spec": spec, "dialect": dname, "mode": mode, "error": traceback.format_exc()[-600:]})
                    continue
                if r.get("skipped"):
                    out["rebind_skipped"] += 1
                    continue
                out["checked"] += 1
                out["solver_s"] += r.get("solver_s", 0.0)
                if r["verdict"] == "equal":
                    out["equal"] += 1
                    if len(out["samples"]) < 2 and idx % 53 == 0:
                        out["samples"].append({"shape": key_of(spec, dname, "ok"), "mode": mode, "sql": r["sql"], "verdict": "unsat (equal for all values)"})
                    continue
                if r["verdict"] == "unknown":
                    out["unknown"] += 1
                    continue
                out["candidates"] += 1
                kind = "parse" if r["verdict"] == "parse_error" else "sem"
                key = key_of(spec, dname, kind + ("-" + mode if mode != "bound" else ""))
                if key in out["confirmed"]:
                    continue
                rec = {"property": PID, "engine": "sqlsem", "module": __name__, "spec": spec, "dialect": dname, "mode": mode, "sql": r["sql"],
                       "verdict": r["verdict"], "detail": r.get("detail"), "model": r.get("model"), "key": key}
                if dname == "sqlite" and mode != "rebind":
                    try:
                        conf = confirm_sqlite(spec, mode, r.get("model"))
                    except Exception as e:
                        conf = {"confirmed": False, "error": repr(e)}
                    rec["sqlite"] = conf
                    if not conf.get("confirmed"):
                        out["unconfirmed"].append({"key": key, "sql": r["sql"], "mode": mode, "detail": r.get("detail"), "conf": str(conf)[:300]})
                        continue
                    rec["what"] = "sqlite (%s): emitted `%s` gives %r but the OR-of-equalities reference `%s` gives %r on row %s" % (
                        mode, conf["emitted"], conf["emitted_value"], conf["reference"], conf["reference_value"], conf["row"])
                else:
                    rec["backend_unavailable"] = dname != "sqlite"
                    rec["what"] = "%s (%s): emitted `%s` %s" % (dname, mode, r["sql"], ("is not valid in the backend grammar: %s" % r.get("detail")) if kind == "parse" else
                                                               ("differs from the OR-of-equalities meaning for %s" % ((r.get("model") or {}).get("cols"),)))
                out["confirmed"][key] = rec
    return out


def run(tier: str, seed: int) -> Outcome:
    parts = framework.run_chunks(__name__, "chunk", tier)
    out = Outcome(PID, level="translation_validation")
    tot = {"checked": 0, "equal": 0, "unknown": 0, "solver_s": 0.0, "candidates": 0, "rejected_by_constructor": 0, "rebind_skipped": 0}
    samples, unconfirmed = [], []
    confirmed: Dict[str, Any] = {}
    for p in parts:
        if p.get("error"):
            out.inconclusive.append("chunk failed: " + p["error"][-800:])
            continue
        for k in tot:
            tot[k] += p[k]
        samples.extend(p["samples"])
        unconfirmed.extend(p["unconfirmed"])
        for k, rec in p["confirmed"].items():
            confirmed.setdefault(k, rec)
        for e in p["errors"]:
            out.inconclusive.append("internal error while checking %s/%s/%s: %s" % (json.dumps(e["spec"])[:200], e["dialect"], e["mode"], e["error"]))
    for key in sorted(confirmed):
        rec = confirmed[key]
        out.failures.append(Failure(PID, key, rec.pop("what", key), rec))
    out.artifacts = unconfirmed
    out.coverage = {
        "explanation": "IN / NOT IN over value lists (every NULL pattern up to length 4, longer lists with single NULLs, duplicates, tuples of arity 2-3) "
                       "embedded in boolean / CASE / comparison / IS contexts is compiled by the real compiler per dialect in three modes (literal_binds; "
                       "bound with post-compile expansion; compiled for a list of another length and re-bound through the cache-key path). The emitted text is "
                       "parsed with the backend grammar (SQLite's empty-set sub-select is executed on sqlite3 to obtain its rows) and z3 decides equality with the "
                       "OR-of-equalities meaning under three-valued logic for all column values; SQLite disagreements are executed on sqlite3.",
        "programs": tot["checked"], "disagreements_checked": tot["candidates"], "distinct_confirmed_disagreements": len(confirmed),
        "unconfirmed_disagreements": unconfirmed[:10], "unconfirmed_count": len(unconfirmed), "equal_unsat": tot["equal"], "solver_unknown": tot["unknown"],
        "rejected_by_constructor": tot["rejected_by_constructor"], "rebind_pairs_with_different_cache_keys": tot["rebind_skipped"],
        "solver_queries": tot["checked"], "solver_time_s": round(tot["solver_s"], 2), "shapes": len(shapes(tier)), "dialects": DIALECTS,
        "modes": ["literal", "bound", "rebind"],
        "bounds": {"quick": "scalar lists 0..4 (all NULL patterns) + duplicates, tuple arity 2 with 0..2 rows, 18 contexts",
                   "thorough": "scalar lists 0..6, tuple arity 2-3 with 0..3 rows, 18 contexts"}[tier],
        "functions_encoded": ["ColumnOperators.in_/not_in (default_comparator._in_impl)", "BindParameter(expanding=True)", "SQLCompiler.visit_in_op_binary / visit_not_in_op_binary",
                              "SQLCompiler._literal_execute_expanding_parameter / _process_parameters_for_postcompile / visit_empty_set_expr / visit_empty_set_op_expr (+ sqlite, postgresql, mysql overrides)",
                              "SQLCompiler.construct_params(extracted_parameters=...)", "Tuple.in_ / tuple_ rendering"],
        "outside_bounds": ["backend execution on PostgreSQL/MySQL (reference grammar only)", "IN against sub-selects / arrays", "lists longer than the bound"],
        "samples": samples[:10] or [{"note": "none"}],
        "trusted_base": ["vlib/sqlparse.py", "vlib/sqlsem.py (3VL IN semantics)", "z3", "sqlite3"],
        "exhaustive": tot["unknown"] == 0 and not unconfirmed,
        "verdict": "holds-within-bounds" if not out.failures and tot["unknown"] == 0 and not unconfirmed else "see violations / known findings / inconclusive entries",
    }
    if tot["unknown"]:
        out.inconclusive.append("%d solver queries returned unknown" % tot["unknown"])
    if unconfirmed:
        out.inconclusive.append("%d solver disagreement(s) not confirmed on sqlite3 (engine artifact): %s" % (len(unconfirmed), json.dumps(unconfirmed[:2])[:600]))
    out.assumptions = ["Boolean columns hold 0/1/NULL", "integer semantics are mathematical integers"]
    return out


def replay(rec) -> Dict[str, Any]:
    r = check_one(rec["spec"], rec["dialect"], rec["mode"])
    if r["verdict"] == "equal":
        return {"holds": True, "sql": r["sql"]}
    if rec["dialect"] == "sqlite" and rec["mode"] != "rebind":
        conf = confirm_sqlite(rec["spec"], rec["mode"], r.get("model"))
        return {"holds": not conf.get("confirmed"), "sqlite": conf, "sql": r["sql"]}
    return {"holds": False, "sql": r["sql"], "verdict": r["verdict"], "detail": r.get("detail"), "model": r.get("model")}
