"""C37 Both sides of a bidirectional relationship agree, in memory (E1 symx).

Real mappings with ``back_populates``: one-to-many / many-to-one with a list and with a set collection, one-to-one
(``uselist=False`` on both sides) and many-to-many (the ``secondary`` table is only declared).  A solver-chosen
history of mutations on either side is applied to new (transient) objects; after every step, for every pair (p, c):
``c in p.children  <=>  c.parent is p`` (many-to-many: ``<=> p in c.parents``), no duplicates appear, and the state
equals a reference model in which the operated side follows list / set / attribute semantics and the other side is
the complementary assignment / collection mutation.
"""
from __future__ import annotations

import sys
from typing import List

from vlib import framework
from vlib.framework import Harness
from vlib.symx import assume, native

from sqlalchemy import Column, ForeignKey, Integer, String, Table
from sqlalchemy import exc as sa_exc
from sqlalchemy.orm import attribute_keyed_dict, registry, relationship

PID = "C37"

_reg = registry()


def _ix_init(self, ix):
    self.ix = ix


def _mk_o2m(tag, cc):
    parent = type("C37P_" + tag, (), dict(
        __tablename__="c37p_" + tag, id=Column(Integer, primary_key=True), __init__=_ix_init,
        __repr__=lambda self: "p%d" % self.ix))
    child = type("C37C_" + tag, (), dict(
        __tablename__="c37c_" + tag, id=Column(Integer, primary_key=True), pid=Column(ForeignKey("c37p_%s.id" % tag)),
        __init__=_ix_init, __repr__=lambda self: "c%d" % self.ix))
    parent.children = relationship(child, back_populates="parent", collection_class=cc)
    child.parent = relationship(parent, back_populates="children")
    return _reg.mapped(parent), _reg.mapped(child)


DKEYS = ["a", "b", "a"]  # keyed-dict mapping: children 0 and 2 share their key


def _ixk_init(self, ix):
    self.ix = ix
    self.k = DKEYS[ix]


def _mk_o2m_dict():
    parent = type("C37P_dict", (), dict(
        __tablename__="c37p_dict", id=Column(Integer, primary_key=True), __init__=_ix_init,
        __repr__=lambda self: "p%d" % self.ix))
    child = type("C37C_dict", (), dict(
        __tablename__="c37c_dict", id=Column(Integer, primary_key=True), pid=Column(ForeignKey("c37p_dict.id")),
        k=Column(String), __init__=_ixk_init, __repr__=lambda self: "c%d" % self.ix))
    parent.children = relationship(child, back_populates="parent", collection_class=attribute_keyed_dict("k"))
    child.parent = relationship(parent, back_populates="children")
    return _reg.mapped(parent), _reg.mapped(child)


def _mk_o2o():
    parent = type("C37P_o2o", (), dict(
        __tablename__="c37p_o2o", id=Column(Integer, primary_key=True), __init__=_ix_init,
        __repr__=lambda self: "p%d" % self.ix))
    child = type("C37C_o2o", (), dict(
        __tablename__="c37c_o2o", id=Column(Integer, primary_key=True), pid=Column(ForeignKey("c37p_o2o.id")),
        __init__=_ix_init, __repr__=lambda self: "c%d" % self.ix))
    parent.child = relationship(child, back_populates="parent", uselist=False)
    child.parent = relationship(parent, back_populates="child", uselist=False)
    return _reg.mapped(parent), _reg.mapped(child)


def _mk_m2m():
    sec = Table("c37_assoc", _reg.metadata, Column("pid", ForeignKey("c37p_m2m.id"), primary_key=True),
                Column("cid", ForeignKey("c37c_m2m.id"), primary_key=True))  # declared only, never used
    parent = type("C37P_m2m", (), dict(
        __tablename__="c37p_m2m", id=Column(Integer, primary_key=True), __init__=_ix_init,
        __repr__=lambda self: "p%d" % self.ix))
    child = type("C37C_m2m", (), dict(
        __tablename__="c37c_m2m", id=Column(Integer, primary_key=True), __init__=_ix_init,
        __repr__=lambda self: "c%d" % self.ix))
    parent.children = relationship(child, secondary=sec, back_populates="parents")
    child.parents = relationship(parent, secondary=sec, back_populates="children")
    return _reg.mapped(parent), _reg.mapped(child)


CLASSES = {"o2m_list": _mk_o2m("list", list), "o2m_set": _mk_o2m("set", set), "o2o": _mk_o2o(), "m2m": _mk_m2m(),
           "o2m_dict": _mk_o2m_dict()}
_reg.configure()
NP = {"o2m_list": 2, "o2m_set": 2, "o2o": 2, "m2m": 2, "o2m_dict": 2}
NC = {"o2m_list": 3, "o2m_set": 3, "o2o": 3, "m2m": 2, "o2m_dict": 3}


def _tracing():
    m = sys.modules.get("crosshair.tracers")
    return bool(m is not None and m.is_tracing())


def _native(fn, *args):
    if not _tracing():
        return fn(*args)
    from crosshair.tracers import NoTracing

    with NoTracing():
        return fn(*args)


# engine cost only (see props/C38.py)
import gc as _gc  # noqa: E402

_gc.collect()
_gc.freeze()


def pin_code(code, lo, hi):
    """Concrete value of the symbolic int ``code`` in [lo, hi): binary search over solver-decided comparisons."""
    assume((lo <= code) & (code < hi))
    hi -= 1
    while lo < hi:
        mid = (lo + hi) // 2
        if code <= mid:
            hi = mid
        else:
            lo = mid + 1
    return lo


# ------------------------------------------------------------------------------------------
# step alphabets.  A step is a tuple (op, ...) of plain values.
#   side "P": the collection / scalar on parent p;  side "C": the attribute on child c.

def _list_steps(side, owners, members, core):
    """mutations of the list collection ``owner.<coll>`` (owner index o, member indices m)"""
    out = []
    ms = list(range(members))
    last = members - 1
    for o in range(owners):
        out += [("append", side, o, m) for m in ms]
        out += [("remove", side, o, m) for m in ms]
        out += [("delattr", side, o)]  # del owner.<collection attribute>
        if core == "m2m":
            out += [("pop", side, o, None)]
        elif core:
            out += [("setitem", side, o, 0, m) for m in ms]
            out += [("replace", side, o, [1, 0]), ("pop", side, o, None)]
        else:
            out += [("insert", side, o, i, m) for i in (0, 1) for m in ms]
            out += [("setitem", side, o, i, m) for i in (0, 1) for m in ms]
            out += [("setslice", side, o, a, b, r) for a, b in ((0, 1), (1, None)) for r in ([], [0], [last, 1] if last > 1 else [1])]
            out += [("extend", side, o, [0, 1]), ("extend", side, o, [last])]
            out += [("replace", side, o, r) for r in ([], [0], [0, 1], [last, 0])]
            out += [("pop", side, o, None), ("pop", side, o, 0), ("clear", side, o)]
    return out


def _set_steps(owners, members, core):
    out = []
    ms = list(range(members))
    for o in range(owners):
        out += [("add", "P", o, m) for m in ms]
        out += [("remove", "P", o, m) for m in ms]
        out += [("delattr", "P", o)]
        if core:
            out += [("replace", "P", o, r) for r in ([0], [1, 0])]
            out += [("pop", "P", o, None)]
        else:
            out += [("replace", "P", o, r) for r in ([], [0], [0, 1], [1, 2])]
            out += [("pop", "P", o, None), ("clear", "P", o)]
            out += [("discard", "P", o, m) for m in ms]
            out += [("update", "P", o, [0, 1]), ("update", "P", o, [2])]
            out += [("difference_update", "P", o, [0, 1]), ("intersection_update", "P", o, [0, 1]),
                    ("symmetric_difference_update", "P", o, [0, 1])]
    return out


def _dict_steps(owners, core):
    """mutations of the attribute-keyed dict ``parent.children`` (key = child.k; children 0 and 2 share "a")"""
    out = []
    for o in range(owners):
        out += [("dset", "P", o, m) for m in range(3)]  # d[c.k] = c
        out += [("dpop_default", "P", o, "a"), ("popitem", "P", o), ("delattr", "P", o)]
        if not core:
            out += [("ddel", "P", o, m) for m in range(3)]  # del d[c.k]
            out += [("dpop", "P", o, k) for k in ("a", "b")] + [("dpop_default", "P", o, "b")]
            out += [("setdefault", "P", o, m) for m in range(3)]
            out += [("update_map", "P", o, [0, 1]), ("update_map", "P", o, [2]), ("update_pairs", "P", o, [2, 1])]
            out += [("clear", "P", o)]
            out += [("replace", "P", o, r) for r in ([], [0], [0, 1], [1, 2])]
    return out


def _scalar_steps(side, owners, targets):
    out = []
    for o in range(owners):
        out += [("set", side, o, t) for t in range(targets)]
        out += [("set", side, o, None), ("del", side, o)]
    return out


def steps_of(kind, alpha):
    core = alpha == "core"
    np_, nc = NP[kind], (2 if core and kind != "o2o" else NC[kind])
    if kind == "o2m_list":
        return _list_steps("P", np_, nc, core) + _scalar_steps("C", nc, np_)
    if kind == "o2m_set":
        return _set_steps(np_, nc, core) + _scalar_steps("C", nc, np_)
    if kind == "o2m_dict":
        return _dict_steps(np_, core) + _scalar_steps("C", nc, np_)
    if kind == "o2o":
        return _scalar_steps("P", np_, NC[kind]) + _scalar_steps("C", NC[kind], np_)
    if kind == "m2m":
        return _list_steps("P", np_, nc, core and "m2m") + _list_steps("C", nc, np_, core and "m2m")
    raise AssertionError(kind)


# initial configurations: parent index (or None) of each child, established by plain appends / adds
INITS = {
    "o2m_list": [[None, None, None], [0, None, None], [0, 0, None], [0, 1, None], [1, 0, 0], [0, 0, 1]],
    "o2m_set": [[None, None, None], [0, None, None], [0, 0, None], [0, 1, None], [1, 0, 0], [0, 0, 1]],
    "o2m_dict": [[None, None, None], [0, None, None], [0, 0, None], [0, 1, None], [1, 0, 0], [0, 0, 1]],
    "o2o": [[None, None, None], [0, None, None], [0, 1, None]],
    # m2m: list of (p, c) associations
    "m2m": [[], [(0, 0)], [(0, 0), (0, 1)], [(0, 0), (1, 0)], [(0, 0), (1, 1), (0, 1)]],
}


def decode(kind, alpha, n, code):
    al = steps_of(kind, alpha)
    steps = []
    for _ in range(n):
        steps.append(al[code % len(al)])
        code //= len(al)
    return steps


def space_size(kind, alpha, n):
    return len(steps_of(kind, alpha)) ** n


# ------------------------------------------------------------------------------------------

class PropertyViolation(Exception):
    pass


class _Outside(Exception):
    """the step makes the *user* put the same object twice into one list (see META.outside)"""


def _fail(tag, detail=""):
    raise PropertyViolation("[[%s]] %s" % (tag, detail))


def _apply_list(lst, step):
    """plain Python list semantics of a collection step on a list of ints (in place)"""
    op = step[0]
    if op == "append":
        lst.append(step[3])
    elif op == "remove":
        lst.remove(step[3])
    elif op == "insert":
        lst.insert(step[3], step[4])
    elif op == "setitem":
        lst[step[3]] = step[4]
    elif op == "setslice":
        lst[step[3]:step[4]] = list(step[5])
    elif op == "extend":
        lst.extend(step[3])
    elif op == "replace":
        lst[:] = list(step[3])
    elif op == "pop":
        if step[3] is None:
            lst.pop()
        else:
            lst.pop(step[3])
    elif op in ("clear", "delattr"):
        del lst[:]
    else:
        raise AssertionError(step)


def _dput(lst, m):
    lst[:] = [x for x in lst if DKEYS[x] != DKEYS[m]] + [m]


def _apply_dict(lst, step):
    """dict semantics (key = DKEYS[member]) on a list of ints with pairwise different keys (in place)"""
    op = step[0]
    if op == "dset":
        _dput(lst, step[3])
    elif op == "ddel":
        hit = [x for x in lst if DKEYS[x] == DKEYS[step[3]]]
        if not hit:
            raise KeyError(DKEYS[step[3]])
        lst.remove(hit[0])
    elif op in ("dpop", "dpop_default"):
        hit = [x for x in lst if DKEYS[x] == step[3]]
        if hit:
            lst.remove(hit[0])
        elif op == "dpop":
            raise KeyError(step[3])
    elif op == "popitem":
        if not lst:
            raise KeyError("popitem(): dictionary is empty")
        lst.pop()  # corrected with the member the real popitem() returned
    elif op == "setdefault":
        if not [x for x in lst if DKEYS[x] == DKEYS[step[3]]]:
            lst.append(step[3])
    elif op in ("update_map", "update_pairs"):
        for m in step[3]:
            if m not in lst:
                _dput(lst, m)
    elif op == "replace":
        lst[:] = list(step[3])
    elif op in ("clear", "delattr"):
        del lst[:]
    else:
        raise AssertionError(step)


def _apply_set(lst, step, real_pop=None):
    """set semantics on a duplicate-free list of ints (in place)"""
    op = step[0]
    if op == "add":
        if step[3] not in lst:
            lst.append(step[3])
    elif op == "remove":
        if step[3] not in lst:
            raise KeyError(step[3])
        lst.remove(step[3])
    elif op == "discard":
        if step[3] in lst:
            lst.remove(step[3])
    elif op == "replace":
        lst[:] = list(step[3])
    elif op == "pop":
        if not lst:
            raise KeyError("pop from an empty set")
        lst.remove(real_pop if real_pop in lst else lst[0])  # any member conforms
    elif op in ("clear", "delattr"):
        del lst[:]
    elif op == "update":
        for m in step[3]:
            if m not in lst:
                lst.append(m)
    elif op == "difference_update":
        lst[:] = [m for m in lst if m not in step[3]]
    elif op == "intersection_update":
        lst[:] = [m for m in lst if m in step[3]]
    elif op == "symmetric_difference_update":
        lst[:] = [m for m in lst if m not in step[3]] + [m for m in step[3] if m not in lst]
    else:
        raise AssertionError(step)


def _real_coll_op(coll, step, pool):
    """the same step on the instrumented collection; returns what pop() returned"""
    op = step[0]
    if op == "append":
        coll.append(pool[step[3]])
    elif op == "add":
        coll.add(pool[step[3]])
    elif op == "remove":
        coll.remove(pool[step[3]])
    elif op == "discard":
        coll.discard(pool[step[3]])
    elif op == "insert":
        coll.insert(step[3], pool[step[4]])
    elif op == "setitem":
        coll[step[3]] = pool[step[4]]
    elif op == "setslice":
        coll[step[3]:step[4]] = [pool[m] for m in step[5]]
    elif op == "extend":
        coll.extend([pool[m] for m in step[3]])
    elif op == "pop":
        return coll.pop() if step[3] is None else coll.pop(step[3])
    elif op == "clear":
        coll.clear()
    elif op == "dset":
        coll[pool[step[3]].k] = pool[step[3]]
    elif op == "ddel":
        del coll[pool[step[3]].k]
    elif op == "dpop":
        return coll.pop(step[3])
    elif op == "dpop_default":
        return coll.pop(step[3], None)
    elif op == "popitem":
        return coll.popitem()[1]
    elif op == "setdefault":
        coll.setdefault(pool[step[3]].k, pool[step[3]])
    elif op == "update_map":
        coll.update({pool[x].k: pool[x] for x in step[3]})
    elif op == "update_pairs":
        coll.update([(pool[x].k, pool[x]) for x in step[3]])
    elif op in ("update", "difference_update", "intersection_update", "symmetric_difference_update"):
        getattr(coll, op)({pool[m] for m in step[3]})
    else:
        raise AssertionError(step)
    return None


class Model:
    """left[o]: members of owner o's collection / [value] of its scalar, on the parent side;
    right[m]: the same on the child side.  kinds: which side is a collection."""

    def __init__(self, kind):
        self.kind = kind
        self.np, self.nc = NP[kind], NC[kind]
        self.P = [[] for _ in range(self.np)]  # per parent: child indices (o2o: at most one)
        self.C = [[] for _ in range(self.nc)]  # per child: parent indices (o2m / o2o: at most one)

    def side(self, s):
        return (self.P, self.C) if s == "P" else (self.C, self.P)

    def scalar(self, s):
        return self.kind == "o2o" or (self.kind in ("o2m_list", "o2m_set", "o2m_dict") and s == "C")

    def sync(self, s, o, before, after):
        """owner o on side s changed its members from ``before`` to ``after``: complementary change on the other side"""
        mine, other = self.side(s)
        for m in before:
            if m not in after and o in other[m]:
                other[m].remove(o)
        for m in after:
            if m not in before:
                if self.scalar("C" if s == "P" else "P"):
                    # the member's scalar now points to o: its previous owner loses it
                    for prev in list(other[m]):
                        if prev != o:
                            other[m].remove(prev)
                            if m in mine[prev]:
                                mine[prev].remove(m)
                    other[m] = [o]
                elif o not in other[m]:
                    if self.kind == "o2m_dict":
                        # the backref stores o under its key in the parent's dict: the member holding that key leaves
                        for e in list(other[m]):
                            if DKEYS[e] == DKEYS[o]:
                                other[m].remove(e)
                                mine[e] = []
                    other[m].append(o)


def _dups(m):
    for lst in m.P + m.C:
        if len(set(lst)) != len(lst):
            return True
    return False


def _run(kind, init, steps):
    pcls, ccls = CLASSES[kind]
    ps = [pcls(i) for i in range(NP[kind])]
    cs = [ccls(i) for i in range(NC[kind])]
    m = Model(kind)
    setlike = kind in ("o2m_set", "o2m_dict")  # unordered comparison, no user-made duplicates possible

    def real_state():
        """(P, C) in the model's representation, read from the instances"""
        if kind == "o2o":
            P = [[p.child.ix] if p.child is not None else [] for p in ps]
        elif kind == "o2m_dict":
            P = [[c.ix for c in dict.values(p.children)] for p in ps]
        else:
            P = [[c.ix for c in p.children] for p in ps]
        if kind == "m2m":
            C = [[p.ix for p in c.parents] for c in cs]
        else:
            C = [[c.parent.ix] if c.parent is not None else [] for c in cs]
        return P, C

    def check(where, ordered=None):
        P, C = real_state()
        _check(where, ordered, P, C)
        # the order in which backref-induced members appear is outside the property: the model adopts it
        m.P = [list(x) for x in P]
        m.C = [list(x) for x in C]

    def _check(where, ordered, P, C):
        # the property: membership on one side <=> reference on the other side
        for p in range(m.np):
            for c in range(m.nc):
                if (c in P[p]) != (p in C[c]):
                    _fail(where + ":sides-disagree", "c%d in p%d.children = %r but c%d -> p%d = %r; parents side %r children side %r"
                          % (c, p, c in P[p], c, p, p in C[c], P, C))
        for side, lists in (("P", P), ("C", C)):
            for o, lst in enumerate(lists):
                if len(set(lst)) != len(lst):
                    _fail(where + ":duplicate-created", "%s%d holds %r" % (side.lower(), o, lst))
        # reference model: exact on the operated collection, as sets elsewhere
        for side, real, model in (("P", P, m.P), ("C", C, m.C)):
            for o in range(len(real)):
                if ordered == (side, o) and not setlike:
                    same = real[o] == model[o]
                else:
                    same = sorted(real[o]) == sorted(model[o])
                if not same:
                    _fail(where + ":state-differs-from-model", "%s%d: real %r model %r (parents side real %r model %r)"
                          % (side.lower(), o, real[o], model[o], P, m.P))

    # initial configuration
    if kind == "m2m":
        for p, c in init:
            ps[p].children.append(cs[c])
            m.P[p].append(c)
            m.C[c].append(p)
    else:
        for c, p in enumerate(init):
            if p is None:
                continue
            if kind == "o2o":
                ps[p].child = cs[c]
            elif kind == "o2m_dict":
                ps[p].children[cs[c].k] = cs[c]
            elif setlike:
                ps[p].children.add(cs[c])
            else:
                ps[p].children.append(cs[c])
            m.P[p].append(c)
            m.C[c] = [p]
    check("initial")

    for step in steps:
        op, s, o = step[0], step[1], step[2]
        mine, _other = m.side(s)
        owners, pool = (ps, cs) if s == "P" else (cs, ps)
        attr = {"o2m_list": ("children", "parent"), "o2m_set": ("children", "parent"), "o2o": ("child", "parent"),
                "m2m": ("children", "parents"), "o2m_dict": ("children", "parent")}[kind][0 if s == "P" else 1]
        before = list(mine[o])
        where = "%s.%s:%s" % ("parent" if s == "P" else "child", attr, op)
        expect = None  # expected exception type name
        after = list(before)
        if m.scalar(s):
            if op == "set":
                after = [] if step[3] is None else [step[3]]
                if step[3] is not None and m.scalar("C" if s == "P" else "P") and any(prev != o for prev in _other[step[3]]):
                    where += ":target-currently-referenced-by-another-owner"
            else:  # del
                after = []
            if kind == "o2m_dict" and op == "set" and step[3] is not None and step[3] not in before and \
                    any(DKEYS[e] == DKEYS[o] and e != o for e in _other[step[3]]):
                # the backref stores the child under a key that another member of the parent's dict holds
                where += ":same-key-member-evicted"
        else:
            try:
                if kind == "o2m_dict":
                    _apply_dict(after, step)
                elif setlike:
                    _apply_set(after, step)
                else:
                    _apply_list(after, step)
            except (IndexError, ValueError, KeyError) as e:
                expect = type(e).__name__
                after = list(before)
            if not setlike and len(set(after)) != len(after):
                raise _Outside()  # the user puts an object into the same list twice
            if kind == "o2m_dict" and any(DKEYS[a] == DKEYS[b] for a in after if a not in before for b in before if b not in after):
                where += ":key-taken-over-from-removed-member"
        # the real thing
        raised = None
        popped = None
        try:
            if m.scalar(s):
                if op == "set":
                    setattr(owners[o], attr, None if step[3] is None else pool[step[3]])
                else:
                    delattr(owners[o], attr)
            elif op == "replace":
                members = [pool[x] for x in step[3]]
                setattr(owners[o], attr, {x.k: x for x in members} if kind == "o2m_dict" else (set(members) if setlike else members))
            elif op == "delattr":
                delattr(owners[o], attr)  # _CollectionAttributeImpl.delete -> CollectionAdapter.clear_with_event
            else:
                popped = _real_coll_op(getattr(owners[o], attr), step, pool)
        except (IndexError, ValueError, KeyError, AttributeError, sa_exc.InvalidRequestError) as e:
            raised = type(e).__name__
        if m.scalar(s) and op == "del":
            # del of an attribute without value may raise AttributeError
            if raised is not None and (raised != "AttributeError" or before):
                _fail(where + ":unexpected-exception", "%s with value %r" % (raised, before))
        elif raised != expect:
            _fail(where + ":exception-differs-from-%s" % ("dict" if kind == "o2m_dict" else "set" if setlike else "list"), "real %r expected %r, members %r step %r"
                  % (raised, expect, before, step))
        if setlike and op in ("pop", "popitem") and expect is None:
            after = [x for x in before if x != popped.ix]
        mine[o] = after
        m.sync(s, o, before, after)
        if _dups(m):
            raise _Outside()
        check(where, ordered=(s, o))
    return True


def _guarded(kind, init, steps):
    try:
        return _run(kind, init, steps)
    except _Outside:
        return None


def h_hist(kind: str, alpha: str, init: int, n: int, lo: int, hi: int, code: int) -> bool:
    c = pin_code(code, lo, hi)
    steps = _native(decode, kind, alpha, n, c)
    r = native(_guarded, kind, INITS[kind][init], steps)  # plain values only: the framework's native() section
    if r is None:
        assume(False)
    return r


# ------------------------------------------------------------------------------------------

META = {
    "explanation": "Style (b), solver-chosen inputs, concrete execution: the backref machinery works on instrumented "
                   "lists / sets / weakrefs (C containers), so the history (operations + indices + targets) is one symbolic "
                   "int per slice, case-split by z3-decided comparisons (one path per history) and decoded by a mixed-radix "
                   "table; the real SQLAlchemy code then runs on the decoded history with the tracer paused. After every step, "
                   "for every (parent, child) pair membership on one side must equal the reference on the other side, no "
                   "collection may hold an object twice, and the state must equal a reference model (operated collection: "
                   "list/set semantics, exact; other side: complementary mutation, compared as sets).",
    "functions": [
        "orm.attributes._backref_listeners.{emit_backref_from_scalar_set_event,emit_backref_from_collection_append_event,"
        "emit_backref_from_collection_remove_event}",
        "orm.attributes._ScalarObjectAttributeImpl.{set,delete,fire_replace_event,fire_remove_event}, _AttributeImpl.{append,remove,pop}",
        "orm.attributes._CollectionAttributeImpl.{append,remove,pop,set,fire_append_event,fire_remove_event,fire_pre_remove_event}",
        "orm.collections.{InstrumentedList,InstrumentedSet} mutators, _dict_decorators, KeyFuncDict.{set,remove}, "
        "CollectionAdapter.{fire_*_event,clear_with_event}, bulk_replace", "orm.attributes._CollectionAttributeImpl.delete",
        "orm.relationships.RelationshipProperty back_populates wiring (_generate_backref / _add_reverse_property)",
    ],
    "bounds": {
        "quick": {"objects": "2 parents x 3 children (many-to-many 2 x 2), all new (transient)",
                  "history": "2 steps over the full alphabet from 2-3 initial configurations (many-to-many: from the empty one, and "
                             "over the core alphabet from 4 others); 3 steps over the core alphabet from the empty configuration "
                             "(one-to-one: over the full alphabet; not for many-to-many)",
                  "full alphabet": "append, remove, insert(0|1), [0|1] = c, [0:1] / [1:] = [...], extend, pop(), pop(0), clear, "
                                   "collection replacement, child.parent = p / None, del child.parent; sets: add, remove, discard, "
                                   "pop, clear, update, difference/intersection/symmetric_difference_update, replacement; `del owner.collection` "
                                   "on every collection kind; attribute-keyed dict (children 0 and 2 share their key): d[k] = c, del d[k], "
                                   "pop(k), pop(k, default), popitem, setdefault, update (mapping / pairs), clear, replacement"},
        "thorough": {"history": "2 steps over the full alphabet from every initial configuration; from the empty configuration 3 steps "
                                "over the full alphabet (one-to-one: 4 steps; many-to-many and keyed dict: 2 steps, and 3 steps over the "
                                "core alphabet from every initial configuration)"},
    },
    "outside": [
        "'after flush and reload' (needs a database)",
        "histories in which the *user* puts the same object twice into one list (append / insert / [i] = / extend / slice of an "
        "object already in that list): allowed by SQLAlchemy, but then removing one occurrence or moving the object through "
        "the scalar side leaves the other occurrence behind; such histories are abandoned at the duplicating step",
        "unloaded collections / pending mutations of persistent objects, dynamic / write-only relationships, keyed dicts other "
        "than attribute_keyed_dict, changing the key attribute of a member",
        "the order in which backref-induced appends appear (compared as sets)",
    ],
    "stubs": [],
    "assumptions": ["all objects are new (transient); the secondary table of the many-to-many mapping is never used"],
}

CHUNK = 1024


def _slices(kind, alpha, init, n):
    total = space_size(kind, alpha, n)
    return [dict(kind=kind, alpha=alpha, init=init, n=n, lo=lo, hi=min(total, lo + CHUNK)) for lo in range(0, total, CHUNK)]


def harnesses(tier: str) -> List[Harness]:
    q = tier == "quick"
    sl = []
    for kind in CLASSES:
        ninit = len(INITS[kind])
        if q:
            if kind == "m2m":
                sl += _slices(kind, "full", 0, 2)
                for i in range(1, ninit):
                    sl += _slices(kind, "core", i, 2)
            else:
                # 5 = two members in one collection, one in the other
                for i in ((0, 5) if kind != "o2o" else range(ninit)):
                    sl += _slices(kind, "full", i, 2)
            if kind != "m2m":
                sl += _slices(kind, "core" if kind != "o2o" else "full", 0, 3)
        else:
            for i in range(1, ninit):
                sl += _slices(kind, "full", i, 2)
            if kind == "m2m":
                sl += _slices(kind, "full", 0, 2)
                for i in range(ninit):
                    sl += _slices(kind, "core", i, 3)
            elif kind == "o2o":
                sl += _slices(kind, "full", 0, 4)
            elif kind == "o2m_dict":
                for i in range(ninit):
                    sl += _slices(kind, "core", i, 3)
            else:
                sl += _slices(kind, "full", 0, 3)
    return [Harness("hist", h_hist, sl, budget_s=120 if q else 600)]


def _tag(rep):
    s = (rep or {}).get("exception") or ""
    if "[[" in s and "]]" in s:
        return s.split("[[", 1)[1].split("]]", 1)[0]
    return ""


def describe(args):
    steps = decode(args["kind"], args["alpha"], args["n"], args["code"])
    return "%s, initial configuration %r, history %s" % (args["kind"], INITS[args["kind"]][args["init"]], [list(s) for s in steps])


def classify(hname, args, rep):
    tag = _tag(rep)
    exc = (rep or {}).get("exception") or ""
    if tag:
        return ("C37:%s:%s" % (args["kind"], tag), "%s: %s" % (describe(args), exc[:400]))
    return ("C37:%s:harness-exception:%s" % (args["kind"], exc.split(":")[0][:60]), "%s: %s" % (describe(args), exc[:300]))


def run(tier: str, seed: int):
    return framework.run_symx(PID, __name__, tier, seed, harnesses(tier), classify, META)
