"""C08 LIKE-based string operators with autoescape match literal semantics (E1 symx, symbolic strings)."""
from __future__ import annotations

import sqlite3
from typing import List, Optional

from vlib import framework
from vlib.framework import Harness
from vlib.symx import assume, _tracing

from sqlalchemy.sql import operators

PID = "C08"

OPS = {
    "startswith": operators.startswith_op, "endswith": operators.endswith_op, "contains": operators.contains_op,
    "istartswith": operators.istartswith_op, "iendswith": operators.iendswith_op, "icontains": operators.icontains_op,
    "not_startswith": operators.not_startswith_op, "not_endswith": operators.not_endswith_op, "not_contains": operators.not_contains_op,
}


class _Capture:
    """Stands for the column: records what the operator function passes down."""

    def __init__(self):
        self.calls = []

    def _rec(self, name):
        def f(other, escape=None, **kw):
            self.calls.append((name, other, escape))
            return self
        return f

    def __getattr__(self, name):
        if name.startswith("__"):
            raise AttributeError(name)
        return self._rec(name)

    def __invert__(self):
        return self


import sqlalchemy as _sa


class _Deco(_sa.TypeDecorator):
    impl = _sa.String
    cache_ok = True


def decode_like(pattern: str, esc: Optional[str]):
    """Reference LIKE-pattern decoder (SQL standard ESCAPE semantics).  Returns (literal_text,
    n_wildcards, well_formed)."""
    out = []
    wild = 0
    i = 0
    n = len(pattern)
    ok = True
    while i < n:
        ch = pattern[i]
        if esc is not None and ch == esc:
            if i + 1 >= n:
                ok = False  # dangling escape character
                break
            nxt = pattern[i + 1]
            if not (nxt == "%" or nxt == "_" or nxt == esc):
                ok = False  # the standard only allows escaping %, _ and the escape character
            out.append(nxt)
            i += 2
            continue
        if ch == "%" or ch == "_":
            wild += 1
            i += 1
            continue
        out.append(ch)
        i += 1
    return "".join(out), wild, ok


def _sqlite_confirm(opname: str, other: str, esc: Optional[str], pattern: str, used_escape) -> bool:
    """Ground truth on the linked sqlite3 (case-sensitive LIKE): the operator built through the public
    expression API must match a subject exactly when the Python substring/prefix/suffix test holds."""
    import sqlalchemy as sa

    base = opname.replace("not_", "")
    if base.startswith("i"):
        return True  # case-insensitive variants: escaping is shared; collation is outside the claim
    subjects = {other, "q" + other + "q", other + "q", "q" + other, "", "q", other.replace("%", "z").replace("_", "z"),
                other.replace("%", "").replace("_", ""), other + other, (esc or "/") + other}
    if other:
        subjects.add(other[:-1])
        subjects.add(other[1:])
    conn = sqlite3.connect(":memory:")
    try:
        conn.execute("PRAGMA case_sensitive_like = ON")
        conn.execute("CREATE TABLE t (x TEXT)")
        from sqlalchemy.dialects import sqlite as sqlite_d

        # plain String column and a TypeDecorator-typed column (its Comparator forwards the operator)
        for typ in (sa.String, _Deco):
            col = sa.column("x", typ)
            expr = getattr(col, base)(other, escape=esc, autoescape=True)
            comp = sa.select(sa.literal_column("1")).select_from(sa.table("t", col)).where(expr).compile(dialect=sqlite_d.dialect())
            for s in sorted(subjects):
                if "\x00" in s:
                    continue
                conn.execute("DELETE FROM t")
                conn.execute("INSERT INTO t VALUES (?)", (s,))
                params = tuple(comp.params[n] for n in comp.positiontup)
                got = conn.execute(str(comp), params).fetchone() is not None
                exp = {"startswith": s.startswith(other), "endswith": s.endswith(other), "contains": other in s}[base]
                if got != exp:
                    return False
        return True
    finally:
        conn.close()


def h_autoescape(opname: str, n: int, esckind: str, other: str, escch: str) -> bool:
    assume(len(other) == n)
    if esckind == "none":
        esc: Optional[str] = None
    elif esckind == "percent":
        esc = "%"
    elif esckind == "underscore":
        esc = "_"
    elif esckind == "slash":
        esc = "/"
    elif esckind.startswith("chr:"):
        esc = chr(int(esckind[4:]))
    else:
        assume(len(escch) == 1)
        esc = escch
    for ch in other:
        assume(ch != "\x00")
    if esc is not None:
        assume(esc != "\x00")
    if esckind.startswith("chr:"):
        # small adversarial alphabet: if the implementation hands the operand to C (re, str.translate ...)
        # the engine enumerates values, which only terminates over a finite alphabet
        for ch in other:
            assume(ch == "%" or ch == "_" or ch == esc or ch == "a" or ch == "\\" or ch == "'")
    cap = _Capture()
    OPS[opname](cap, other, escape=esc, autoescape=True)
    if len(cap.calls) != 1:
        return False
    meth, pattern, used = cap.calls[0]
    if meth != opname.replace("not_", ""):
        return False
    if esc is not None and used != esc:
        return False
    if used is None or len(used) != 1:
        return False
    lit, wild, ok = decode_like(pattern, used)
    if not (ok and wild == 0 and lit == other):
        return False
    if not _tracing():
        # concrete replay: confirm end-to-end on sqlite3
        return _sqlite_confirm(opname, other, esc, pattern, used)
    return True


def h_plain_escape(opname: str, n: int, other: str, escch: str) -> bool:
    """Without autoescape the value must be passed through untouched (explicit escape only)."""
    assume(len(other) == n and len(escch) == 1)
    cap = _Capture()
    OPS[opname](cap, other, escape=escch, autoescape=False)
    if len(cap.calls) != 1:
        return False
    _, pattern, used = cap.calls[0]
    return pattern == other and used == escch


META = {
    "explanation": "The real operator functions (startswith_op/endswith_op/contains_op and i-/not_ variants -> _escaped_like_impl) run on a SYMBOLIC operand string "
                   "and escape character; the pattern and escape they hand to the column method are decoded with a reference LIKE ESCAPE decoder: the pattern must be "
                   "well formed, contain no live wildcard and decode to exactly the operand. Then `x LIKE '%'||p||'%' ESCAPE e` <=> operand in x follows by the definition of "
                   "LIKE. Concrete replay additionally runs the expression built through the public API on sqlite3 (case_sensitive_like) against Python's test.",
    "functions": ["sql.operators._escaped_like_impl", "operators.startswith_op/endswith_op/contains_op/istartswith_op/iendswith_op/icontains_op/not_*_op (argument plumbing)",
                  "ColumnOperators.startswith/endswith/contains + SQLCompiler.visit_*_op_binary on sqlite (replay only)"],
    "bounds": {"quick": {"operand": "any unicode string of length <= 3 (no NUL)", "escape": "None(default '/'), '%', '_', '/', any single char (symbolic), and 36 concrete regex/format/SQL metacharacters"},
               "thorough": {"operand": "length <= 4", "escape": "same"}},
    "outside": ["collation / case folding of the i-variants on real backends", "backends other than SQLite for the executed confirmation", "operands longer than the bound"],
    "stubs": ["the column is a recording stub (captures method name, pattern, escape)"],
    "assumptions": ["standard SQL ESCAPE semantics (escape char may precede only %, _ or itself)"],
}


# concrete escape characters that are special in regular expressions, format strings, SQL or Python escapes
ESC_TABLE = tuple("chr:%d" % ord(c) for c in "\\^$.[]-*+?(){}|!#~'\"aA0 \n\t\u00e9&<>=,;:@`")


def harnesses(tier: str) -> List[Harness]:
    maxn = 3 if tier == "quick" else 4
    sl = []
    for op in OPS:
        for n in range(0, maxn + 1):
            for ek in ("none", "percent", "underscore", "slash", "any") + ESC_TABLE:
                if op.startswith(("i", "not_")) and (n > 2 or ek == "any" or ek.startswith("chr:")):
                    continue  # variants share _escaped_like_impl; plumbing is covered at small sizes
                if ek.startswith("chr:") and (op != "contains" or n > 2):
                    continue
                sl.append(dict(opname=op, n=n, esckind=ek))
    return [
        Harness("autoescape", h_autoescape, sl, budget_s=40 if tier == "quick" else 240),
        Harness("plain_escape", h_plain_escape, [dict(opname=op, n=n) for op in ("startswith", "contains", "endswith") for n in (0, 1, 2)], budget_s=20),
    ]


def classify(hname, args, rep):
    if hname == "autoescape":
        ek = args["esckind"]
        other = args["other"]
        feat = []
        if "%" in other:
            feat.append("percent")
        if "_" in other:
            feat.append("underscore")
        esc = {"none": "/", "percent": "%", "underscore": "_", "slash": "/"}.get(ek, args.get("escch"))
        if ek.startswith("chr:"):
            esc = chr(int(ek[4:]))
        if esc and esc in other and esc not in "%_":
            feat.append("escchar")
        if esc == "%":
            return ("C08:escape-is-percent:own-wildcard-becomes-escape",
                    "%s(%r, escape='%%', autoescape=True): the '%%' wildcard the operator itself adds is read as an escape character (x LIKE p || '%%' ESCAPE '%%'), so the operator does not match as documented" % (args["opname"], other))
        esckey = ek if (ek != "any" and not ek.startswith("chr:")) else ("any:" + ("wildcard" if esc in ("%", "_") else "other"))
        return ("C08:autoescape:escape=%s:operand-has-%s" % (esckey, "+".join(feat) or "plain"),
                "%s(%r, escape=%r, autoescape=True) produces a pattern that does not decode to the literal operand / disagrees with sqlite3" % (args["opname"], other, esc))
    return ("C08:%s:%s" % (hname, args.get("opname")), "%s fails on %s" % (hname, args))


def run(tier: str, seed: int):
    return framework.run_symx(PID, __name__, tier, seed, harnesses(tier), classify, META)
