"""C27 A database disconnect invalidates the connection and blocks silent continuation (E1 symx).

A real Engine / Connection / QueuePool over the fake DBAPI; a DBAPI error is injected at a symbolic DBAPI
call of a symbolic history of execute / begin / begin_nested / commit / rollback / savepoint operations; the
error's kind (looks like a disconnect to the dialect or not), and a ``handle_error`` listener that leaves,
flips or restricts the classification are part of the input.  Oracle: docs "Dealing with Disconnects",
``Connection.invalidate`` / ``ExceptionContext`` docstrings.
"""
from __future__ import annotations

import warnings
from typing import List, Tuple

from vlib import fakedb, framework
from vlib.framework import Harness
from vlib.symx import Assume, assume, native

try:  # warm import: symx.native()/assume() look at the tracer state (also in tracer-less replays)
    import crosshair.tracers  # noqa: F401
except ImportError:
    pass

from sqlalchemy import create_engine, event
from sqlalchemy import exc as sa_exc
from sqlalchemy.dialects import registry
from sqlalchemy.pool import base as pool_base

PID = "C27"

# --------------------------------------------------------------------------------------------------
# fake DBAPI extension: savepoint statements go through cursor.execute, as on real dialects, so that a
# failure is handled by Connection._handle_dbapi_exception (fakedb.FakeDialect calls the fake connection's
# savepoint API directly); "softdisc" = an error that *looks* like a disconnect but leaves the server
# connection alive (a false positive of is_disconnect()).


class Cursor27(fakedb.FakeCursor):
    def execute(self, statement, parameters=None):
        words = statement.split()
        verb = words[0].upper()
        if verb == "SAVEPOINT":
            self.conn.savepoint(words[1])
        elif verb == "RELEASE":
            self.conn.release_savepoint(words[1])
        elif verb == "ROLLBACK_TO":
            self.conn.rollback_to_savepoint(words[1])
        else:
            super().execute(statement, parameters)
            return
        self.description = None
        self.rowcount = -1
        self._rows = []


class Conn27(fakedb.FakeConnection):
    def cursor(self):
        self._check("cursor")
        return Cursor27(self)


class Server27(fakedb.FakeServer):
    def connect(self):
        self.tick(None, "connect")
        c = Conn27(self, len(self.connections))
        self.connections.append(c)
        return c

    def tick(self, conn, op):
        if self.faults.get(self.calls + 1) == "softdisc":
            self.calls += 1
            self.log.append((conn.id if conn is not None else -1, op))
            raise fakedb.OperationalError("fake: disconnect")
        super().tick(conn, op)


class Dialect27(fakedb.FakeDialect):
    name = "fake27"
    supports_statement_cache = True

    def do_savepoint(self, connection, name):
        connection.exec_driver_sql("SAVEPOINT " + name)

    def do_rollback_to_savepoint(self, connection, name):
        connection.exec_driver_sql("ROLLBACK_TO " + name)

    def do_release_savepoint(self, connection, name):
        connection.exec_driver_sql("RELEASE " + name)


class _Clock:
    """Stub for ``time`` in pool/base.py: strictly increasing, i.e. "measurable time passes between state
    changes" -- the assumption spelled out in _ConnectionRecord.get_connection."""

    def __init__(self):
        self.t = 1000

    def time(self):
        self.t += 1
        return self.t


# --------------------------------------------------------------------------------------------------

EXEC, BEGIN, BEGIN_NESTED, COMMIT, ROLLBACK, SP_COMMIT, SP_ROLLBACK = range(7)
OPNAMES = ["execute", "begin", "begin_nested", "commit", "rollback", "savepoint.commit", "savepoint.rollback"]
NOPS = len(OPNAMES)
L_NONE, L_PASSIVE, L_FLIP, L_NOPOOL = range(4)
LNAMES = ["no-listener", "passive-listener", "listener-flips-is_disconnect", "listener-clears-invalidate_pool_on_disconnect"]


class PropertyViolation(Exception):
    pass


def _fail(tag: str, detail: str = ""):
    raise PropertyViolation("[[%s]] %s" % (tag, detail))


def _setup(listener: int):
    registry.register("fake27", "props.C27", "Dialect27")
    srv = Server27()
    eng = create_engine("fake27://", module=fakedb.FakeDBAPI(srv), pool_size=5)
    seen = []
    if listener != L_NONE:

        @event.listens_for(eng, "handle_error")
        def on_error(ctx):
            if not isinstance(ctx.original_exception, fakedb.Error):
                return
            seen.append((ctx.is_disconnect, ctx.connection))
            if listener == L_FLIP:
                ctx.is_disconnect = not ctx.is_disconnect
            elif listener == L_NOPOOL:
                ctx.invalidate_pool_on_disconnect = False

    a = eng.connect()
    b = eng.connect()
    conn = eng.connect()
    a.close()
    b.close()
    return eng, srv, conn, seen


def _pick(x, lo: int, hi: int) -> int:
    """Concrete value of the symbolic int ``x`` (known to be in [lo, hi)): binary search over solver-decided
    comparisons, one path per feasible value (``concrete()`` may visit a value twice)."""
    while hi - lo > 1:
        mid = (lo + hi) // 2
        if x < mid:
            hi = mid
        else:
            lo = mid
    return lo


def _h_disc(n: int, op0: int, op1: int, listener: int, ops, fcode) -> bool:
    """``ops``: the history (first / second operation fixed by the slice); ``fcode`` encodes the fault:
    position in the history (fcode // 4), which DBAPI call of that operation fails (cursor() or the
    statement: (fcode // 2) % 2) and whether the error looks like a disconnect to the dialect (fcode % 2)."""
    ok = (0 <= fcode) & (fcode < 4 * n)
    fixed = 0
    if op0 >= 0:
        ok = ok & (ops[0] == op0)
        fixed = 1
        if op1 >= 0:
            ok = ok & (ops[1] == op1)
            fixed = 2
    for o in ops[fixed:]:
        ok = ok & (0 <= o) & (o < NOPS)
    assume(ok)  # one fork for all bounds
    # realise the history first and drop histories that are impossible whatever SQLAlchemy does
    # (savepoint operation without an earlier begin_nested) before any engine is built
    cops = []
    nested_seen = 0
    for i in range(n):
        o = _pick(ops[i], 0, NOPS) if i >= fixed else (op0 if i == 0 else op1)
        if o in (SP_COMMIT, SP_ROLLBACK):
            assume(nested_seen > 0)
        if o == BEGIN_NESTED:
            nested_seen += 1
        cops.append(o)
    fcode = _pick(fcode, 0, 4 * n)
    fpos, off, looks_disc = fcode // 4, (fcode // 2) % 2, bool(fcode % 2)
    assume(cops[fpos] != BEGIN)  # begin() makes no DBAPI call: identical to a history without fault
    # from here on everything is concrete: the real SQLAlchemy code runs with the tracer paused
    try:
        return native(_run_concrete, n, listener, cops, fpos, off, looks_disc)
    except Assume:
        assume(False)  # a precondition that depends on what SQLAlchemy did (see _run)


def _make(n: int):
    def h(op0, op1, listener, ops, fcode):
        return _h_disc(n, op0, op1, listener, ops, fcode)

    h.__name__ = h.__qualname__ = "h_disc_%d" % n
    h.__annotations__ = {"op0": int, "op1": int, "listener": int, "ops": Tuple[(int,) * n], "fcode": int, "return": bool}
    return h


MAXN = 5
H_DISC = {n: _make(n) for n in range(1, MAXN + 1)}
globals().update({h.__name__: h for h in H_DISC.values()})


def _run_concrete(n, listener, ops, fpos, off, looks_disc) -> bool:
    saved_time = pool_base.time
    pool_base.time = _Clock()
    try:
        with warnings.catch_warnings():
            warnings.simplefilter("ignore")
            return _run(n, listener, ops, fpos, off, looks_disc)
    finally:
        pool_base.time = saved_time


def _run(n, listener, ops, fpos, off, looks_disc) -> bool:
    eng, srv, conn, seen = _setup(listener)
    if [c.id for c in srv.connections] != [0, 1, 2] or eng.pool.checkedin() != 2:
        _fail("setup")
    effective = looks_disc != (listener == L_FLIP)  # what SQLAlchemy has to act upon
    kind = ("disconnect" if effective else "softdisc") if looks_disc else "error"
    # model ------------------------------------------------------------------------------------
    in_txn = False          # the Connection has a transaction object
    nsp = 0                 # savepoints the model knows to be open
    blocked = None          # None | "disconnect" | "failed-commit": must rollback() before anything else
    vague = False           # after a failed savepoint statement: only the invariants are checked
    stale = []              # fake connections that must never be handed out again
    disconnected = False
    sps = []                # NestedTransaction handles of the current transaction
    committed: List[int] = []
    pending: List[List[int]] = [[]]  # rows per savepoint level
    loose_rows = False      # rows of a transaction whose COMMIT/ROLLBACK/savepoint statement failed may linger (C23)
    fired_at = None
    for i in range(n):
        op = ops[i]
        name = OPNAMES[op]
        if op in (SP_COMMIT, SP_ROLLBACK):
            assume(len(sps) > 0 and (nsp > 0 or blocked is not None or vague))
        was_invalid = conn.invalidated
        raw0 = None if was_invalid else conn.connection.dbapi_connection
        nconn0 = len(srv.connections)
        committed0 = list(srv.committed)
        calls0 = srv.calls
        if i == fpos:
            srv.faults[srv.calls + 1 + off] = kind
        err = None
        try:
            if op == EXEC:
                conn.exec_driver_sql("INSERT %d" % (i + 1))
            elif op == BEGIN:
                conn.begin()
            elif op == BEGIN_NESTED:
                sps.append(conn.begin_nested())
            elif op == COMMIT:
                conn.commit()
            elif op == ROLLBACK:
                conn.rollback()
            elif op == SP_COMMIT:
                sps[-1].commit()
            elif op == SP_ROLLBACK:
                sps[-1].rollback()
        except (sa_exc.DBAPIError, sa_exc.InvalidRequestError) as e:
            err = e
        fired = False
        if i == fpos:
            fired = srv.calls >= calls0 + 1 + off
            srv.faults.clear()
            if fired:
                fired_at = name
        what = "%s%s" % (name, ":blocked-by-" + blocked if blocked else "")
        if fired:
            what = "%s-at-%s:%s" % (("disconnect" if effective else "ordinary-error"), name, LNAMES[listener])
            # ---- the DBAPI call failed
            if not isinstance(err, sa_exc.DBAPIError):
                _fail("%s:error-not-raised-as-DBAPIError" % what, repr(err))
            if bool(err.connection_invalidated) != effective:
                _fail("%s:connection_invalidated-flag" % what, repr(err.connection_invalidated))
            if listener != L_NONE:
                if len(seen) != 1 or seen[0][0] != looks_disc or seen[0][1] is not conn:
                    _fail("%s:handle_error-context" % what, repr(seen))
            if effective:
                disconnected = True
                if not conn.invalidated:
                    _fail("%s:connection-not-invalidated" % what)
                if raw0 is None or not raw0.closed:
                    _fail("%s:dbapi-connection-not-closed" % what)
                stale = [raw0] if listener == L_NOPOOL else list(srv.connections)
                pending = [[]]
                loose_rows = False  # the server connection is gone, and its uncommitted rows with it
                committed = list(srv.committed)
                if op == ROLLBACK:
                    in_txn = False  # the transaction is over whether or not the ROLLBACK got through
                    nsp = 0
                    sps = []
                elif op in (EXEC,) and not in_txn:
                    # whether autobegin had happened before the failing DBAPI call is not specified
                    in_txn = conn.get_transaction() is not None
                else:
                    in_txn = True
                blocked = "disconnect" if in_txn else None
                vague = False
            else:
                if conn.invalidated or conn.connection.dbapi_connection is not raw0 or raw0.closed:
                    _fail("%s:connection-invalidated" % what)
                loose_rows = True
                if op == COMMIT:
                    blocked = "failed-commit"
                elif op == ROLLBACK:
                    in_txn = False
                    nsp = 0
                    sps = []
                    vague = True  # the server-side transaction state after a failed ROLLBACK is unknown
                elif op == EXEC:
                    if not in_txn:
                        in_txn = conn.get_transaction() is not None
                elif op == BEGIN_NESTED:
                    in_txn = True
                    vague = True
                else:
                    vague = True
        elif blocked is not None:
            # ---- "further use raises until rollback() is called"
            if op == ROLLBACK:
                if err is not None:
                    _fail("%s:rollback-raises" % what, repr(err))
                blocked = None
                in_txn = False
                nsp = 0
                sps = []
                pending = [[]]
                vague = False
            elif op == SP_ROLLBACK:
                pass  # rolling back the savepoint of a lost transaction: raising or not is unspecified
            else:
                if not isinstance(err, sa_exc.InvalidRequestError):
                    _fail("%s:does-not-raise" % what, repr(err))
            if blocked == "disconnect":
                if not conn.invalidated:
                    _fail("%s:reconnected-before-rollback" % what)
                if len(srv.connections) != nconn0:
                    _fail("%s:opened-a-dbapi-connection" % what)
            if srv.committed != committed0:
                _fail("%s:committed-rows-changed" % what)
        elif vague:
            if op == ROLLBACK and err is None:
                vague = False
                in_txn = False
                nsp = 0
                sps = []
                pending = [[]]
                committed = list(srv.committed)  # what a failed statement sequence left behind is not modelled
        else:
            # ---- ordinary operation on a usable connection
            expect_raise = op == BEGIN and in_txn
            if expect_raise != (err is not None):
                _fail("%s:%s" % (what, "unexpected-error" if err is not None else "did-not-raise"), repr(err))
            if isinstance(err, sa_exc.DBAPIError):
                _fail("%s:unexpected-DBAPIError" % what, repr(err))
            if err is None:
                if op == EXEC:
                    in_txn = True
                    pending[-1].append(i + 1)
                elif op == BEGIN:
                    in_txn = True
                elif op == BEGIN_NESTED:
                    in_txn = True
                    nsp += 1
                    pending.append([])
                elif op == COMMIT:
                    for lvl in pending:
                        committed.extend(lvl)
                    pending = [[]]
                    in_txn = False
                    nsp = 0
                    sps = []
                    if loose_rows:
                        committed = list(srv.committed)
                        loose_rows = False
                elif op == ROLLBACK:
                    pending = [[]]
                    in_txn = False
                    nsp = 0
                    sps = []
                elif op == SP_COMMIT:
                    nsp -= 1
                    sps.pop()
                    top = pending.pop()
                    pending[-1].extend(top)
                elif op == SP_ROLLBACK:
                    nsp -= 1
                    sps.pop()
                    pending.pop()
            if not loose_rows and srv.committed != committed:
                _fail("%s:committed-rows" % what, "%r %r" % (srv.committed, committed))
            if conn.in_transaction() != in_txn:
                _fail("%s:in_transaction" % what)
        # ---- invariants after every step
        if not conn.invalidated:
            cur = conn.connection.dbapi_connection
            if cur in stale:
                _fail("%s:uses-stale-dbapi-connection" % what, "fake connection %d" % cur.id)
            if cur.closed:
                _fail("%s:uses-closed-dbapi-connection" % what)
        if not disconnected:
            if conn.invalidated:
                _fail("%s:invalidated-without-disconnect" % what)
            if len(srv.connections) != 3 or [c.closed for c in srv.connections] != [False, False, False]:
                _fail("%s:pool-touched-without-disconnect" % what, repr([(c.id, c.closed) for c in srv.connections]))
            if eng.pool.checkedin() != 2:
                _fail("%s:pool-touched-without-disconnect" % what, eng.pool.status())
    # ---- epilogue: rollback (always allowed), then the Connection must be usable again
    tail = "after-%s%s" % (("disconnect-at-" if disconnected else "error-at-") + fired_at if fired_at else "no-fault",
                           ":" + LNAMES[listener] if fired_at else "")
    conn.rollback()
    if conn.in_transaction():
        _fail("%s:rollback-leaves-transaction" % tail)
    conn.exec_driver_sql("SELECT")
    if conn.invalidated:
        _fail("%s:no-reconnect" % tail)
    cur = conn.connection.dbapi_connection
    if cur in stale or cur.closed or cur.dead:
        _fail("%s:reconnect-uses-stale-dbapi-connection" % tail, "fake connection %d" % cur.id)
    conn.close()
    outs = [eng.connect() for _ in range(3)]
    got = [c.connection.dbapi_connection for c in outs]
    for g in got:
        if g in stale:
            _fail("%s:stale-dbapi-connection-handed-out" % tail, "fake connection %d" % g.id)
        if g.closed or g.dead:
            _fail("%s:dead-dbapi-connection-handed-out" % tail, "fake connection %d" % g.id)
    if len(set(g.id for g in got)) != 3:
        _fail("%s:same-dbapi-connection-handed-out-twice" % tail)
    if disconnected:
        if listener != L_NOPOOL:
            if not all(s.closed for s in stale):
                _fail("%s:stale-dbapi-connection-left-open" % tail, repr([(s.id, s.closed) for s in stale]))
        else:
            # invalidate_pool_on_disconnect=False: "only the current connection that is the subject of the
            # error will actually be invalidated" -- the two idle connections stay in use
            idle = srv.connections[:2]
            if any(c.closed for c in idle) or not all(c in got for c in idle):
                _fail("%s:idle-connections-invalidated" % tail, repr([(c.id, c.closed) for c in idle]))
    else:
        # pool contents identical: the same three DBAPI connections, nothing opened, nothing closed
        if sorted(g.id for g in got) != [0, 1, 2] or len(srv.connections) != 3:
            _fail("%s:pool-contents-changed" % tail, repr([g.id for g in got]))
    for c in outs:
        c.close()
    return True


# --------------------------------------------------------------------------------------------------

META = {
    "explanation": "Real Engine/Connection/QueuePool over a fake DBAPI; one DBAPI error is injected at a symbolic DBAPI call "
                   "(cursor() or the statement itself) of a symbolic operation history; error kind, handle_error listener "
                   "behaviour and history are inputs: the solver decides every step and the fault code (binary search over z3-decided "
                   "comparisons), impossible histories are cut before an engine is built, and the SQLAlchemy code then runs on the "
                   "realised input (no symbolic value can reach it).  Checked: DBAPIError.connection_invalidated, Connection.invalidated, "
                   "identity/closedness of every fake DBAPI connection handed out afterwards, 'raises until rollback()', "
                   "transparent reconnect after rollback(), and that ordinary errors leave pool and connection untouched.",
    "functions": [
        "engine.base.Connection.{_handle_dbapi_exception,_revalidate_connection,_invalid_transaction,invalidate,invalidated,connection,"
        "exec_driver_sql,_execute_context,begin,begin_nested,commit,rollback,_commit_impl,_rollback_impl,_savepoint_impl,"
        "_release_savepoint_impl,_rollback_to_savepoint_impl,close}",
        "engine.base.{RootTransaction,NestedTransaction}._do_commit/_do_rollback/_close_impl",
        "engine.base.ExceptionContextImpl; events handle_error (is_disconnect, invalidate_pool_on_disconnect)",
        "pool.base.Pool._invalidate, _ConnectionRecord.{invalidate,get_connection,checkout,checkin}, _ConnectionFairy.invalidate",
        "pool.impl.QueuePool._do_get/_do_return_conn",
    ],
    "bounds": {
        "quick": {"history length": "<=3 (7 operations) for all listener modes; 4 without listener and with the flipping listener", "fault": "one DBAPI error at any operation, "
                  "at cursor() or at the statement; kinds: disconnect, looks-like-disconnect-but-alive, ordinary",
                  "listeners": LNAMES, "pool": "QueuePool(5) holding 2 idle older connections + the one in use"},
        "thorough": {"history length": "<=4 for all listener modes; 5 without listener", "fault": "as quick", "listeners": LNAMES, "pool": "as quick"},
    },
    "outside": [
        "more than one fault per history; faults during pool reset / Connection.close() (C26); pre_ping",
        "whether autobegin has happened when the very first statement of a transaction fails (taken from get_transaction())",
        "savepoint.rollback() on a Connection that waits for rollback(): may raise or not",
        "state after an *ordinary* error inside SAVEPOINT / RELEASE / ROLLBACK TO / ROLLBACK statements: only the invariants "
        "(connection valid, pool untouched, nothing handed out twice) are checked until the next successful rollback()",
        "row-level effects of a rollback() after a failed COMMIT (checked by C23's failed-commit harness)",
        "is_exit_exception (KeyboardInterrupt etc.) handling, threads, real servers",
    ],
    "stubs": ["vlib/fakedb.py fake DBAPI, extended in props/C27.py: savepoint statements go through cursor.execute (so that failures reach "
              "_handle_dbapi_exception), 'softdisc' fault = error that looks like a disconnect but leaves the server connection alive",
              "sqlalchemy.pool.base.time replaced by a strictly increasing counter during the harness"],
    "assumptions": ["engine creation and everything after the solver has fixed history and fault run concretely (tracer paused)",
                    "time is strictly increasing between pool state changes (the code's own NOTE in _ConnectionRecord.get_connection)",
                    "the handle_error listener only reclassifies DBAPI errors"],
}


_FIRST = (EXEC, BEGIN, BEGIN_NESTED, COMMIT, ROLLBACK)  # a savepoint operation cannot come first


def _slices(n: int, listener: int, split: int):
    """split 0: one slice; 1: one slice per first operation; 2: per first and second operation."""
    if split == 0:
        return [dict(op0=-1, op1=-1, listener=listener)]
    out = []
    for op0 in _FIRST:
        if split == 1:
            out.append(dict(op0=op0, op1=-1, listener=listener))
            continue
        for op1 in range(NOPS):
            if op1 in (SP_COMMIT, SP_ROLLBACK) and op0 != BEGIN_NESTED:
                continue
            out.append(dict(op0=op0, op1=op1, listener=listener))
    return out


def harnesses(tier: str) -> List[Harness]:
    q = tier == "quick"
    per_n = {n: [] for n in range(1, MAXN + 1)}
    for listener in range(4):
        per_n[1] += _slices(1, listener, 0)
        per_n[2] += _slices(2, listener, 0)
        per_n[3] += _slices(3, listener, 1)
        if not q or listener in (L_NONE, L_FLIP):
            per_n[4] += _slices(4, listener, 1 if q else 2)
    if not q:
        per_n[5] += _slices(5, L_NONE, 2)
    return [Harness("disconnect_history_n%d" % n, H_DISC[n], sl, budget_s=150 if q else 800) for n, sl in per_n.items() if sl]


def _tag(rep) -> str:
    s = (rep or {}).get("exception") or ""
    if "[[" in s and "]]" in s:
        return s.split("[[", 1)[1].split("]]", 1)[0]
    return ""


def classify(hname, args, rep):
    tag = _tag(rep)
    exc_s = (rep or {}).get("exception") or ""
    hist = [OPNAMES[o] for o in args["ops"]]
    fc = args["fcode"]
    desc = "history %s, fault at op %d call +%d (%s), %s" % (
        hist, fc // 4, (fc // 2) % 2, "looks like disconnect" if fc % 2 else "ordinary error", LNAMES[args["listener"]])
    key = "C27:" + (tag or "history:%s" % "/".join(hist))
    return key, "%s: %s  [key %s]" % (desc, exc_s[:300], key)


def run(tier: str, seed: int):
    return framework.run_symx(PID, __name__, tier, seed, harnesses(tier), classify, META)
