"""C27 A database disconnect invalidates the connection and blocks silent continuation (E1 symx).

A real Engine / Connection / QueuePool over the fake DBAPI; a DBAPI error is injected at a symbolic DBAPI
call of a symbolic history of execute / begin / begin_nested / commit / rollback / savepoint operations; the
error's kind (looks like a disconnect to the dialect or not), and a ``handle_error`` listener that leaves,
flips or restricts the classification are part of the input; so are ``pool_recycle``, ``Connection.detach()`` as a
history operation and up to three faults per history (e.g. a disconnect, a failing reconnect, an ordinary error).  Oracle: docs "Dealing with Disconnects",
``Connection.invalidate`` / ``ExceptionContext`` docstrings.
"""
from __future__ import annotations

import itertools
import warnings
from typing import List, Tuple

from vlib import fakedb, framework
from vlib.framework import Harness
from vlib.symx import Assume, assume, native, pick

try:  # warm import: symx.native()/assume() look at the tracer state (also in tracer-less replays)
    import crosshair.tracers  # noqa: F401
except ImportError:
    pass

from sqlalchemy import create_engine, event
from sqlalchemy import exc as sa_exc
from sqlalchemy.dialects import registry
from sqlalchemy.pool import base as pool_base

PID = "C27"

# --------------------------------------------------------------------------------------------------
# fake DBAPI extension: savepoint statements go through cursor.execute, as on real dialects, so that a
# failure is handled by Connection._handle_dbapi_exception (fakedb.FakeDialect calls the fake connection's
# savepoint API directly); "softdisc" = an error that *looks* like a disconnect but leaves the server
# connection alive (a false positive of is_disconnect()).


class Cursor27(fakedb.FakeCursor):
    def execute(self, statement, parameters=None):
        words = statement.split()
        verb = words[0].upper()
        if verb == "SAVEPOINT":
            self.conn.savepoint(words[1])
        elif verb == "RELEASE":
            self.conn.release_savepoint(words[1])
        elif verb == "ROLLBACK_TO":
            self.conn.rollback_to_savepoint(words[1])
        else:
            super().execute(statement, parameters)
            return
        self.description = None
        self.rowcount = -1
        self._rows = []


class Conn27(fakedb.FakeConnection):
    def cursor(self):
        self._check("cursor")
        return Cursor27(self)


class Server27(fakedb.FakeServer):
    """Adds one-shot, position-armed faults: ``armed = [k, kind]`` fails the (k+1)-th DBAPI call after arming,
    not counting ``close()`` calls (the pool swallows errors of close(); faults in the pool's own
    housekeeping belong to C26)."""

    armed = None
    fired = False
    fired_conn = None  # the fake connection whose call failed (None: the connect() call itself)

    def connect(self):
        self.tick(None, "connect")
        c = Conn27(self, len(self.connections))
        self.connections.append(c)
        return c

    def tick(self, conn, op):
        a = self.armed
        if a is not None and op != "close":
            if a[0] == 0:
                self.armed = None
                self.fired = True
                self.fired_conn = conn
                self.calls += 1
                self.log.append((conn.id if conn is not None else -1, op))
                if a[1] == "error":
                    raise fakedb.ProgrammingError("fake: injected error in " + op)
                if a[1] == "disconnect" and conn is not None:
                    conn.dead = True
                raise fakedb.OperationalError("fake: disconnect")  # "softdisc": the connection stays alive
            a[0] -= 1
        super().tick(conn, op)


class Dialect27(fakedb.FakeDialect):
    name = "fake27"
    supports_statement_cache = True

    def do_savepoint(self, connection, name):
        connection.exec_driver_sql("SAVEPOINT " + name)

    def do_rollback_to_savepoint(self, connection, name):
        connection.exec_driver_sql("ROLLBACK_TO " + name)

    def do_release_savepoint(self, connection, name):
        connection.exec_driver_sql("RELEASE " + name)


class _Clock:
    """Stub for ``time`` in pool/base.py: strictly increasing, i.e. "measurable time passes between state
    changes" -- the assumption spelled out in _ConnectionRecord.get_connection."""

    def __init__(self):
        self.t = 1000

    def time(self):
        self.t += 1
        return self.t


# --------------------------------------------------------------------------------------------------

EXEC, BEGIN, BEGIN_NESTED, COMMIT, ROLLBACK, SP_COMMIT, SP_ROLLBACK, DETACH, INVALIDATE = range(9)
OPNAMES = ["execute", "begin", "begin_nested", "commit", "rollback", "savepoint.commit", "savepoint.rollback", "detach", "invalidate"]
# alphabets: 0 = the disconnect-handling operations + detach; 1 = without begin() and the savepoint handle
# operations (longest single-fault histories); 2 = with Connection.invalidate() instead of detach (multi-fault)
ALPHABETS = [list(range(8)), [EXEC, BEGIN_NESTED, COMMIT, ROLLBACK, DETACH], [EXEC, BEGIN_NESTED, COMMIT, ROLLBACK, INVALIDATE]]
L_NONE, L_PASSIVE, L_FLIP, L_NOPOOL = range(4)
LNAMES = ["no-listener", "passive-listener", "listener-flips-is_disconnect", "listener-clears-invalidate_pool_on_disconnect"]
RECYCLE_LARGE = 100000  # never reached by the stub clock: recycling by age must not switch off invalidation
# a fault = (which DBAPI call of the operation: 1st, 2nd, 3rd) x (looks like a disconnect to the dialect or not);
# a 3rd call only exists when the operation reconnects first, i.e. after an earlier disconnect fault


def nkind(nf: int) -> int:
    return 4 if nf <= 1 else 6


CALLNAMES = ["1st", "2nd", "3rd"]


class PropertyViolation(Exception):
    pass


def _fail(tag: str, detail: str = ""):
    raise PropertyViolation("[[%s]] %s" % (tag, detail))


def _setup(listener: int, recycle: int, idle: int):
    registry.register("fake27", "props.C27", "Dialect27")
    srv = Server27()
    eng = create_engine("fake27://", module=fakedb.FakeDBAPI(srv), pool_size=5, pool_recycle=recycle)
    seen = []
    if listener != L_NONE:

        @event.listens_for(eng, "handle_error")
        def on_error(ctx):
            if not isinstance(ctx.original_exception, fakedb.Error):
                return
            seen.append((ctx.is_disconnect, ctx.connection))
            if listener == L_FLIP:
                ctx.is_disconnect = not ctx.is_disconnect
            elif listener == L_NOPOOL:
                ctx.invalidate_pool_on_disconnect = False

    older = [eng.connect() for _ in range(idle)]  # opened before the connection in use, idle in the pool
    conn = eng.connect()
    for c in older:
        c.close()
    return eng, srv, conn, seen


def decode_faults(n: int, nf: int, fcode: int):
    """fcode -> {position: (call index, looks_like_disconnect)} for exactly ``nf`` faulted operations."""
    nk = nkind(nf)
    ci, rest = divmod(fcode, nk ** nf)
    positions = list(itertools.combinations(range(n), nf))[ci]
    faults = {}
    for p in reversed(positions):
        rest, k = divmod(rest, nk)
        faults[p] = (k // 2, bool(k % 2))
    return faults


def nfcodes(n: int, nf: int) -> int:
    return len(list(itertools.combinations(range(n), nf))) * nkind(nf) ** nf


def _statically_possible(cops, faults, flip: bool) -> bool:
    """Necessary conditions that do not depend on SQLAlchemy: a savepoint operation needs an earlier
    begin_nested; an armed fault must be able to fire -- DBAPI calls per operation on a valid connection:
    execute / begin_nested / savepoint operations 2 (cursor, statement), commit / rollback 1, begin / detach 0;
    only after an earlier effective disconnect fault or invalidate() a reconnect may add one call (connect) to
    execute / begin / begin_nested."""
    nested_seen = 0
    maybe_invalid = False
    for i, o in enumerate(cops):
        if o in (SP_COMMIT, SP_ROLLBACK) and nested_seen == 0:
            return False
        if o == BEGIN_NESTED:
            nested_seen += 1
        f = faults.get(i)
        if f is not None:
            call, looks = f
            most = {EXEC: 2, BEGIN: 0, BEGIN_NESTED: 2, COMMIT: 1, ROLLBACK: 1, SP_COMMIT: 2, SP_ROLLBACK: 2, DETACH: 0, INVALIDATE: 0}[o]
            if maybe_invalid and o in (EXEC, BEGIN, BEGIN_NESTED):
                most += 1
            if call >= most:
                return False
            if looks != flip:
                maybe_invalid = True
        if o == INVALIDATE:
            maybe_invalid = True
    return True


def _h_disc(n: int, alpha: int, listener: int, recycle: int, idle: int, nf: int, op0: int, ops, fcode) -> bool:
    """``ops[i]`` indexes ``ALPHABETS[alpha]`` (the first operation is fixed by the slice if ``op0 >= 0``);
    ``fcode`` encodes which ``nf`` operations suffer a DBAPI error, at which of their DBAPI calls, and whether
    the error looks like a disconnect to the dialect (see decode_faults)."""
    alphabet = ALPHABETS[alpha]
    ok = (0 <= fcode) & (fcode < nfcodes(n, nf))
    for o in ops:
        ok = ok & (0 <= o) & (o < len(alphabet))
    if op0 >= 0:
        ok = ok & (ops[0] == op0)
    assume(ok)  # one fork for all bounds (pick() then never forks on its own range checks)
    cops = []
    for i in range(n):
        o = alphabet[op0 if (i == 0 and op0 >= 0) else pick(ops[i], len(alphabet))]
        cops.append(o)
        # savepoint operation without an earlier begin_nested: impossible whatever SQLAlchemy does
        assume(_statically_possible(cops, {}, False))
    faults = decode_faults(n, nf, pick(fcode, nfcodes(n, nf)))
    assume(_statically_possible(cops, faults, listener == L_FLIP))
    # from here on everything is concrete: the real SQLAlchemy code runs with the tracer paused
    try:
        return native(_run_concrete, listener, recycle, idle, cops, faults)
    except Assume:
        assume(False)  # a precondition that depends on what SQLAlchemy did (see _run)


def _make(n: int):
    def h(alpha, listener, recycle, idle, nf, op0, ops, fcode):
        return _h_disc(n, alpha, listener, recycle, idle, nf, op0, ops, fcode)

    h.__name__ = h.__qualname__ = "h_disc_%d" % n
    h.__annotations__ = {"alpha": int, "listener": int, "recycle": int, "idle": int, "nf": int, "op0": int,
                         "ops": Tuple[(int,) * n], "fcode": int, "return": bool}
    return h


MAXN = 5
H_DISC = {n: _make(n) for n in range(1, MAXN + 1)}
globals().update({h.__name__: h for h in H_DISC.values()})


def _run_concrete(listener, recycle, idle, ops, faults) -> bool:
    saved_time = pool_base.time
    pool_base.time = _Clock()
    try:
        with warnings.catch_warnings():
            warnings.simplefilter("ignore")
            return _run(listener, recycle, idle, ops, faults)
    finally:
        pool_base.time = saved_time


def _run(listener, recycle, idle, ops, faults) -> bool:
    n = len(ops)
    eng, srv, conn, seen = _setup(listener, recycle, idle)
    if [c.id for c in srv.connections] != list(range(idle + 1)) or eng.pool.checkedin() != idle:
        _fail("setup")
    flip = listener == L_FLIP
    cfg = LNAMES[listener] + (":pool_recycle" if recycle > -1 else "") + (":empty-pool" if idle == 0 else "")
    # model ------------------------------------------------------------------------------------
    in_txn = False          # the Connection has a transaction object
    nsp = 0                 # savepoints the model knows to be open
    blocked = None          # None | "disconnect" | "failed-commit": must rollback() before anything else
    vague = False           # after a failed savepoint statement: only the invariants are checked
    stale = []              # fake connections that must never be handed out again
    disconnected = False    # a connection in use was invalidated (effective disconnect or Connection.invalidate())
    pool_invalidated = False  # ... by a disconnect that also invalidates the pooled connections
    detached = False        # the DBAPI connection in use was detached from the pool
    detached_raws = []
    deferred = None         # a minor finding reported only if nothing else fails in this history
    sps = []                # NestedTransaction handles of the current transaction
    committed: List[int] = []
    pending: List[List[int]] = [[]]  # rows per savepoint level
    loose_rows = False      # rows of a transaction whose COMMIT/ROLLBACK/savepoint statement failed may linger (C23)
    nfired = 0
    last = "no-fault"
    for i in range(n):
        op = ops[i]
        name = OPNAMES[op]
        if op in (SP_COMMIT, SP_ROLLBACK):
            assume(len(sps) > 0 and (nsp > 0 or blocked is not None or vague))
        was_invalid = conn.invalidated
        raw0 = None if was_invalid else conn.connection.dbapi_connection
        nconn0 = len(srv.connections)
        closed0 = [c.closed for c in srv.connections]
        committed0 = list(srv.committed)
        f = faults.get(i)
        effective = False
        if f is not None:
            effective = f[1] != flip  # what SQLAlchemy has to act upon
            srv.fired = False
            srv.armed = [f[0], ("disconnect" if effective else "softdisc") if f[1] else "error"]
        err = None
        try:
            if op == EXEC:
                conn.exec_driver_sql("INSERT %d" % (i + 1))
            elif op == BEGIN:
                conn.begin()
            elif op == BEGIN_NESTED:
                sps.append(conn.begin_nested())
            elif op == COMMIT:
                conn.commit()
            elif op == ROLLBACK:
                conn.rollback()
            elif op == SP_COMMIT:
                sps[-1].commit()
            elif op == SP_ROLLBACK:
                sps[-1].rollback()
            elif op == DETACH:
                conn.detach()
            elif op == INVALIDATE:
                conn.invalidate()
        except (sa_exc.DBAPIError, sa_exc.InvalidRequestError) as e:
            err = e
        fired = False
        if f is not None:
            fired = srv.fired
            srv.armed = None
            # a fault that cannot fire in this state is the same history with one fault less (other slice)
            assume(fired)
        what = "%s%s" % (name, ":blocked-by-" + blocked if blocked else "")
        reconnect_failed = False
        if op == INVALIDATE:
            # Connection.invalidate(): closes and discards this DBAPI connection only; with a transaction in
            # progress every further use raises until rollback(); a no-op on an invalidated Connection
            if err is not None:
                _fail("%s:raises" % what, repr(err))
            if not was_invalid:
                if not conn.invalidated:
                    _fail("%s:connection-not-invalidated" % what)
                if not raw0.closed:
                    if detached:
                        deferred = ("disconnect-on-detached-connection:dbapi-connection-not-closed", what, raw0)
                    else:
                        _fail("%s:dbapi-connection-not-closed" % what)
                if len(srv.connections) != nconn0 or [c.closed for c in srv.connections if c is not raw0] != [
                        x for c, x in zip(srv.connections, closed0) if c is not raw0]:
                    _fail("%s:pool-touched" % what, repr([(c.id, c.closed) for c in srv.connections]))
                disconnected = True
                if raw0 not in stale:
                    stale.append(raw0)
                detached = False
                pending = [[]]
                loose_rows = False
                committed = list(srv.committed)
                if vague:
                    in_txn = conn.get_transaction() is not None
                    vague = False
                blocked = "disconnect" if (in_txn or blocked is not None) else None
                in_txn = blocked is not None
            elif len(srv.connections) != nconn0:
                _fail("%s:opened-a-dbapi-connection" % what)
        elif fired:
            nfired += 1
            reconnect_failed = was_invalid and srv.fired_conn is None  # the connect() call itself failed
            if was_invalid and not reconnect_failed:
                # transparently reconnected, then the error hit the new (pooled) connection
                raw0 = srv.fired_conn
                detached = False
            elif not was_invalid and srv.fired_conn is not raw0:
                _fail("harness:fault-hit-another-connection")
            what = "%s-at-%s%s%s:%s" % (("disconnect" if effective else "ordinary-error"), name,
                                        "-while-reconnecting" if reconnect_failed else ("-after-reconnect" if was_invalid else ""),
                                        "-detached" if detached else "", cfg)
            last = what
            # ---- the DBAPI call failed
            if not isinstance(err, sa_exc.DBAPIError):
                _fail("%s:error-not-raised-as-DBAPIError" % what, repr(err))
            if bool(err.connection_invalidated) != effective:
                _fail("%s:connection_invalidated-flag" % what, repr(err.connection_invalidated))
            if listener != L_NONE:
                if len(seen) != nfired or seen[-1][0] != f[1] or seen[-1][1] is not conn:
                    _fail("%s:handle_error-context" % what, repr(seen))
            if reconnect_failed:
                # the reconnect attempt failed: the Connection stays invalidated, whatever the error is
                if not conn.invalidated:
                    _fail("%s:connection-valid-after-failed-reconnect" % what)
                if [c.closed for c in srv.connections[:nconn0]] != closed0 and not disconnected:
                    _fail("%s:pool-touched" % what)
                in_txn = conn.get_transaction() is not None
                nsp = 0
                sps = []
                pending = [[]]
                blocked = "disconnect" if in_txn else None
                vague = False
            elif effective:
                disconnected = True
                if listener != L_NOPOOL:
                    pool_invalidated = True
                if not conn.invalidated:
                    _fail("%s:connection-not-invalidated" % what)
                if not raw0.closed:
                    if detached:
                        # Connection.invalidate(): "an attempt will be made to close the underlying DBAPI
                        # connection immediately" -- reported only if nothing else fails in this history
                        deferred = ("disconnect-on-detached-connection:dbapi-connection-not-closed", what, raw0)
                    else:
                        _fail("%s:dbapi-connection-not-closed" % what)
                for c in ([raw0] if listener == L_NOPOOL else list(srv.connections)):
                    if c not in stale:
                        stale.append(c)
                detached = False
                pending = [[]]
                loose_rows = False  # the server connection is gone, and its uncommitted rows with it
                committed = list(srv.committed)
                if op == ROLLBACK:
                    in_txn = False  # the transaction is over whether or not the ROLLBACK got through
                    nsp = 0
                    sps = []
                elif vague or (op == EXEC and not in_txn):
                    # whether autobegin had happened before the failing DBAPI call is not specified; after a
                    # failed savepoint statement the model does not know the transaction state either
                    in_txn = conn.get_transaction() is not None
                else:
                    in_txn = True
                blocked = "disconnect" if in_txn else None
                vague = False
            else:
                # an ordinary error: connection valid, pool untouched -- also after earlier disconnects
                if conn.invalidated or conn.connection.dbapi_connection is not raw0 or raw0.closed:
                    _fail("%s:connection-invalidated" % what)
                if not was_invalid and (len(srv.connections) != nconn0 or [c.closed for c in srv.connections] != closed0):
                    _fail("%s:pool-touched" % what, repr([(c.id, c.closed) for c in srv.connections]))
                loose_rows = True
                if op == COMMIT:
                    blocked = "failed-commit"
                elif op == ROLLBACK:
                    in_txn = False
                    nsp = 0
                    sps = []
                    blocked = None  # rollback() was called: the transaction object is gone even if the ROLLBACK failed
                    vague = True  # the server-side transaction state after a failed ROLLBACK is unknown
                elif op == EXEC:
                    if not in_txn or vague:
                        in_txn = conn.get_transaction() is not None
                elif op == BEGIN_NESTED:
                    in_txn = True
                    vague = True
                else:
                    vague = True
        elif blocked is not None:
            # ---- "further use raises until rollback() is called"
            if op == ROLLBACK:
                if err is not None:
                    _fail("%s:rollback-raises" % what, repr(err))
                blocked = None
                in_txn = False
                nsp = 0
                sps = []
                pending = [[]]
                vague = False
            elif op == SP_ROLLBACK:
                pass  # rolling back the savepoint of a lost transaction: raising or not is unspecified
            elif op == DETACH and blocked != "disconnect":
                if err is None:
                    detached = True  # not a database operation: allowed on a valid connection
                    detached_raws.append(raw0)
            else:
                if not isinstance(err, sa_exc.InvalidRequestError):
                    _fail("%s:does-not-raise" % what, repr(err))
            if blocked == "disconnect":
                if not conn.invalidated:
                    _fail("%s:reconnected-before-rollback" % what)
                if len(srv.connections) != nconn0:
                    _fail("%s:opened-a-dbapi-connection" % what)
            if srv.committed != committed0:
                _fail("%s:committed-rows-changed" % what)
        elif vague:
            if op == DETACH and err is None:
                detached = True
                detached_raws.append(raw0)
            if op == ROLLBACK and err is None:
                vague = False
                in_txn = False
                nsp = 0
                sps = []
                pending = [[]]
            elif not conn.invalidated:
                in_txn = conn.get_transaction() is not None  # not modelled in this state
        else:
            # ---- ordinary operation on a usable (or transparently reconnecting) connection
            expect_raise = (op == BEGIN and in_txn) or (op == DETACH and was_invalid)
            if expect_raise != (err is not None):
                _fail("%s:%s" % (what, "unexpected-error" if err is not None else "did-not-raise"), repr(err))
            if isinstance(err, sa_exc.DBAPIError):
                _fail("%s:unexpected-DBAPIError" % what, repr(err))
            if err is None:
                if op == EXEC:
                    in_txn = True
                    pending[-1].append(i + 1)
                elif op == BEGIN:
                    in_txn = True
                elif op == BEGIN_NESTED:
                    in_txn = True
                    nsp += 1
                    pending.append([])
                elif op == COMMIT:
                    for lvl in pending:
                        committed.extend(lvl)
                    pending = [[]]
                    in_txn = False
                    nsp = 0
                    sps = []
                    if loose_rows:
                        committed = list(srv.committed)
                        loose_rows = False
                elif op == ROLLBACK:
                    pending = [[]]
                    in_txn = False
                    nsp = 0
                    sps = []
                elif op == SP_COMMIT:
                    nsp -= 1
                    sps.pop()
                    top = pending.pop()
                    pending[-1].extend(top)
                elif op == SP_ROLLBACK:
                    nsp -= 1
                    sps.pop()
                    pending.pop()
                elif op == DETACH:
                    detached = True
                    detached_raws.append(raw0)
                    if conn.invalidated or conn.connection.dbapi_connection is not raw0 or raw0.closed:
                        _fail("%s:detach-changes-dbapi-connection" % what)
            if not loose_rows and srv.committed != committed:
                _fail("%s:committed-rows" % what, "%r %r" % (srv.committed, committed))
            if conn.in_transaction() != in_txn:
                _fail("%s:in_transaction" % what)
        # ---- invariants after every step
        if not conn.invalidated:
            cur = conn.connection.dbapi_connection
            if cur in stale:
                _fail("%s:uses-stale-dbapi-connection" % what, "fake connection %d" % cur.id)
            if cur.closed:
                _fail("%s:uses-closed-dbapi-connection" % what)
        if not disconnected:
            if conn.invalidated:
                _fail("%s:invalidated-without-disconnect" % what)
            if len(srv.connections) != idle + 1 or any(c.closed for c in srv.connections):
                _fail("%s:pool-touched-without-disconnect" % what, repr([(c.id, c.closed) for c in srv.connections]))
            if eng.pool.checkedin() != idle + (1 if detached else 0):
                _fail("%s:pool-touched-without-disconnect" % what, eng.pool.status())
    # ---- epilogue: rollback (always allowed), then the Connection must be usable again
    tail = "after-" + last
    conn.rollback()
    if conn.in_transaction():
        _fail("%s:rollback-leaves-transaction" % tail)
    conn.exec_driver_sql("SELECT")
    if conn.invalidated:
        _fail("%s:no-reconnect" % tail)
    cur = conn.connection.dbapi_connection
    if cur in stale or cur.closed or cur.dead:
        _fail("%s:reconnect-uses-stale-dbapi-connection" % tail, "fake connection %d" % cur.id)
    conn.close()
    if detached and not cur.closed:
        _fail("%s:detached-dbapi-connection-not-closed-by-close" % tail)
    outs = [eng.connect() for _ in range(3)]
    got = [c.connection.dbapi_connection for c in outs]
    for g in got:
        if g in stale:
            _fail("%s:stale-dbapi-connection-handed-out" % tail, "fake connection %d" % g.id)
        if g.closed or g.dead:
            _fail("%s:dead-dbapi-connection-handed-out" % tail, "fake connection %d" % g.id)
    if len(set(g.id for g in got)) != 3:
        _fail("%s:same-dbapi-connection-handed-out-twice" % tail)
    if not detached and cur not in got:
        # a valid connection given back to the pool (3 records, 3 checkouts) is used again
        _fail("%s:valid-dbapi-connection-discarded" % tail, "fake connection %d" % cur.id)
    if disconnected:
        if pool_invalidated:
            left_open = [s for s in stale if not s.closed and not (deferred and s is deferred[2])]
            if left_open:
                _fail("%s:stale-dbapi-connection-left-open" % tail, repr([(s.id, s.closed) for s in stale]))
        else:
            if any(not s.closed and not (deferred and s is deferred[2]) for s in stale):
                _fail("%s:stale-dbapi-connection-left-open" % tail, repr([(s.id, s.closed) for s in stale]))
            # Connection.invalidate() / invalidate_pool_on_disconnect=False: "only the current connection that is
            # the subject of the error will actually be invalidated" -- the two idle connections stay in use
            older = [c for c in srv.connections[:idle] if c not in detached_raws and c not in stale]  # unless detached / invalidated later
            if any(c.closed for c in older) or not all(c in got for c in older):
                _fail("%s:idle-connections-invalidated" % tail, repr([(c.id, c.closed) for c in older]))
    else:
        # pool contents identical: the same DBAPI connections, nothing opened, nothing closed (a detached
        # connection is closed by Connection.close() and replaced by one new connection)
        old = [c for c in srv.connections[:idle + 1] if c not in detached_raws]
        if any(c.closed or c not in got for c in old) or len(srv.connections) != (idle + 1) + (3 - len(old)):
            _fail("%s:pool-contents-changed" % tail, repr([g.id for g in got]))
    for c in outs:
        c.close()
    if deferred is not None:
        _fail(deferred[0], deferred[1])
    return True


# --------------------------------------------------------------------------------------------------

META = {
    "explanation": "Real Engine/Connection/QueuePool over a fake DBAPI; up to three DBAPI errors are injected at symbolic DBAPI calls "
                   "(connect(), cursor() or the statement) of a symbolic operation history; error kind, handle_error listener "
                   "behaviour, pool_recycle and history are inputs: the solver decides every step and the fault code (binary search "
                   "over z3-decided comparisons), impossible histories are cut before an engine is built, and the SQLAlchemy code then "
                   "runs on the realised input (no symbolic value can reach it).  Checked: DBAPIError.connection_invalidated, "
                   "Connection.invalidated, identity/closedness of every fake DBAPI connection handed out afterwards, 'raises until "
                   "rollback()', transparent reconnect after rollback(), a failed reconnect leaves the Connection invalidated, and "
                   "ordinary errors leave pool and connection untouched (also after earlier disconnects).",
    "functions": [
        "engine.base.Connection.{_handle_dbapi_exception,_revalidate_connection,_invalid_transaction,invalidate,invalidated,connection,"
        "exec_driver_sql,_execute_context,begin,begin_nested,commit,rollback,detach,_begin_impl,_commit_impl,_rollback_impl,_savepoint_impl,"
        "_release_savepoint_impl,_rollback_to_savepoint_impl,close}",
        "engine.base.{RootTransaction,NestedTransaction}._do_commit/_do_rollback/_close_impl",
        "engine.base.ExceptionContextImpl; events handle_error (is_disconnect, invalidate_pool_on_disconnect)",
        "pool.base.Pool._invalidate, _ConnectionRecord.{invalidate,get_connection,checkout,checkin,_checkin_failed}, "
        "_ConnectionFairy.{invalidate,detach,_checkin}, _finalize_fairy (detached path)",
        "pool.impl.QueuePool._do_get/_do_return_conn",
    ],
    "bounds": {
        "quick": {"one fault": "histories <=3 over 8 operations for every listener mode (pool_recycle -1) and, without listener, "
                               "pool_recycle=%d; 4 over ALPHABETS[1] without listener, pool_recycle=%d" % (RECYCLE_LARGE, RECYCLE_LARGE),
                  "two faults": "histories of 3 over ALPHABETS[2] (with Connection.invalidate()), without listener", "no fault": "histories <=3",
                  "fault": "a DBAPI error at the 1st/2nd/3rd DBAPI call of an operation (connect when reconnecting, cursor(), statement); "
                           "kinds: disconnect, looks-like-disconnect-but-alive, ordinary",
                  "listeners": LNAMES, "pool": "QueuePool(5) holding 2 idle older connections + the one in use (two-fault histories: no idle connection, "
                  "so that every reconnect has to open a DBAPI connection)"},
        "thorough": {"one fault": "histories <=3 for every listener mode x pool_recycle in {-1, %d}; 4 for every listener mode (pool_recycle -1) and, "
                                  "without listener, pool_recycle set; 5 over ALPHABETS[1] without listener" % RECYCLE_LARGE,
                     "two faults": "histories <=3 over ALPHABETS[2] without listener / flipping listener, both pool_recycle values, with 2 and with 0 idle "
                                   "connections; 3 over ALPHABETS[1]",
                     "three faults": "histories of 3 over ALPHABETS[2] without listener / flipping listener",
                     "fault": "as quick", "listeners": LNAMES, "pool": "as quick"},
    },
    "outside": [
        "faults during pool reset / Connection.close() and in close() calls of discarded connections (C26); pre_ping",
        "whether autobegin has happened when the very first statement of a transaction fails (taken from get_transaction())",
        "savepoint.rollback() on a Connection that waits for rollback(): may raise or not",
        "state after an *ordinary* error inside SAVEPOINT / RELEASE / ROLLBACK TO / ROLLBACK statements: only the invariants "
        "(connection valid, pool untouched, nothing handed out twice) are checked until the next successful rollback()",
        "whether a *failed reconnect* classified as a disconnect should invalidate pooled connections once more",
        "row-level effects of a rollback() after a failed COMMIT (checked by C23's failed-commit harness)",
        "pool_recycle actually expiring connections (the stub clock never reaches it)",
        "is_exit_exception (KeyboardInterrupt etc.) handling, threads, real servers",
    ],
    "stubs": ["vlib/fakedb.py fake DBAPI, extended in props/C27.py: savepoint statements go through cursor.execute (so that failures reach "
              "_handle_dbapi_exception), faults armed on the k-th DBAPI call of an operation, 'softdisc' fault = error that looks like a "
              "disconnect but leaves the server connection alive",
              "sqlalchemy.pool.base.time replaced by a strictly increasing counter during the harness"],
    "assumptions": ["engine creation and everything after the solver has fixed history and fault run concretely (tracer paused)",
                    "time is strictly increasing between pool state changes (the code's own NOTE in _ConnectionRecord.get_connection)",
                    "the handle_error listener only reclassifies DBAPI errors"],
}


def _slices(n: int, alpha: int, listener: int, recycle: int, nf: int, split: bool, idle: int = 2):
    """One slice, or one per first operation."""
    base = dict(alpha=alpha, listener=listener, recycle=recycle, idle=idle, nf=nf)
    if not split:
        return [dict(base, op0=-1)]
    # when every operation is faulted (nf == n) the first one must make a DBAPI call on a fresh connection without
    # a transaction: commit / rollback / begin / detach / invalidate make none, those parts of the partition are empty
    nocall = (COMMIT, ROLLBACK, BEGIN, DETACH, INVALIDATE) if nf >= n else ()
    return [dict(base, op0=j) for j, o in enumerate(ALPHABETS[alpha]) if o not in (SP_COMMIT, SP_ROLLBACK) and o not in nocall]


def harnesses(tier: str) -> List[Harness]:
    q = tier == "quick"
    per_n = {n: [] for n in range(1, MAXN + 1)}
    for n in (1, 2, 3):
        per_n[n] += _slices(n, 0, L_NONE, -1, 0, False)  # no fault
    for listener in range(4):
        for recycle in (-1, RECYCLE_LARGE):
            if q and recycle > -1 and listener != L_NONE:
                continue
            per_n[1] += _slices(1, 0, listener, recycle, 1, False)
            per_n[2] += _slices(2, 0, listener, recycle, 1, False)
            per_n[3] += _slices(3, 0, listener, recycle, 1, True)
            if not q and (recycle == -1 or listener == L_NONE):
                per_n[4] += _slices(4, 0, listener, recycle, 1, True)
    if q:
        per_n[4] += _slices(4, 1, L_NONE, RECYCLE_LARGE, 1, True)
        per_n[3] += _slices(3, 2, L_NONE, -1, 2, True, idle=0)
    else:
        per_n[5] += _slices(5, 1, L_NONE, -1, 1, True)
        for listener in (L_NONE, L_FLIP):
            for recycle in (-1, RECYCLE_LARGE):
                per_n[2] += _slices(2, 2, listener, recycle, 2, False)
                per_n[3] += _slices(3, 2, listener, recycle, 2, True)
            per_n[3] += _slices(3, 1, listener, -1, 2, True)
            per_n[3] += _slices(3, 2, listener, -1, 2, True, idle=0)
            per_n[3] += _slices(3, 2, listener, -1, 3, True)
    # per_path_timeout also bounds a single z3 query (half of it): generous, a query on these integer
    # constraints takes milliseconds unless the machine is heavily oversubscribed
    return [Harness("disconnect_history_n%d" % n, H_DISC[n], sl, budget_s=150 if q else 800, per_path_timeout=120.0)
            for n, sl in per_n.items() if sl]


def _tag(rep) -> str:
    s = (rep or {}).get("exception") or ""
    if "[[" in s and "]]" in s:
        return s.split("[[", 1)[1].split("]]", 1)[0]
    return ""


def classify(hname, args, rep):
    tag = _tag(rep)
    exc_s = (rep or {}).get("exception") or ""
    n = len(args["ops"])
    hist = [OPNAMES[ALPHABETS[args["alpha"]][o]] for o in args["ops"]]
    faults = decode_faults(n, args["nf"], args["fcode"])
    fdesc = ["op %d %s call %s" % (p, CALLNAMES[c], "looks like disconnect" if l else "ordinary error") for p, (c, l) in sorted(faults.items())]
    desc = "history %s, faults %s, %s, pool_recycle=%s, %d idle older connections" % (
        hist, fdesc or "none", LNAMES[args["listener"]], args["recycle"], args["idle"])
    key = "C27:" + (tag or "history:%s" % "/".join(hist))
    return key, "%s: %s  [key %s]" % (desc, exc_s[:300], key)


def run(tier: str, seed: int):
    return framework.run_symx(PID, __name__, tier, seed, harnesses(tier), classify, META)
