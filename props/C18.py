"""C18 LIMIT/OFFSET and their dialect emulations return exactly the requested slice (E2-style:
structure of the emitted SELECT re-parsed, its relational meaning over a bounded symbolic table
compared with the intended slice by z3)."""
from __future__ import annotations

import itertools
import json
import sqlite3
import time
from typing import Any, Dict, List, Optional, Tuple

import z3

from vlib import framework, sqlparse, sqlselect
from vlib.framework import Failure, Outcome
from vlib.sqlparse import ParseError

PID = "C18"
LIM, OFF = 501, 502  # marker values of the limit / offset parameters (made symbolic)


# ------------------------------------------------------------------------------------------------
# dialect configurations


def dialect_configs():
    from sqlalchemy.dialects import mssql, mysql, oracle, postgresql, sqlite
    from sqlalchemy.engine import default

    def ms(ver):
        d = mssql.dialect()
        d.server_version_info = ver
        d._supports_offset_fetch = ver >= (11,)
        return d

    def ora(ver):
        d = oracle.dialect()
        d.server_version_info = ver
        d._supports_offset_fetch = ver >= (12,)
        return d

    return {
        "default": (default.DefaultDialect(), "default"),
        "sqlite": (sqlite.dialect(), "sqlite"),
        "postgresql": (postgresql.dialect(), "postgresql"),
        "mysql": (mysql.dialect(), "mysql"),
        "mssql2012": (ms((11,)), "mssql"),
        "mssql2008": (ms((10,)), "mssql"),
        "oracle12": (ora((12,)), "oracle"),
        "oracle11": (ora((11,)), "oracle"),
    }


_DC = None


def dc():
    global _DC
    if _DC is None:
        _DC = dialect_configs()
    return _DC


# ------------------------------------------------------------------------------------------------
# statements: spec = dict(distinct, order, limit, offset, api, form)

ORDERS = {"a,b": [("a", "ASC"), ("b", "ASC")], "a,bdesc": [("a", "ASC"), ("b", "DESC")], "bdesc,a": [("b", "DESC"), ("a", "ASC")]}


def specs(tier: str):
    out = []
    for distinct in (False, True):
        for okey in ORDERS:
            for api in ("limit", "fetch"):
                for has_l, has_o in ((True, False), (False, True), (True, True)):
                    if api == "fetch" and not has_l:
                        continue
                    for form in ("param", "expr", "zero"):
                        if form == "zero" and not has_l:
                            continue
                        out.append(dict(distinct=distinct, order=okey, api=api, limit=has_l, offset=has_o, form=form))
            # Select.slice(start, stop) on top of an earlier offset(): rows [O+start, O+stop)
            for has_o in (False, True):
                for a, b in ((1, 3), (0, 2), (2, 2)):
                    out.append(dict(distinct=distinct, order=okey, api="slice", limit=True, offset=has_o, form="param", a=a, b=b))
    return out


def build_stmt(spec):
    import sqlalchemy as sa

    t = sa.table("t", sa.column("a", sa.Integer), sa.column("b", sa.Integer))
    s = sa.select(t.c.a, t.c.b)
    if spec["distinct"]:
        s = s.distinct()
    s = s.order_by(*[(t.c[c].desc() if d == "DESC" else t.c[c]) for c, d in ORDERS[spec["order"]]])
    form = spec["form"]
    # intended limit / offset as small ASTs over the symbolic markers
    lim_ast = off_ast = None
    if spec["api"] == "slice":
        a, b = spec["a"], spec["b"]
        if spec["offset"]:
            # slice() folds integer offsets in Python, so the earlier offset is a concrete 1 here
            s = s.offset(1)
            off_ast = ("lit", 1 + a)
        else:
            off_ast = ("lit", a)
        s = s.slice(a, b)
        return s, ("lit", b - a), off_ast
    if spec["limit"]:
        if form == "param":
            lv, lim_ast = LIM, ("lit", LIM)
        elif form == "zero":
            lv, lim_ast = 0, ("lit", 0)
        else:
            lv, lim_ast = sa.literal(LIM) + 1, ("bin", "+", ("lit", LIM), ("lit", 1))
        s = s.limit(lv) if spec["api"] == "limit" else s.fetch(lv)
    if spec["offset"]:
        if form == "expr":
            ov, off_ast = sa.literal(OFF) + 2, ("bin", "+", ("lit", OFF), ("lit", 2))
        else:
            ov, off_ast = OFF, ("lit", OFF)
        s = s.offset(ov)
    return s, lim_ast, off_ast


# ------------------------------------------------------------------------------------------------
# symbolic relational meaning of a Plan over N base rows


class Row:
    def __init__(self, present, vals, pos=None):
        self.present, self.vals, self.pos = present, vals, pos


def ev(node, row: Row, consts):
    k = node[0]
    if k == "col":
        name = node[1]
        if name.upper() == "ROWNUM":
            raise ParseError("ROWNUM outside a `ROWNUM <= n` predicate / select item")
        if name not in row.vals:
            raise ParseError("unknown column %r (have %s)" % (name, sorted(row.vals)))
        return row.vals[name]
    if k == "lit":
        v = node[1]
        if isinstance(v, bool) or not isinstance(v, int):
            raise ParseError("non-integer literal %r" % (v,))
        if v in (LIM, OFF):
            return consts[v]
        return z3.IntVal(v)
    if k == "neg":
        return -ev(node[1], row, consts)
    if k == "bin" and node[1] in "+-*":
        a, b = ev(node[2], row, consts), ev(node[3], row, consts)
        return {"+": a + b, "-": a - b, "*": a * b}[node[1]]
    if k == "cmp":
        a, b = ev(node[2], row, consts), ev(node[3], row, consts)
        return {"=": a == b, "!=": a != b, "<": a < b, "<=": a <= b, ">": a > b, ">=": a >= b}[node[1]]
    if k == "and":
        return z3.And(ev(node[1], row, consts), ev(node[2], row, consts))
    if k == "or":
        return z3.Or(ev(node[1], row, consts), ev(node[2], row, consts))
    if k == "not":
        return z3.Not(ev(node[1], row, consts))
    if k in ("cast", "typecast"):
        return ev(node[1], row, consts)
    raise ParseError("no relational semantics for %r" % (k,))


def before(keys_j, keys_i, dirs, j, i):
    """row j sorts before row i (lexicographic on keys with directions; index breaks full ties)."""
    conds = []
    eq_prefix = z3.BoolVal(True)
    for kj, ki, d in zip(keys_j, keys_i, dirs):
        lt = kj < ki if d == "ASC" else kj > ki
        conds.append(z3.And(eq_prefix, lt))
        eq_prefix = z3.And(eq_prefix, kj == ki)
    conds.append(z3.And(eq_prefix, z3.BoolVal(j < i)))
    return z3.Or(*conds)


def rank(rows: List[Row], order, consts):
    keys = [[ev(e, r, consts) for e, _ in order] for r in rows]
    dirs = [d for _, d in order]
    out = []
    for i, r in enumerate(rows):
        out.append(1 + z3.Sum([z3.If(z3.And(rows[j].present, before(keys[j], keys[i], dirs, j, i)), 1, 0) for j in range(len(rows)) if j != i] or [z3.IntVal(0)]))
    return out


def split_and(node):
    if node[0] == "and":
        return split_and(node[1]) + split_and(node[2])
    return [node]


def eval_plan(plan: sqlselect.Plan, base: List[Row], consts, gd: str) -> List[Row]:
    if plan.source[0] == "table":
        rows = [Row(r.present, dict(r.vals), None) for r in base]
    else:
        rows = eval_plan(plan.source[1], base, consts, gd)
    # WHERE (ROWNUM <= n keeps a prefix of the *ordered* source)
    if plan.where is not None:
        for term in split_and(plan.where):
            if term[0] == "cmp" and term[2] == ("col", "ROWNUM"):
                if term[1] not in ("<=", "<"):
                    raise ParseError("only `ROWNUM <= n` / `ROWNUM < n` are meaningful in Oracle")
                if any(r.pos is None for r in rows):
                    raise ParseError("ROWNUM over an unordered row source")
                for r in rows:
                    bound = ev(term[3], r, consts)
                    r.present = z3.And(r.present, r.pos <= bound if term[1] == "<=" else r.pos < bound)
            else:
                for r in rows:
                    r.present = z3.And(r.present, ev(term, r, consts))
    # select items
    rn_cache = {}
    new_vals = [dict() for _ in rows]
    for expr, alias in plan.items:
        if expr[0] == "rownumber":
            rk = rank(rows, expr[1], consts)
            for i in range(len(rows)):
                new_vals[i][alias or "row_number"] = rk[i]
        elif expr[0] == "rownum":
            if any(r.pos is None for r in rows):
                raise ParseError("ROWNUM over an unordered row source")
            for i, r in enumerate(rows):
                new_vals[i][alias or "ROWNUM"] = 1 + z3.Sum([z3.If(z3.And(rows[j].present, rows[j].pos < r.pos), 1, 0) for j in range(len(rows)) if j != i] or [z3.IntVal(0)])
        else:
            name = alias or (expr[1] if expr[0] == "col" else None)
            if name is None:
                raise ParseError("unnamed select item")
            for i, r in enumerate(rows):
                new_vals[i][name] = ev(expr, r, consts)
    out = [Row(r.present, dict(new_vals[i]), None) for i, r in enumerate(rows)]
    # ORDER BY may reference source columns
    full = [Row(r.present, {**rows[i].vals, **new_vals[i]}, None) for i, r in enumerate(rows)]
    if plan.distinct:
        names = sorted(new_vals[0]) if rows else []
        for i in range(len(out)):
            dup = z3.Or(*[z3.And(out[j].present, *[out[j].vals[n] == out[i].vals[n] for n in names]) for j in range(i)] or [z3.BoolVal(False)])
            out[i].present = z3.And(out[i].present, z3.Not(dup))
            full[i].present = out[i].present
    if plan.order_by:
        rk = rank(full, plan.order_by, consts)
        for i in range(len(out)):
            out[i].pos = rk[i]
    sliced = plan.top is not None or plan.limit is not None or plan.offset is not None or plan.fetch is not None
    if sliced:
        if not plan.order_by:
            raise ParseError("row-limiting clause without ORDER BY in the same SELECT: the slice is not determined")
        if plan.top_ties or plan.fetch_ties or plan.fetch_percent:
            raise ParseError("WITH TIES / PERCENT not modelled")
        dummy = Row(z3.BoolVal(True), {}, None)
        off = ev(plan.offset, dummy, consts) if plan.offset is not None else z3.IntVal(0)
        lim = None
        for cand in (plan.top, plan.fetch, plan.limit):
            if cand is not None and cand != "ALL":
                if lim is not None:
                    raise ParseError("two row-count clauses")
                lim = ev(cand, dummy, consts)
        for r in out:
            c = r.pos > off
            if lim is not None:
                upper = r.pos <= off + lim
                if gd in ("sqlite", "default"):
                    # SQLite: negative LIMIT = no limit; the generic compiler uses the same idiom
                    upper = z3.Or(lim < 0, upper)
                c = z3.And(c, upper)
            r.present = z3.And(r.present, c)
    return out


def reference(base: List[Row], spec, lim_ast, off_ast, consts) -> List[Row]:
    rows = [Row(r.present, dict(r.vals), None) for r in base]
    if spec["distinct"]:
        for i in range(len(rows)):
            dup = z3.Or(*[z3.And(rows[j].present, rows[j].vals["a"] == rows[i].vals["a"], rows[j].vals["b"] == rows[i].vals["b"]) for j in range(i)] or [z3.BoolVal(False)])
            rows[i].present = z3.And(rows[i].present, z3.Not(dup))
    order = [(("col", c), d) for c, d in ORDERS[spec["order"]]]
    rk = rank(rows, order, consts)
    dummy = Row(z3.BoolVal(True), {}, None)
    off = ev(off_ast, dummy, consts) if off_ast is not None else z3.IntVal(0)
    for i, r in enumerate(rows):
        c = rk[i] > off
        if lim_ast is not None:
            c = z3.And(c, rk[i] <= off + ev(lim_ast, dummy, consts))
        r.present = z3.And(r.present, c)
    return rows


def multiset_differs(xs: List[Row], ys: List[Row]):
    """Some (a, b) value occurs a different number of times in the two results."""
    conds = []
    for probe in xs + ys:
        cx = z3.Sum([z3.If(z3.And(r.present, r.vals["a"] == probe.vals["a"], r.vals["b"] == probe.vals["b"]), 1, 0) for r in xs])
        cy = z3.Sum([z3.If(z3.And(r.present, r.vals["a"] == probe.vals["a"], r.vals["b"] == probe.vals["b"]), 1, 0) for r in ys])
        conds.append(z3.And(probe.present, cx != cy))
    return z3.Or(*conds)


def _subst(node, values):
    if isinstance(node, list):
        return [_subst(x, values) for x in node]
    if not isinstance(node, tuple):
        return node
    if node and node[0] == "param":
        if node[1] not in values:
            raise ParseError("placeholder %r has no parameter" % (node[1],))
        return ("lit", values[node[1]])
    if node and node[0] == "typecast" and node[1][0] == "param":
        return _subst(node[1], values)
    return tuple(_subst(x, values) if isinstance(x, (tuple, list)) else x for x in node)


def _subst_plan(plan: sqlselect.Plan, values):
    plan.top = _subst(plan.top, values) if plan.top is not None else None
    plan.limit = _subst(plan.limit, values) if plan.limit not in (None, "ALL") else plan.limit
    plan.offset = _subst(plan.offset, values) if plan.offset is not None else None
    plan.fetch = _subst(plan.fetch, values) if plan.fetch is not None else None
    plan.where = _subst(plan.where, values) if plan.where is not None else None
    plan.items = [((_subst(e, values) if e[0] not in ("rownumber", "rownum") else e), a) for e, a in plan.items]
    if plan.source[0] == "sub":
        _subst_plan(plan.source[1], values)


def check_one(spec, dkey: str, mode: str, nrows: int) -> Dict[str, Any]:
    d, gd = dc()[dkey]
    stmt, lim_ast, off_ast = build_stmt(spec)
    res: Dict[str, Any] = {"spec": spec, "dialect": dkey, "mode": mode}
    if mode == "literal":
        compiled = stmt.compile(dialect=d, compile_kwargs={"literal_binds": True})
        values: Dict[Any, Any] = {}
    else:
        compiled = stmt.compile(dialect=d)
        params = compiled.params
        values = dict(params)
        if compiled.positional:
            for i, n in enumerate(compiled.positiontup):
                values[i] = params[n]
    sql = " ".join(str(compiled).split())
    res["sql"] = sql
    pd = d.paramstyle in ("format", "pyformat")
    try:
        plan = sqlselect.parse_select(sql, gd, pd)
        _subst_plan(plan, values)
    except ParseError as e:
        res.update(verdict="parse_error", detail=str(e))
        return res
    L, O = z3.Int("L"), z3.Int("O")
    consts = {LIM: L, OFF: O}
    base = [Row(z3.BoolVal(True), {"a": z3.Int("a%d" % i), "b": z3.Int("b%d" % i)}) for i in range(nrows)]
    s = z3.Solver()
    s.set("timeout", 120000)
    s.add(L >= 0, O >= 0)
    try:
        got = eval_plan(plan, base, consts, gd)
        exp = reference(base, spec, lim_ast, off_ast, consts)
        for r in got:
            if "a" not in r.vals or "b" not in r.vals:
                raise ParseError("result columns %s instead of a, b" % sorted(r.vals))
        s.add(multiset_differs(got, exp))
    except ParseError as e:
        res.update(verdict="parse_error", detail=str(e))
        return res
    t0 = time.perf_counter()
    r = s.check()
    res["solver_s"] = time.perf_counter() - t0
    if r == z3.unsat:
        res["verdict"] = "equal"
    elif r == z3.unknown:
        res["verdict"] = "unknown"
    else:
        m = s.model()
        res["verdict"] = "differ"
        res["model"] = {"rows": [[m.eval(b.vals["a"], model_completion=True).as_long(), m.eval(b.vals["b"], model_completion=True).as_long()] for b in base],
                        "L": m.eval(L, model_completion=True).as_long(), "O": m.eval(O, model_completion=True).as_long()}
    return res


# ------------------------------------------------------------------------------------------------
# replay: run the emitted SQL on sqlite3 where SQLite accepts the syntax


def concrete_reference(spec, rows, L, O):
    rs = [tuple(r) for r in rows]
    if spec["distinct"]:
        seen, out = set(), []
        for r in rs:
            if r not in seen:
                seen.add(r)
                out.append(r)
        rs = out
    for c, d in reversed(ORDERS[spec["order"]]):
        rs.sort(key=lambda r: r["ab".index(c)], reverse=(d == "DESC"))
    if spec["api"] == "slice":
        off = (1 if spec["offset"] else 0) + spec["a"]
        return rs[off: off + (spec["b"] - spec["a"])]
    lim = {"param": L, "zero": 0, "expr": L + 1}[spec["form"]] if spec["limit"] else None
    off = ({"expr": O + 2}.get(spec["form"], O)) if spec["offset"] else 0
    return rs[off:] if lim is None else rs[off: off + lim]


def sqlite_run(spec, dkey, model):
    d, gd = dc()[dkey]
    stmt, _, _ = build_stmt(spec)
    compiled = stmt.compile(dialect=d, compile_kwargs={"literal_binds": True})
    sql = str(compiled).replace("501", str(model["L"])).replace("502", str(model["O"]))
    conn = sqlite3.connect(":memory:")
    try:
        conn.execute("CREATE TABLE t (a INT, b INT)")
        conn.executemany("INSERT INTO t VALUES (?, ?)", [tuple(r) for r in model["rows"]])
        try:
            got = [tuple(r) for r in conn.execute(sql).fetchall()]
        except sqlite3.Error as e:
            return {"ran": False, "error": str(e), "sql": sql}
        exp = concrete_reference(spec, model["rows"], model["L"], model["O"])
        return {"ran": True, "sql": sql, "got": sorted(got), "expected": sorted(exp), "differs": sorted(got) != sorted(exp)}
    finally:
        conn.close()


def key_of(spec, dkey, kind):
    k = "C18:%s:%s:%s%s%s:%s" % (dkey, kind.replace("-literal", "") if kind.startswith("sem") else kind, "distinct+" if spec["distinct"] else "",
                                 "limit" if spec["limit"] else "", "+offset" if spec["offset"] else "", spec["api"])
    if spec["api"] == "slice":
        k += "(%d,%d)" % (spec["a"], spec["b"])
    return k if kind.startswith("sem") else k + ":" + spec["form"]


def chunk(tier: str, i: int, n: int) -> Dict[str, Any]:
    nrows = 3 if tier == "quick" else 4
    out = {"checked": 0, "equal": 0, "unknown": 0, "solver_s": 0.0, "candidates": 0, "confirmed": {}, "unconfirmed": [], "samples": [], "errors": [], "rejected": 0}
    import sqlalchemy.exc as saexc

    idx = 0
    for spec in specs(tier):
        for dkey in dc():
            for mode in ("literal", "bound"):
                idx += 1
                if idx % n != i:
                    continue
                try:
                    r = check_one(spec, dkey, mode, nrows)
                except (saexc.CompileError, NotImplementedError) as e:
                    out["rejected"] += 1  # dialect declines the construct with a documented error
                    continue
                except Exception:
                    import traceback
                    out["errors"].append({"spec": spec, "dialect": dkey, "mode": mode, "error": traceback.format_exc()[-700:]})
                    continue
                out["checked"] += 1
                out["solver_s"] += r.get("solver_s", 0.0)
                if r["verdict"] == "equal":
                    out["equal"] += 1
                    if len(out["samples"]) < 2 and idx % 41 == 0:
                        out["samples"].append({"spec": spec, "dialect": dkey, "mode": mode, "sql": r["sql"], "verdict": "unsat: same multiset of rows for every %d-row table and every limit/offset >= 0" % nrows})
                    continue
                if r["verdict"] == "unknown":
                    out["unknown"] += 1
                    continue
                out["candidates"] += 1
                kind = ("parse" if r["verdict"] == "parse_error" else "sem") + ("" if mode == "bound" else "-literal")
                key = key_of(spec, dkey, kind)
                if key in out["confirmed"]:
                    continue
                rec = {"property": PID, "engine": "sqlsem", "module": __name__, "spec": spec, "dialect": dkey, "mode": mode, "sql": r["sql"], "verdict": r["verdict"],
                       "detail": r.get("detail"), "model": r.get("model"), "key": key}
                if r["verdict"] == "differ":
                    run = sqlite_run(spec, dkey, r["model"])
                    rec["sqlite"] = run
                    if run["ran"] and not run["differs"]:
                        out["unconfirmed"].append({"key": key, "sql": r["sql"], "model": r["model"], "sqlite": run})
                        continue
                    rec["backend_unavailable"] = not run["ran"]
                    rec["what"] = "%s (%s): `%s` selects a different multiset of rows than the requested slice for table %s, limit marker %s, offset marker %s%s" % (
                        dkey, mode, r["sql"], r["model"]["rows"], r["model"]["L"], r["model"]["O"],
                        (" -- confirmed on sqlite3: got %s expected %s" % (run["got"], run["expected"])) if run["ran"] else " (structure not executable on sqlite3)")
                else:
                    rec["what"] = "%s (%s): `%s` has no well-defined slice meaning in the backend grammar: %s" % (dkey, mode, r["sql"], r.get("detail"))
                out["confirmed"][key] = rec
    return out


def run(tier: str, seed: int) -> Outcome:
    parts = framework.run_chunks(__name__, "chunk", tier)
    out = Outcome(PID, level="translation_validation")
    tot = {"checked": 0, "equal": 0, "unknown": 0, "solver_s": 0.0, "candidates": 0, "rejected": 0}
    samples, unconfirmed = [], []
    confirmed: Dict[str, Any] = {}
    for p in parts:
        if p.get("error"):
            out.inconclusive.append("chunk failed: " + p["error"][-800:])
            continue
        for k in tot:
            tot[k] += p[k]
        samples.extend(p["samples"])
        unconfirmed.extend(p["unconfirmed"])
        for k, rec in p["confirmed"].items():
            confirmed.setdefault(k, rec)
        for e in p["errors"]:
            out.inconclusive.append("internal error: %s %s %s: %s" % (e["spec"], e["dialect"], e["mode"], e["error"]))
    for key in sorted(confirmed):
        rec = confirmed[key]
        out.failures.append(Failure(PID, key, rec.pop("what", key), rec))
    out.artifacts = unconfirmed
    nrows = 3 if tier == "quick" else 4
    out.coverage = {
        "explanation": "Ordered single-table selects (optionally DISTINCT) with limit/offset/fetch (plain parameters, expressions, zero) are compiled by the real compiler "
                       "for 8 dialect configurations (default, sqlite, postgresql, mysql, mssql with and without OFFSET/FETCH, oracle 12c and 11g ROWNUM emulation), literal and bound. "
                       "The emitted SELECT structure (native clauses, TOP, ROW_NUMBER() wrappers, nested ROWNUM) is re-parsed and given a relational meaning over a symbolic "
                       "%d-row table; z3 decides whether its result multiset can differ from the requested slice of the ordered (distinct) rows for any table contents and any "
                       "limit/offset >= 0. Disagreements are executed on sqlite3 when SQLite accepts the emitted syntax." % nrows,
        "programs": tot["checked"], "disagreements_checked": tot["candidates"], "distinct_confirmed_disagreements": len(confirmed), "unconfirmed_count": len(unconfirmed),
        "unconfirmed_disagreements": unconfirmed[:5], "equal_unsat": tot["equal"], "solver_unknown": tot["unknown"], "declined_by_dialect": tot["rejected"],
        "solver_queries": tot["checked"], "solver_time_s": round(tot["solver_s"], 2),
        "bounds": {"table rows": nrows, "columns": 2, "order by": list(ORDERS), "limit/offset": "symbolic ints >= 0 (marker parameters), marker+constant expressions, literal 0"},
        "functions_encoded": ["Select.limit/offset/fetch, _simple_int_clause, _offset_or_limit_clause", "SQLCompiler.limit_clause / fetch_clause / visit_select row-limiting hooks",
                              "MSSQLCompiler.translate_select_structure / limit_clause / get_select_precolumns (TOP)", "OracleCompiler.translate_select_structure (ROWNUM nesting) / fetch_clause",
                              "MySQLCompiler.limit_clause", "SQLiteCompiler.limit_clause", "PGCompiler.limit_clause / fetch_clause"],
        "outside_bounds": ["WITH TIES / PERCENT", "joins, GROUP BY, sub-selects in the ordered statement", "order by lists that are not total on the selected columns", "NULLs in the ordering columns", "tables larger than the bound"],
        "samples": samples[:8] or [{"note": "none"}],
        "trusted_base": ["vlib/sqlselect.py + vlib/sqlparse.py (statement structure grammar)", "relational semantics in props/C18.py (ROW_NUMBER, ROWNUM, DISTINCT, slices)", "z3", "sqlite3 for replay"],
        "exhaustive": tot["unknown"] == 0 and not unconfirmed,
        "verdict": "holds-within-bounds" if not out.failures and tot["unknown"] == 0 and not unconfirmed else "see violations / known findings / inconclusive entries",
    }
    if tot["unknown"]:
        out.inconclusive.append("%d solver queries returned unknown" % tot["unknown"])
    if unconfirmed:
        out.inconclusive.append("%d disagreement(s) not confirmed on sqlite3: %s" % (len(unconfirmed), json.dumps(unconfirmed[:1], default=str)[:500]))
    out.assumptions = ["ordering columns are NOT NULL integers", "the ORDER BY list is total on the selected columns", "limit/offset parameters are non-negative integers"]
    return out


def replay(rec) -> Dict[str, Any]:
    r = check_one(rec["spec"], rec["dialect"], rec["mode"], 3)
    if r["verdict"] == "equal":
        return {"holds": True, "sql": r["sql"]}
    if r["verdict"] == "differ":
        run_ = sqlite_run(rec["spec"], rec["dialect"], r["model"])
        if run_["ran"]:
            return {"holds": not run_["differs"], "sqlite": run_}
    return {"holds": False, "sql": r["sql"], "verdict": r["verdict"], "detail": r.get("detail"), "model": r.get("model")}
