"""C28 Event listeners fire exactly as registered -- SEQUENTIAL part (E1 symx).

A throw-away ``event.Events`` / ``EventTarget`` hierarchy (Base <- Sub; Sub2 <- Sub created mid-history; events
``ev_a(x)``, ``ev_b(x)``) is driven by a *symbolic history* of listen / remove / create-subclass / new-instance /
dispatch / exec_once operations and compared with a list-based reference registry that encodes only the
documented semantics:

* a dispatch on an instance calls every listener currently registered on the instance, on its class and on
  the ancestors of its class -- one call per registration, with the dispatched arguments;
* listeners registered on the *same target* run in registration order, ``insert=True`` ones prepended;
* ``once=True`` registrations fire at most once ever;
* ``event.contains`` agrees with the registry, ``event.remove`` of something not registered raises
  ``InvalidRequestError``, and reverts exactly that registration;
* registrations on a class reach subclasses / instances that already exist and ones created later;
* ``exec_once`` / ``exec_once_unless_exception`` run the collection at most once per instance (the latter
  retries after an exception).

The relative order of listeners registered on *different* targets (class vs. ancestor vs. instance) is not
documented and not asserted (only that the observed call sequence is an interleaving of the per-target
sequences).  Thread schedules (concurrent exec_once) are outside the claim.
"""
from __future__ import annotations

from typing import List

from vlib import framework
from vlib.framework import Harness
from vlib.symx import assume, native

from sqlalchemy import event
from sqlalchemy import exc as sa_exc
from sqlalchemy.event import base as event_base
from sqlalchemy.event import registry as event_registry

PID = "C28"


class Boom(Exception):
    pass


_WHY: List[str] = []  # oracle clause that failed last (read by classify after a concrete re-run)


def _no(reason: str) -> bool:
    _WHY.append(reason)
    return False


def _mk_hierarchy():
    """Fresh Events class + target classes (class-level listener collections are global state of the Events
    class, so every path gets its own)."""
    _purge_registry()

    class Base(event.EventTarget):
        pass

    class C28Events(event.Events):
        _dispatch_target = Base

        def ev_a(self, x):
            pass

        def ev_b(self, x):
            pass

    class Sub(Base):
        pass

    return C28Events, Base, Sub


def _mk_sub2(Sub):
    return type("Sub2", (Sub,), {})


def _mk_chain(Base):
    """Mid(Base) and Leaf(Mid) created together, late; Mid is never instantiated or used as a target by this call."""
    Mid = type("Mid", (Base,), {})
    Leaf = type("Leaf", (Mid,), {})
    return Mid, Leaf


def _mk_inst(cls):
    return cls()


def _purge_registry():
    """The event registry is process-global and keyed by id(); entries of an abandoned path must not be
    visible to the next one (ids are reused).  The event names of this module are private to it."""
    for key in [k for k in list(event_registry._key_to_collection) if k[1] in ("ev_a", "ev_b")]:
        reg = event_registry._key_to_collection.pop(key, None)
        for owner_ref in list(reg or ()):
            event_registry._collection_to_key.pop(owner_ref, None)
    for k in ("ev_a", "ev_b"):
        event_base._registrars.pop(k, None)


def _drop_hierarchy(ev_cls):
    _purge_registry()


class _Reg:
    """One registration in the reference registry."""

    __slots__ = ("fn", "once", "consumed", "prop", "origin", "oslot")

    def __init__(self, fn, once, prop=False, origin=None, oslot=-1):
        self.fn = fn
        self.once = once
        self.consumed = False
        self.prop = prop  # registered with propagate=True (matters for dispatch._update(only_propagate=True))
        self.origin = origin  # None: a registration made by event.listen on this target; else the registration
        self.oslot = oslot    # (and its target slot) this entry was propagated from by dispatch._update()


def _is_shuffle(obs, seqs) -> bool:
    """Is ``obs`` an interleaving of the sequences ``seqs`` (each kept in order)?"""
    seqs = [list(s) for s in seqs if s]
    if sum(len(s) for s in seqs) != len(obs):
        return False

    def rec(pos, idx):
        if pos == len(obs):
            return True
        for k in range(len(seqs)):
            if idx[k] < len(seqs[k]) and seqs[k][idx[k]] == obs[pos]:
                idx[k] += 1
                if rec(pos + 1, idx):
                    return True
                idx[k] -= 1
        return False

    return rec(0, [0] * len(seqs))


NCLS = 5


class _World:
    """The real objects plus the reference registry."""

    def __init__(self, ninst0: int = 2):
        self.ev_cls, self.Base, self.Sub = native(_mk_hierarchy)
        # class index: 0 Base, 1 Sub(Base), 2 Sub2(Sub), 3 Mid(Base), 4 Leaf(Mid); None = not created yet
        self.classes = [self.Base, self.Sub, None, None, None]
        self.parents = [-1, 0, 1, 0, 3]  # class index -> parent class index
        self.insts = [native(_mk_inst, self.Base), native(_mk_inst, self.Sub)]
        self.inst_cls = [0, 1]
        for _ in range(ninst0 - 2):
            self.insts.append(native(_mk_inst, self.Base))
            self.inst_cls.append(0)
        self.calls = []
        w = self

        def f0(x):
            w.calls.append((0, x))
            if x < 0:
                raise Boom()

        def f1(x):
            w.calls.append((1, x))
            if x < 0:
                raise Boom()

        def f2(x):
            w.calls.append((2, x))
            if x < 0:
                raise Boom()

        self.fns = [f0, f1, f2]
        # registry: slot (class index c -> c; instance index i -> NCLS + i) -> ordered entries
        self.regs = [[] for _ in range(NCLS + 4)]
        self.exec_once_done = [False, False, False, False]

    # -- targets: 0 Base, 1 Sub, 2 insts[0] (a Base), 3 insts[1] (a Sub)
    def target(self, t):
        if t == 0:
            return 0, self.Base
        if t == 1:
            return 1, self.Sub
        if t == 2:
            return NCLS, self.insts[0]
        return NCLS + 1, self.insts[1]

    def find(self, key, f):
        """The registration made by event.listen(target, fn) itself (propagated copies do not count)."""
        for r in self.regs[key]:
            if r.fn == f and r.origin is None:
                return r
        return None

    def expected_seqs(self, i):
        """Per-target sequences of listener indexes that must fire for a dispatch on instance i.  Entries that
        reached a collection through dispatch._update() form one sequence per collection they came from."""
        seqs = []
        for k in self._keys(i):
            live = [r for r in self.regs[k] if not (r.once and r.consumed)]
            seqs.append([r for r in live if r.origin is None])
            for os_ in sorted(set(r.oslot for r in live if r.origin is not None)):
                seqs.append([r for r in live if r.origin is not None and r.oslot == os_])
        return seqs

    def check_dispatch(self, i, x, how) -> bool:
        """Run a dispatch on instance i and compare with the registry.  how: 0 plain, 1 exec_once,
        2 exec_once_unless_exception."""
        inst = self.insts[i]
        seqs = self.expected_seqs(i)
        nexp = sum(len(s) for s in seqs)
        raising = x < 0
        if raising:
            # which registration runs first across different targets is not documented; keep the
            # consumption of once-registrations unambiguous
            for s in seqs:
                for r in s:
                    assume(not r.once)
        del self.calls[:]
        skipped = False
        raised = False
        try:
            if how == 0:
                inst.dispatch.ev_a(x)
            else:
                coll = inst.dispatch.ev_a.for_modify(inst.dispatch)
                if self.exec_once_done[i]:
                    skipped = True
                if how == 1:
                    coll.exec_once(x)
                else:
                    coll.exec_once_unless_exception(x)
        except Boom:
            raised = True
        obs = list(self.calls)
        del self.calls[:]
        if skipped:
            return (not obs and not raised) or _no("exec_once:ran-twice")
        if how == 1:
            self.exec_once_done[i] = True
        if raising and nexp > 0:
            # the first listener raises, the exception reaches the caller, nothing else runs
            if not raised or len(obs) != 1 or obs[0][1] != x:
                return _no("dispatch:raising-listener")
            # (exec_once_unless_exception: will retry)
            return any(s and s[0].fn == obs[0][0] for s in seqs) or _no("dispatch:raising-listener-order")
        if how == 2:
            self.exec_once_done[i] = True
        if raised:
            return _no("dispatch:unexpected-exception")
        for (f, xx) in obs:
            if xx != x:
                return _no("dispatch:argument")
        if sorted(f for (f, _) in obs) != sorted(r.fn for s in seqs for r in s):
            return _no("dispatch:wrong-set-of-listeners")  # a registered listener not called / called twice / an unregistered one called
        if not _is_shuffle([f for (f, _) in obs], [[r.fn for r in s] for s in seqs]):
            return _no("dispatch:order-within-one-target")
        for s in seqs:
            for r in s:
                if r.once:
                    r.consumed = True
        return True

    def check_final(self) -> bool:
        # event.contains for every (target, fn)
        for t in range(4):
            key, tgt = self.target(t)
            for f in range(3):
                if event.contains(tgt, "ev_a", self.fns[f]) != (self.find(key, f) is not None):
                    return _no("contains")
                if event.contains(tgt, "ev_b", self.fns[f]):
                    return _no("contains:other-event")
        for i in range(len(self.insts)):
            del self.calls[:]
            self.insts[i].dispatch.ev_b(5)
            if self.calls:
                return _no("dispatch:other-event")
            if not self.check_dispatch(i, 7, 0):
                return False
            n = sum(len(self.regs[k]) for k in self._keys(i))
            if len(self.insts[i].dispatch.ev_a) != n or bool(self.insts[i].dispatch.ev_a) != (n > 0):
                return _no("len-or-bool")
        return True

    def _keys(self, i):
        c = self.inst_cls[i]
        keys = [NCLS + i]
        while c != -1:
            keys.append(c)
            c = self.parents[c]
        return keys


UPDATE_PAIRS = [(1, 0), (2, 1), (2, 0)]  # (destination instance, source instance) of dispatch._update()


class _Shape:
    """The part of the state that determines which operations are available (shared by the harness and by
    ``classify``, which re-decodes a history from the realised codes)."""

    def __init__(self, prof: int = 0):
        self.has_sub2 = False
        self.has_chain = False
        self.newest = 1  # class index created last
        self.ninst = 3 if prof == 8 else 2
        self.nused = 0  # listener functions are interchangeable: canonical labelling
        self.registered = []  # (target, fn)
        # instance-level collections incl. entries propagated by dispatch._update(): (fn, propagate flag, origin target)
        self.entries = [[], [], [], []]

    def copy(self) -> "_Shape":
        s2 = _Shape()
        s2.has_sub2, s2.has_chain, s2.newest, s2.ninst, s2.nused = self.has_sub2, self.has_chain, self.newest, self.ninst, self.nused
        s2.registered = list(self.registered)
        s2.entries = [list(e) for e in self.entries]
        return s2

    def classes(self) -> List[int]:
        return [0, 1] + ([2] if self.has_sub2 else []) + ([3, 4] if self.has_chain else [])

    def alphabet(self, prof: int):
        """Every operation available now: (kind, t, f, insert, once, propagate).
        kind 0 listen(target t, fn f) / 1 remove(target t, fn f) / 2 create Sub2(Sub) / 3 new instance of class t /
        4 dispatch / 5 exec_once / 6 exec_once_unless_exception on instance t / 7 create Mid(Base) and Leaf(Mid) /
        8 instance t's dispatch._update(instance f's dispatch, only_propagate=insert-field).
        propagate None = the per-history flag.
        prof 0 full; 1 no once / exec_once (order + hierarchy); 2 once / exec_once focus (no insert, targets {Sub,
        Sub instance}, two listener functions, no new classes / instances, dispatch on the Sub instance);
        3 like 1 without insert, targets {Base, Sub, Sub instance}, two functions, new instance of the newest class;
        4 like 3 with targets {Sub, Sub instance}; 5 like 4 with a single listener function;
        6 class targets only {Base, Sub}, two functions, no insert/once, dispatch on the Sub instance (same function on several levels);
        7 three-level hierarchy created late: listen/remove(Base, f0), create Mid(Base)+Leaf(Mid) (Mid untouched), new
          instance of Mid or Leaf;
        8 propagated collections: three instances a, b, c; listen(a, f0, propagate?), remove(a, f0), remove(b, f0),
          b<-a / c<-b / c<-a by dispatch._update(only_propagate False/True)."""
        ops = []
        if prof == 7:
            if (0, 0) not in self.registered:
                ops.append((0, 0, 0, False, False, None))
            ops.append((1, 0, 0, False, False, None))
            if not self.has_chain:
                ops.append((7, 0, 0, False, False, None))
            elif self.ninst < 4:
                ops.append((3, 3, 0, False, False, None))
                ops.append((3, 4, 0, False, False, None))
            return ops
        if prof == 8:
            if (2, 0) not in self.registered and not any(e[0] == 0 for e in self.entries[0]):
                ops.append((0, 2, 0, False, False, False))
                ops.append((0, 2, 0, False, False, True))
            ops.append((1, 2, 0, False, False, None))
            ops.append((1, 3, 0, False, False, None))
            for (dst, src) in UPDATE_PAIRS:
                # copying a function into a collection that already contains it is outside (see META)
                if self.entries[src] and not any(e[0] == d[0] for e in self.entries[src] for d in self.entries[dst]):
                    ops.append((8, dst, src, False, False, None))
                    ops.append((8, dst, src, True, False, None))
            return ops
        nf = 1 if prof == 5 else min(self.nused + 1, 2 if prof in (2, 3, 4, 6) else 3)
        tg = [1, 3] if prof in (2, 4, 5) else ([0, 1, 3] if prof == 3 else ([0, 1] if prof == 6 else [0, 1, 2, 3]))
        for t in tg:
            for f in range(nf):
                if (t, f) in self.registered:
                    continue  # registering the identical triple twice is undocumented: outside
                for i in ((False,) if prof in (2, 3, 4, 5, 6) else (False, True)):
                    for o in ((False,) if prof in (1, 3, 4, 5, 6) else (False, True)):
                        ops.append((0, t, f, i, o, None))
        for t in tg:
            for f in range(nf):
                ops.append((1, t, f, False, False, None))
        if prof not in (2, 6) and not self.has_sub2:
            ops.append((2, 0, 0, False, False, None))
        if prof not in (2, 6) and self.ninst < 4:
            for c in ([self.newest] if prof in (3, 4, 5) else self.classes()):
                ops.append((3, c, 0, False, False, None))
        insts = [1] if prof in (2, 6) else list(range(self.ninst))
        for i in insts:
            ops.append((4, i, 0, False, False, None))
        if prof in (0, 2):
            for k in (5, 6):
                for i in insts:
                    ops.append((k, i, 0, False, False, None))
        return ops

    def apply(self, op) -> None:
        kind, t, f, i_, _, pr = op
        if kind == 0:
            self.registered.append((t, f))
            if t >= 2:
                self.entries[t - 2].append((f, bool(pr), t))
            if f == self.nused:
                self.nused += 1
        elif kind == 1:
            if (t, f) in self.registered:
                self.registered.remove((t, f))
                for lst in self.entries:
                    lst[:] = [e for e in lst if not (e[0] == f and e[2] == t)]
        elif kind == 2:
            self.has_sub2 = True
            self.newest = 2
        elif kind == 3:
            self.ninst += 1
        elif kind == 7:
            self.has_chain = True
            self.newest = 4
        elif kind == 8:
            for e in list(self.entries[f]):
                if (not i_) or e[1]:
                    self.entries[t].append(e)


def _bpick(v, lo: int, hi: int) -> int:
    """Total map of a (symbolic) int onto range(lo, hi) by a balanced cascade of comparisons: every value
    denotes a legal choice (no path is wasted on an unmet assumption) and the depth is log2(hi-lo)."""
    hi -= 1
    while lo < hi:
        mid = (lo + hi) // 2
        if v <= mid:
            hi = mid
        else:
            lo = mid + 1
    return lo


NCHUNK = 4


def _chunk(n: int, b: int):
    """b-th of NCHUNK contiguous chunks of range(n)."""
    return (n * b) // NCHUNK, (n * (b + 1)) // NCHUNK


def _do(w: _World, op, x, pg: bool) -> bool:
    kind, t, f, i_, o, pr = op
    if kind == 0:
        key, tgt = w.target(t)
        if pr is None:
            pr = pg
        event.listen(tgt, "ev_a", w.fns[f], insert=i_, propagate=pr, once=o)
        r = _Reg(f, o, pr)
        if i_:
            w.regs[key].insert(0, r)
        else:
            w.regs[key].append(r)
        return True
    if kind == 1:
        key, tgt = w.target(t)
        r = w.find(key, f)
        try:
            event.remove(tgt, "ev_a", w.fns[f])
            raised = False
        except sa_exc.InvalidRequestError:
            raised = True
        if raised != (r is None):
            return _no("remove:InvalidRequestError")
        if r is not None:
            # the registration and everything propagated from it
            for lst in w.regs:
                lst[:] = [e for e in lst if e is not r and e.origin is not r]
        return True
    if kind == 2:
        w.classes[2] = native(_mk_sub2, w.Sub)
        return True
    if kind == 7:
        w.classes[3], w.classes[4] = native(_mk_chain, w.Base)
        return True
    if kind == 8:
        # what Pool.recreate() (only_propagate=False) and the to_metadata()/copy routes (only_propagate=True) do
        only_prop = i_
        w.insts[t].dispatch._update(w.insts[f].dispatch, only_propagate=only_prop)
        for e in list(w.regs[NCLS + f]):
            if (not only_prop) or e.prop:
                w.regs[NCLS + t].append(_Reg(e.fn, False, e.prop, origin=(e.origin if e.origin is not None else e), oslot=NCLS + f))
        return True
    if kind == 3:
        w.insts.append(native(_mk_inst, w.classes[t]))
        w.inst_cls.append(t)
        return True
    return w.check_dispatch(t, x, kind - 4)


def _history(n: int, prof: int, pg: bool, a0: int, b1: int, codes, xs) -> bool:
    w = _World(3 if prof == 8 else 2)
    sh = _Shape(prof)
    try:
        for k in range(n):
            al = sh.alphabet(prof)
            if k == 0:
                assume(a0 < len(al))
                op = al[a0]
            elif k == 1:
                lo, hi = _chunk(len(al), b1)
                assume(lo < hi)
                op = al[_bpick(codes[k - 1], lo, hi)]
            else:
                op = al[_bpick(codes[k - 1], 0, len(al))]
            x = xs[k]
            if op[0] == 4:
                x = 0  # a raising listener in a plain dispatch is ordinary Python semantics: not explored
            elif op[0] > 4:
                # one decision on the symbolic dispatched value: >= 0 ordinary, < 0 makes every listener raise
                x = -1 if x < 0 else 0
            if not _do(w, op, x, pg):
                return False
            sh.apply(op)
        return native(w.check_final)
    finally:
        native(_drop_hierarchy, w.ev_cls)


def h_events3(n: int, prof: int, pg: bool, a0: int, b1: int, c1: int, c2: int, x0: int, x1: int, x2: int) -> bool:
    """<= 3 operations: the first one is alphabet entry a0, the second one lies in chunk b1 of the alphabet
    (slicing only), c1/c2 select the 2nd/3rd operation, x* are the dispatched values."""
    return _history(n, prof, pg, a0, b1, [c1, c2], [x0, x1, x2])


def h_events5(n: int, prof: int, pg: bool, a0: int, b1: int, c1: int, c2: int, c3: int, c4: int,
              x0: int, x1: int, x2: int, x3: int, x4: int) -> bool:
    return _history(n, prof, pg, a0, b1, [c1, c2, c3, c4], [x0, x1, x2, x3, x4])


# ------------------------------------------------------------------------------------------

META = {
    "explanation": "Symbolic histories of event.listen/remove/contains, subclass and instance creation, dispatch and "
                   "exec_once over a throw-away Events/EventTarget hierarchy (fresh per path), executed on the real "
                   "event package and compared with a list-based reference registry of the documented semantics.",
    "functions": [
        "event.api.{listen,remove,contains,_event_key}", "event.registry._EventKey.{listen,base_listen,remove,contains,with_wrapper,"
        "append_to_list,prepend_to_list}", "event.registry.{_stored_in_collection,_removed_from_collection} (_key_to_collection bookkeeping)",
        "event.attr._ClsLevelDispatch.{_do_insert_or_append,insert,append,update_subclass,remove}",
        "event.attr._EmptyListener.{__init__,for_modify,__call__,__len__,__bool__}",
        "event.attr._ListenerCollection.{insert,append,remove,_update,__call__}", "event.base._Dispatch._update (the route of Pool.recreate / copies)",
        "event.registry._stored_in_collection_multi", "event.attr._CompoundListener.{exec_once,exec_once_unless_exception,_exec_once_impl,__call__,__len__,__bool__}",
        "event.base.{_Dispatch.__init__/__getattr__/_for_instance, dispatcher.__get__, Events._accept_with/_listen, _HasEventsDispatch._create_dispatcher_class}",
        "util.langhelpers.{only_once,walk_subclasses}",
    ],
    "bounds": {
        "quick": {"history": "<=2 operations over the full alphabet: listen(target in {Base, Sub, a Base instance, a Sub instance}, fn in 3 (canonical labelling), "
                             "insert?, once?; propagate per history), remove(target, fn), create Sub2(Sub), new instance of any existing class, dispatch / exec_once / "
                             "exec_once_unless_exception on any instance (exec_once variants with a symbolic value, x < 0: every listener raises); 3 operations in two profiles: "
                             "(order+hierarchy) no once/exec_once, and (once/exec_once) no insert, targets {Sub, Sub instance}, two functions, no new classes/instances; "
                             "4 operations over listen/remove on {Base, Sub} with two functions + dispatch on the Sub instance (same function on several levels); "
                             "3..5 operations over listen/remove(Base, f0), late creation of Mid(Base)+Leaf(Mid) with Mid never instantiated or targeted, new instance of "
                             "Mid/Leaf (three-level mro walk); 3..4 operations (thorough: ..5) over three instances a, b, c: listen(a, f0, propagate?), remove(a|b, f0), "
                             "b<-a / c<-b / c<-a by dispatch._update(only_propagate False/True) (second-hand propagated collections); "
                             "every run ends with a dispatch of both events on every instance and event.contains for every (target, fn)"},
        "thorough": {"history": "<=3 operations over the full alphabet; 4 operations without once/exec_once/insert, two listener functions, targets {Base, Sub, the Sub instance}, "
                                "new instance of the newest class only; 5 operations likewise with targets {Sub, the Sub instance} and one listener function; 5 operations over "
                                "listen/remove on {Base, Sub} with two functions + dispatch on the Sub instance"},
    },
    "outside": [
        "thread schedules: concurrent exec_once / first-connect dispatch (the mutex in _CompoundListener._exec_once_impl)",
        "relative order of listeners registered on different targets (class vs ancestor class vs instance): undocumented; implemented as "
        "class-level collection (ancestors' and own registrations in chronological deque order) first, then instance-level",
        "registering the identical (target, identifier, fn) triple twice without removing it in between (undocumented: class-level collections "
        "append a duplicate, instance-level ones ignore it)",
        "named=True / retval=True wrappers, legacy signatures, _JoinedListener (dispatch._join), _clear()",
        "dispatch._update() into a collection that already contains the same listener function (the dedupe / duplicate rules of "
        "_ListenerCollection._update are undocumented); once=True or insert=True listeners combined with _update(); class-level listeners are "
        "not transferred by _update() (by design)",
        "garbage collection of targets (registry._collection_gced)",
        "which listener runs first when listeners on different targets raise; once-registrations combined with raising listeners; "
        "raising listeners in a plain dispatch (raising is explored for exec_once / exec_once_unless_exception only)",
    ],
    "stubs": [],
    "assumptions": ["listener functions are interchangeable, so histories are explored up to renaming of the three functions (canonical labelling)",
                    "propagate=True/False is accepted by event.listen for a plain Events class; the reference registry gives it no effect on class-level "
                    "listeners (they always reach subclasses; documented only for ORM events); for instance-level listeners it selects what "
                    "dispatch._update(only_propagate=True) copies",
                    "reference semantics of dispatch._update(src): the destination fires the copied listeners until event.remove() of the ORIGINAL "
                    "registration, which removes them from every collection they were propagated to (event.remove docstring: 'all the event registration "
                    "which proceeded as a result of this call will be reverted'); event.contains is keyed by the original target only"],
}


def _slices(n: int, prof: int, pgs=(False,)) -> List[dict]:
    al0 = _Shape(prof).alphabet(prof)
    out = []
    for a0 in range(len(al0)):
        sh = _Shape(prof)
        sh.apply(al0[a0])
        n1 = len(sh.alphabet(prof))
        for b1 in (range(NCHUNK) if n >= 2 else (0,)):
            lo, hi = _chunk(n1, b1)
            if n >= 2 and lo >= hi:
                continue  # empty part of a small alphabet
            for pg in pgs:
                out.append(dict(n=n, prof=prof, pg=pg, a0=a0, b1=b1))
    return out


def harnesses(tier: str) -> List[Harness]:
    q = tier == "quick"
    hs: List[Harness] = []
    both = (False, True)
    if q:
        hs.append(Harness("events_full", h_events3, _slices(1, 0, both) + _slices(2, 0, both), budget_s=200))
        hs.append(Harness("events_len3_order", h_events3, _slices(3, 1), budget_s=200))
        hs.append(Harness("events_len3_once", h_events3, _slices(3, 2), budget_s=200))
        hs.append(Harness("events_len4_levels", h_events5, _slices(4, 6), budget_s=200))
        hs.append(Harness("events_late_chain", h_events5, _slices(3, 7) + _slices(4, 7) + _slices(5, 7), budget_s=200))
        hs.append(Harness("events_propagated", h_events5, _slices(3, 8) + _slices(4, 8), budget_s=300))
    else:
        hs.append(Harness("events_full", h_events3, _slices(1, 0, both) + _slices(2, 0, both) + _slices(3, 0), budget_s=300))
        hs.append(Harness("events_len4", h_events5, _slices(4, 3), budget_s=300))
        hs.append(Harness("events_len5", h_events5, _slices(5, 5), budget_s=300))
        hs.append(Harness("events_len5_levels", h_events5, _slices(5, 6), budget_s=300))
        hs.append(Harness("events_late_chain", h_events5, _slices(3, 7) + _slices(4, 7) + _slices(5, 7), budget_s=300))
        hs.append(Harness("events_propagated", h_events5, _slices(3, 8) + _slices(4, 8) + _slices(5, 8), budget_s=300))
    return hs


def _decode(args):
    """Re-decode the realised codes into the operation list (same walk as ``_history``, no SQLAlchemy)."""
    sh = _Shape(args["prof"])
    codes = [args.get("c%d" % i) for i in range(1, 5)]
    out = []
    for k in range(args["n"]):
        al = sh.alphabet(args["prof"])
        if k == 0:
            if args["a0"] >= len(al):
                break
            op = al[args["a0"]]
        elif k == 1:
            lo, hi = _chunk(len(al), args["b1"])
            if lo >= hi:
                break
            op = al[_bpick(codes[0], lo, hi)]
        else:
            op = al[_bpick(codes[k - 1], 0, len(al))]
        x = args.get("x%d" % k, 0)
        out.append((op, (-1 if x < 0 else 0) if op[0] > 4 else 0))
        sh.apply(op)
    return out


def _same_fn_on_two_levels(ops) -> bool:
    """Does the history register one listener function on two targets that share instances (a class and its
    ancestor / an instance and its class) and later remove one of the two registrations?"""
    reach = {0: (0, 1, 2, 3), 1: (1, 3), 2: (2,), 3: (3,)}  # target -> targets whose dispatches it reaches (Base reaches all)
    reg = []
    for (op, _) in ops:
        kd, t, f = op[0], op[1], op[2]
        if kd == 0:
            reg.append((t, f))
        elif kd == 1 and (t, f) in reg:
            for (t2, f2) in reg:
                if f2 == f and t2 != t and (t in reach[t2] or t2 in reach[t]):
                    return True
            reg.remove((t, f))
    return False


def classify(hname, args, rep):
    """Key = failed oracle clause (from a concrete re-run) + the triggering feature of the history."""
    from vlib import symx

    names = ["listen", "remove", "subclass", "instance", "dispatch", "exec_once", "exec_once_unless_exception"]
    del _WHY[:]
    symx.run_concrete(h_events3 if hname in ("events_full", "events_len3_order", "events_len3_once") else h_events5, args)
    why = _WHY[0] if _WHY else "exception:" + str(rep.get("exception"))[:60]
    ops = _decode(args)
    hist = []
    feats = []
    for (op, x) in ops:
        kd, t, f, i_, o, pr = op
        if kd == 0:
            hist.append("listen(t%d,f%d%s%s%s)" % (t, f, ",insert" if i_ else "", ",propagate" if (args["pg"] if pr is None else pr) else "", ",once" if o else ""))
            for flag, nm in ((i_, "insert"), (o, "once"), (t >= 2, "instance-target")):
                if flag and nm not in feats:
                    feats.append(nm)
        elif kd == 1:
            hist.append("remove(t%d,f%d)" % (t, f))
        elif kd == 2:
            hist.append("subclass")
        elif kd == 3:
            hist.append("instance(%s)" % ["Base", "Sub", "Sub2", "Mid", "Leaf"][t])
        elif kd == 7:
            hist.append("late_chain(Mid(Base)<-Leaf(Mid))")
        elif kd == 8:
            hist.append("propagate(inst%d.dispatch._update(inst%d.dispatch,only_propagate=%s))" % (t, f, i_))
        else:
            hist.append("%s(inst%d,x=%d)" % (names[kd], t, x))
    if _same_fn_on_two_levels(ops):
        trigger = "same-fn-on-class-and-ancestor-then-remove"
    else:
        trigger = ">".join(h.split("(")[0] for h in hist) + ":" + ("+".join(sorted(feats)) or "plain")
    return ("C28:%s:%s" % (why, trigger),
            "%s -- event history %s, then dispatch on every instance (targets: t0=Base t1=Sub t2=Base instance t3=Sub instance)"
            % (why, " ; ".join(hist)))


def run(tier: str, seed: int):
    return framework.run_symx(PID, __name__, tier, seed, harnesses(tier), classify, META)
