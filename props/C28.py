"""C28 Event listeners fire exactly as registered -- SEQUENTIAL part (E1 symx).

A throw-away ``event.Events`` / ``EventTarget`` hierarchy (Base <- Sub; Sub2 <- Sub created mid-history; events
``ev_a(x)``, ``ev_b(x)``) is driven by a *symbolic history* of listen / remove / create-subclass / new-instance /
dispatch / exec_once operations and compared with a list-based reference registry that encodes only the
documented semantics:

* a dispatch on an instance calls every listener currently registered on the instance, on its class and on
  the ancestors of its class -- one call per registration, with the dispatched arguments;
* listeners registered on the *same target* run in registration order, ``insert=True`` ones prepended;
* ``once=True`` registrations fire at most once ever;
* ``event.contains`` agrees with the registry, ``event.remove`` of something not registered raises
  ``InvalidRequestError``, and reverts exactly that registration;
* registrations on a class reach subclasses / instances that already exist and ones created later;
* ``exec_once`` / ``exec_once_unless_exception`` run the collection at most once per instance (the latter
  retries after an exception).

The relative order of listeners registered on *different* targets (class vs. ancestor vs. instance) is not
documented and not asserted (only that the observed call sequence is an interleaving of the per-target
sequences).  Thread schedules (concurrent exec_once) are outside the claim.
"""
from __future__ import annotations

from typing import List

from vlib import framework
from vlib.framework import Harness
from vlib.symx import assume, native

from sqlalchemy import event
from sqlalchemy import exc as sa_exc
from sqlalchemy.event import base as event_base
from sqlalchemy.event import registry as event_registry

PID = "C28"


class Boom(Exception):
    pass


def _mk_hierarchy():
    """Fresh Events class + target classes (class-level listener collections are global state of the Events
    class, so every path gets its own)."""
    _purge_registry()

    class Base(event.EventTarget):
        pass

    class C28Events(event.Events):
        _dispatch_target = Base

        def ev_a(self, x):
            pass

        def ev_b(self, x):
            pass

    class Sub(Base):
        pass

    return C28Events, Base, Sub


def _mk_sub2(Sub):
    return type("Sub2", (Sub,), {})


def _mk_inst(cls):
    return cls()


def _purge_registry():
    """The event registry is process-global and keyed by id(); entries of an abandoned path must not be
    visible to the next one (ids are reused).  The event names of this module are private to it."""
    for key in [k for k in list(event_registry._key_to_collection) if k[1] in ("ev_a", "ev_b")]:
        reg = event_registry._key_to_collection.pop(key, None)
        for owner_ref in list(reg or ()):
            event_registry._collection_to_key.pop(owner_ref, None)
    for k in ("ev_a", "ev_b"):
        event_base._registrars.pop(k, None)


def _drop_hierarchy(ev_cls):
    _purge_registry()


class _Reg:
    """One registration in the reference registry."""

    __slots__ = ("fn", "once", "consumed")

    def __init__(self, fn, once):
        self.fn = fn
        self.once = once
        self.consumed = False


def _is_shuffle(obs, seqs) -> bool:
    """Is ``obs`` an interleaving of the sequences ``seqs`` (each kept in order)?"""
    seqs = [list(s) for s in seqs if s]
    if sum(len(s) for s in seqs) != len(obs):
        return False

    def rec(pos, idx):
        if pos == len(obs):
            return True
        for k in range(len(seqs)):
            if idx[k] < len(seqs[k]) and seqs[k][idx[k]] == obs[pos]:
                idx[k] += 1
                if rec(pos + 1, idx):
                    return True
                idx[k] -= 1
        return False

    return rec(0, [0] * len(seqs))


class _World:
    """The real objects plus the reference registry."""

    def __init__(self):
        self.ev_cls, self.Base, self.Sub = native(_mk_hierarchy)
        self.classes = [self.Base, self.Sub]  # index 2 = Sub2 once created
        self.parents = [-1, 0]  # class index -> parent class index
        self.insts = [native(_mk_inst, self.Base), native(_mk_inst, self.Sub)]
        self.inst_cls = [0, 1]
        self.calls = []
        self.nused = 0  # listener functions are interchangeable: canonical labelling (f <= number used so far)
        w = self

        def f0(x):
            w.calls.append((0, x))
            if x < 0:
                raise Boom()

        def f1(x):
            w.calls.append((1, x))
            if x < 0:
                raise Boom()

        def f2(x):
            w.calls.append((2, x))
            if x < 0:
                raise Boom()

        self.fns = [f0, f1, f2]
        # registry: slot (class index c -> c; instance index i -> 3 + i) -> ordered registrations
        self.regs = [[], [], [], [], [], [], []]
        self.exec_once_done = [False, False, False, False]

    # -- targets: 0 Base, 1 Sub, 2 insts[0] (a Base), 3 insts[1] (a Sub)
    def target(self, t):
        if t == 0:
            return 0, self.Base
        if t == 1:
            return 1, self.Sub
        if t == 2:
            return 3, self.insts[0]
        return 4, self.insts[1]

    def find(self, key, f):
        for r in self.regs[key]:
            if r.fn == f:
                return r
        return None

    def expected_seqs(self, i):
        """Per-target sequences of listener indexes that must fire for a dispatch on instance i."""
        seqs = []
        for k in self._keys(i):
            seqs.append([r for r in self.regs[k] if not (r.once and r.consumed)])
        return seqs

    def check_dispatch(self, i, x, how) -> bool:
        """Run a dispatch on instance i and compare with the registry.  how: 0 plain, 1 exec_once,
        2 exec_once_unless_exception."""
        inst = self.insts[i]
        seqs = self.expected_seqs(i)
        nexp = sum(len(s) for s in seqs)
        raising = x < 0
        if raising:
            # which registration runs first across different targets is not documented; keep the
            # consumption of once-registrations unambiguous
            for s in seqs:
                for r in s:
                    assume(not r.once)
        del self.calls[:]
        skipped = False
        raised = False
        try:
            if how == 0:
                inst.dispatch.ev_a(x)
            else:
                coll = inst.dispatch.ev_a.for_modify(inst.dispatch)
                if self.exec_once_done[i]:
                    skipped = True
                if how == 1:
                    coll.exec_once(x)
                else:
                    coll.exec_once_unless_exception(x)
        except Boom:
            raised = True
        obs = list(self.calls)
        del self.calls[:]
        if skipped:
            return not obs and not raised
        if how == 1:
            self.exec_once_done[i] = True
        if raising and nexp > 0:
            # the first listener raises, the exception reaches the caller, nothing else runs
            if not raised or len(obs) != 1 or obs[0][1] != x:
                return False
            if how == 2:
                pass  # exec_once_unless_exception: will retry
            return any(s and s[0].fn == obs[0][0] for s in seqs)
        if how == 2:
            self.exec_once_done[i] = True
        if raised:
            return False
        for (f, xx) in obs:
            if xx != x:
                return False
        if not _is_shuffle([f for (f, _) in obs], [[r.fn for r in s] for s in seqs]):
            return False
        for s in seqs:
            for r in s:
                if r.once:
                    r.consumed = True
        return True

    def check_final(self) -> bool:
        # event.contains for every (target, fn)
        for t in range(4):
            key, tgt = self.target(t)
            for f in range(3):
                if event.contains(tgt, "ev_a", self.fns[f]) != (self.find(key, f) is not None):
                    return False
                if event.contains(tgt, "ev_b", self.fns[f]):
                    return False
        for i in range(len(self.insts)):
            n = sum(len(self.regs[k]) for k in self._keys(i))
            if len(self.insts[i].dispatch.ev_a) != n or bool(self.insts[i].dispatch.ev_a) != (n > 0):
                return False
            del self.calls[:]
            self.insts[i].dispatch.ev_b(5)
            if self.calls:
                return False
            if not self.check_dispatch(i, 7, 0):
                return False
        return True

    def _keys(self, i):
        c = self.inst_cls[i]
        keys = [3 + i]
        while c != -1:
            keys.append(c)
            c = self.parents[c]
        return keys


def _pick(v, n: int) -> int:
    """Total map of a (symbolic) int onto range(n) by comparisons only: every input value denotes a legal
    choice, so no path is wasted on an unmet assumption."""
    for i in range(n - 1):
        if v <= i:
            return i
    return n - 1


def _kinds(w: _World, prof: int) -> List[int]:
    """Operation kinds available in the current state under the alphabet profile."""
    ks = [0, 1]
    if prof != 2 and len(w.classes) == 2:
        ks.append(2)
    if prof != 2 and len(w.insts) < 4:
        ks.append(3)
    ks.append(4)
    if prof in (0, 2):
        ks.extend([5, 6])
    return ks


def _targets(prof: int) -> List[int]:
    if prof == 2:
        return [1, 3]
    if prof == 3:
        return [0, 1, 3]
    return [0, 1, 2, 3]


def _step(w: _World, prof: int, kind, t, f, x, i_, o, pg, ck: bool, ct: bool) -> bool:
    """One operation of the history (kind: 0 listen, 1 remove, 2 create Sub2(Sub), 3 new instance of class t,
    4 dispatch, 5 exec_once, 6 exec_once_unless_exception on instance t).  ``kind``/``t`` are concrete slice
    parameters when ck/ct are set, otherwise symbolic values decoded totally by ``_pick``."""
    ks = _kinds(w, prof)
    if ck:
        assume(kind in ks)
    else:
        kind = ks[_pick(kind, len(ks))]
    nf = min(w.nused + 1, 2 if prof in (2, 3) else 3)
    if kind == 0:  # listen
        tg = _targets(prof)
        if ct:
            assume(t in tg)
        else:
            t = tg[_pick(t, len(tg))]
        key, tgt = w.target(t)
        # registering the very same (target, identifier, fn) twice is not documented: outside
        cands = [c for c in range(nf) if w.find(key, c) is None]
        assume(len(cands) > 0)
        f = cands[_pick(f, len(cands))]
        if f == w.nused:
            w.nused += 1
        if prof in (1, 3):
            o = False
        if prof in (2, 3):
            i_ = False
        event.listen(tgt, "ev_a", w.fns[f], insert=i_, propagate=pg, once=o)
        r = _Reg(f, True if o else False)
        if i_:
            w.regs[key].insert(0, r)
        else:
            w.regs[key].append(r)
        return True
    if kind == 1:  # remove
        tg = _targets(prof)
        if ct:
            assume(t in tg)
        else:
            t = tg[_pick(t, len(tg))]
        f = _pick(f, nf)
        key, tgt = w.target(t)
        r = w.find(key, f)
        try:
            event.remove(tgt, "ev_a", w.fns[f])
            raised = False
        except sa_exc.InvalidRequestError:
            raised = True
        if raised != (r is None):
            return False
        if r is not None:
            w.regs[key].remove(r)
        return True
    if kind == 2:  # create Sub2(Sub)
        w.classes.append(native(_mk_sub2, w.Sub))
        w.parents.append(1)
        return True
    if kind == 3:  # new instance of class t
        if prof == 3:
            t = len(w.classes) - 1
        elif ct:
            assume(t < len(w.classes))
        else:
            t = _pick(t, len(w.classes))
        w.insts.append(native(_mk_inst, w.classes[t]))
        w.inst_cls.append(t)
        return True
    # dispatch / exec_once / exec_once_unless_exception on instance t
    if prof == 2:
        t = 1
    elif ct:
        assume(t < len(w.insts))
    else:
        t = _pick(t, len(w.insts))
    if kind == 4:
        xv = 0  # a raising listener in a plain dispatch is ordinary Python semantics
    else:
        xv = -1 if x < 0 else 0
    return w.check_dispatch(t, xv, kind - 4)


def h_events(n: int, prof: int, pg: bool,
             kA: int, tA: int, fA: int, xA: int, iA: bool, oA: bool,
             kB: int, tB: int, fB: int, xB: int, iB: bool, oB: bool,
             kC: int, tC: int, fC: int, xC: int, iC: bool, oC: bool,
             kD: int, tD: int, fD: int, xD: int, iD: bool, oD: bool,
             kE: int, tE: int, fE: int, xE: int, iE: bool, oE: bool) -> bool:
    """n operations A..E (k kind, t target/instance/class index, f listener index, x dispatched value, i insert,
    o once); pg = the propagate flag passed to every listen of the history; prof = alphabet profile:
    0 full; 1 no once / exec_once (order + hierarchy); 2 once / exec_once focus (no insert, targets {Sub, Sub
    instance}, two listener functions, no new classes/instances); 3 like 1 without insert, targets {Base, Sub, Sub
    instance}, two functions, new instance of the newest class only."""
    ops = [(kA, tA, fA, xA, iA, oA), (kB, tB, fB, xB, iB, oB), (kC, tC, fC, xC, iC, oC),
           (kD, tD, fD, xD, iD, oD), (kE, tE, fE, xE, iE, oE)][:n]
    w = _World()
    try:
        pos = 0
        for (k, t, f, x, i_, o) in ops:
            if not _step(w, prof, k, t, f, x, i_, o, pg, pos <= 1, pos == 0):
                return False
            pos += 1
        return native(w.check_final)
    finally:
        native(_drop_hierarchy, w.ev_cls)


# ------------------------------------------------------------------------------------------

META = {
    "explanation": "Symbolic histories of event.listen/remove/contains, subclass and instance creation, dispatch and "
                   "exec_once over a throw-away Events/EventTarget hierarchy (fresh per path), executed on the real "
                   "event package and compared with a list-based reference registry of the documented semantics.",
    "functions": [
        "event.api.{listen,remove,contains,_event_key}", "event.registry._EventKey.{listen,base_listen,remove,contains,with_wrapper,"
        "append_to_list,prepend_to_list}", "event.registry.{_stored_in_collection,_removed_from_collection} (_key_to_collection bookkeeping)",
        "event.attr._ClsLevelDispatch.{_do_insert_or_append,insert,append,update_subclass,remove}",
        "event.attr._EmptyListener.{__init__,for_modify,__call__,__len__,__bool__}",
        "event.attr._ListenerCollection.{insert,append,remove,__call__}", "event.attr._CompoundListener.{exec_once,exec_once_unless_exception,_exec_once_impl,__call__,__len__,__bool__}",
        "event.base.{_Dispatch.__init__/__getattr__/_for_instance, dispatcher.__get__, Events._accept_with/_listen, _HasEventsDispatch._create_dispatcher_class}",
        "util.langhelpers.{only_once,walk_subclasses}",
    ],
    "bounds": {
        "quick": {"history": "<=3 operations, full alphabet: listen(target in {Base, Sub, a Base instance, a Sub instance}, fn in 3 (canonical labelling), "
                             "insert?, propagate?, once?), remove(target, fn), create Sub2(Sub), new instance of any existing class, dispatch / exec_once / "
                             "exec_once_unless_exception on any instance with x in {-1 (every listener raises), 0}; then a final dispatch of both events on every "
                             "instance and event.contains for every (target, fn)"},
        "thorough": {"history": "<=3 full alphabet; 4 operations without once/propagate/exec_once/raising listeners; 5 operations additionally restricted to two "
                                "listener functions, no insert, targets {Base, Sub, the Sub instance}, new instance of the newest class only"},
    },
    "outside": [
        "thread schedules: concurrent exec_once / first-connect dispatch (the mutex in _CompoundListener._exec_once_impl)",
        "relative order of listeners registered on different targets (class vs ancestor class vs instance): undocumented; implemented as "
        "class-level collection (ancestors' and own registrations in chronological deque order) first, then instance-level",
        "registering the identical (target, identifier, fn) triple twice without removing it in between (undocumented: class-level collections "
        "append a duplicate, instance-level ones ignore it)",
        "named=True / retval=True wrappers, legacy signatures, _JoinedListener (dispatch._join), _Dispatch._update/propagate sets, _clear()",
        "garbage collection of targets (registry._collection_gced)",
        "which listener runs first when listeners on different targets raise; once-registrations combined with raising listeners",
    ],
    "stubs": [],
    "assumptions": ["listener functions are interchangeable, so histories are explored up to renaming of the three functions (canonical labelling)",
                    "propagate=True/False is accepted by event.listen for a plain Events class; the reference registry gives it no effect "
                    "(class-level listeners always reach subclasses; documented only for ORM events)"],
}


def _slices(n: int, prof: int, pgs=(False, True)) -> List[dict]:
    """Partition by the first operation (kind, target) and the kind of the second one; infeasible
    combinations are left out (they would be vacuous)."""
    out = []
    for kA in range(7):
        for tA in range(4):
            if kA == 2 and tA != 0:
                continue  # t unused
            if kA == 3 and tA > 1:
                continue  # only Base / Sub exist
            if kA >= 4 and tA > 1:
                continue  # two instances exist
            if prof in (1, 3) and kA >= 5:
                continue
            if prof == 2 and (kA in (2, 3) or (kA in (0, 1) and tA in (0, 2)) or (kA >= 4 and tA != 1)):
                continue
            if prof == 3 and ((kA in (0, 1) and tA == 2) or (kA == 3 and tA != 1)):
                continue
            for kB in (range(7) if n >= 2 else (0,)):
                if prof in (1, 3) and kB >= 5:
                    continue
                if prof == 2 and kB in (2, 3):
                    continue
                if kA == 2 and kB == 2 and n >= 2:
                    continue  # Sub2 is created once
                for pg in pgs:
                    # propagate only reaches a branch for instance-level listens
                    if pg and not (kA == 0 or (n >= 2 and kB == 0) or n >= 3):
                        continue
                    out.append(dict(n=n, prof=prof, pg=pg, kA=kA, tA=tA, kB=kB))
    return out


def harnesses(tier: str) -> List[Harness]:
    q = tier == "quick"
    hs: List[Harness] = []
    hs.append(Harness("events_full", h_events, _slices(1, 0) + _slices(2, 0) + ([] if q else _slices(3, 0)),
                      budget_s=200 if q else 900))
    if q:
        hs.append(Harness("events_len3_order", h_events, _slices(3, 1), budget_s=200))
        hs.append(Harness("events_len3_once", h_events, _slices(3, 2), budget_s=200))
    else:
        hs.append(Harness("events_len4", h_events, _slices(4, 3, pgs=(False,)), budget_s=900))
        hs.append(Harness("events_len5", h_events, _slices(5, 3, pgs=(False,)), budget_s=900))
    return hs


def classify(hname, args, rep):
    names = ["listen", "remove", "subclass", "instance", "dispatch", "exec_once", "exec_once_unless_exception"]
    hist = []
    feats = []
    for L in "ABCDE"[: args["n"]]:
        kd, t, f, x = args["k" + L], args["t" + L], args["f" + L], args["x" + L]
        nm = names[kd] if 0 <= kd < 7 else "?"
        if kd == 0:
            hist.append("listen(t%d,f%d%s%s%s)" % (t, f, ",insert" if args["i" + L] else "", ",propagate" if args["pg"] else "",
                                                   ",once" if args["o" + L] else ""))
            if args["i" + L] and "insert" not in feats:
                feats.append("insert")
            if args["o" + L] and "once" not in feats:
                feats.append("once")
            if t >= 2 and "instance-target" not in feats:
                feats.append("instance-target")
        elif kd == 1:
            hist.append("remove(t%d,f%d)" % (t, f))
        elif kd >= 3:
            hist.append("%s(%d%s)" % (nm, t, (",x=%d" % x) if kd >= 4 else ""))
        else:
            hist.append(nm)
    shape = ">".join(h.split("(")[0] for h in hist)
    return ("C28:%s:%s" % (shape, "+".join(sorted(feats)) or "plain"),
            "event history %s (targets: t0=Base t1=Sub t2=Base instance t3=Sub instance) disagrees with the reference registry (%s)"
            % (" ; ".join(hist), rep.get("exception")))


def run(tier: str, seed: int):
    return framework.run_symx(PID, __name__, tier, seed, harnesses(tier), classify, META)
