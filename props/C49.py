"""C49 Mutable column values flag the parent modified on every in-place change (in-memory half, E1 symx).

``MutableList`` / ``MutableDict`` / ``MutableSet`` attached with ``as_mutable(PickleType)`` to mapped
attributes of a transient object.  After committing the attribute state in memory, every overridden (and
every inherited) mutator is applied; the contents must equal the plain builtin subjected to the same
operation (same return value, same exception type), and *contents changed  =>  parent attribute flagged
modified* (``InstanceState.modified``, the attribute in ``committed_state`` and a non-empty attribute history).
A no-op is allowed to flag.
"""
from __future__ import annotations

import functools
import json
import operator
import pickle
import sys
from typing import List

from vlib import framework
from vlib.framework import Harness
from vlib.symx import assume

from sqlalchemy import Column, Integer, PickleType
from sqlalchemy.ext.mutable import MutableDict, MutableList, MutableSet
from sqlalchemy.orm import registry
from sqlalchemy.orm.attributes import get_history, instance_dict, instance_state

PID = "C49"

_reg = registry()


@_reg.mapped
class C49Doc:
    __tablename__ = "c49_doc"
    id = Column(Integer, primary_key=True)
    lst = Column(MutableList.as_mutable(PickleType))
    dct = Column(MutableDict.as_mutable(PickleType))
    st = Column(MutableSet.as_mutable(PickleType))


_reg.configure()
ATTR = {"list": "lst", "dict": "dct", "set": "st"}
MCLS = {"list": MutableList, "dict": MutableDict, "set": MutableSet}
BUILTIN = {"list": list, "dict": dict, "set": set}


def _tracing():
    # (not vlib.symx._tracing: that imports CrossHair, which costs ~1 s in every forked replay child)
    m = sys.modules.get("crosshair.tracers")
    return bool(m is not None and m.is_tracing())


def native(fn, *args):
    """Run ``fn`` with the tracer paused.  Unlike ``vlib.symx.native`` the arguments are NOT deep-realised
    (that would deep-copy the mapped instances): every argument is already a plain Python value
    or a live ORM object."""
    if not _tracing():
        return fn(*args)
    from crosshair.tracers import NoTracing

    with NoTracing():
        return fn(*args)


# CrossHair models ``weakref.ref.__call__`` as ``gc.collect(); r()``; the ORM dereferences weakrefs
# (InstanceState.obj, CollectionAdapter._data) several times per operation.  Freezing the import-time heap
# keeps those collections cheap (engine cost only, no semantic effect).
import gc as _gc  # noqa: E402

_gc.collect()
_gc.freeze()


_GC_N = [0]


def _gc_mark():
    """Called (untraced) at the start of every path: drop the previous path's cyclic garbage, then freeze
    what is alive (search tree, solver state) so that the per-weakref collections only scan this path's objects.
    Every 64th path everything is thawed and collected, otherwise the state spaces of finished paths (frozen
    while alive, cyclic) would never be reclaimed."""
    _GC_N[0] += 1
    if _GC_N[0] % 64 == 0:
        _gc.unfreeze()
    _gc.collect()
    _gc.freeze()


def pin_code(code, n):
    """Binary case-split of a symbolic int over 0..n-1 by solver-decided comparisons: one path per value,
    and the code under test receives plain Python values (the collections are C containers that would
    realise every argument anyway)."""
    assume(0 <= code)
    assume(code < n)
    lo, hi = 0, n - 1
    while lo < hi:
        mid = (lo + hi) // 2
        if code <= mid:
            hi = mid
        else:
            lo = mid + 1
    return lo


def _pick(code, table_fn, *cfg):
    """(index, input tuple) number ``code`` of the cached, deterministic input table of this slice."""
    tbl = native(table_fn, *cfg)
    c = pin_code(code, len(tbl))
    return c, tbl[c]


def _product(*doms):
    out = [()]
    for d in doms:
        out = [t + (v,) for t in out for v in d]
    return out


def _opt(lo, hi, nozero=False):
    return [None] + [v for v in range(lo, hi + 1) if not (nozero and v == 0)]


# Reporting cap: see props/C38.py.  After CAP failing paths with the same classify() key in the same slice,
# further failing inputs *with that key* are abandoned as "precondition unmet" (never counted as passing).
CAP = 2
_SEEN = {}


def _over_cap(hname, names, values, code):
    fixed = dict(zip(names.split(), values))
    args = dict(fixed)
    args["code"] = code
    key = (hname, json.dumps(fixed, sort_keys=True), classify(hname, args, {})[0])
    _SEEN[key] = _SEEN.get(key, 0) + 1
    return _SEEN[key] > CAP


def _report(ok, hname, names, values, code):
    if ok or not _tracing():
        return ok
    if native(_over_cap, hname, names, values, code):
        assume(False)
    return False


def _run(fn, *args):
    try:
        return ("ok", fn(*args))
    except Exception as e:  # noqa: BLE001 - the exception type is the observation
        if type(e).__name__ == "NotDeterministic":
            raise
        return ("exc", type(e).__name__)


def _norm(ret, c):
    if ret is c:
        return "self"
    if ret is None or isinstance(ret, (int, str, bool)):
        return ret
    if isinstance(ret, tuple):
        return [_norm(x, c) for x in ret]
    return "?" + type(ret).__name__


def _norm_res(res, c):
    return [res[0], _norm(res[1], c)] if res[0] == "ok" else [res[0], res[1]]


def _snap(kind, v):
    """JSON-able snapshot of a container value (None stays None)."""
    if v is None:
        return None
    if kind == "list":
        return list(v)
    if kind == "set":
        return sorted(v)
    return [[k, x] for k, x in dict.items(v)]


# ------------------------------------------------------------------------------------------
# operations.  One step = (op, a, b, c): small ints / None / tuples, meaning depends on op.

def _bits(mask, n=3):
    return [j for j in range(n) if mask & (1 << j)]


def _other_dict(sel):
    return [{}, {"k0": 1}, {"k1": 0, "k2": 1}, {"k0": 0, "k1": 0}][sel]


def _operand(kind, op, a, b, x):
    """The container-valued argument of the step, if any (always built with the tracer paused: CrossHair
    substitutes its own shell types for set()/dict()/list() calls made while tracing)."""
    if kind == "list":
        if op in ("setslice", "setslice_ext"):
            return [9] * x
        if op in ("extend", "iadd"):
            return [9] * a
        if op == "extend_iter":
            return iter([9] * a)
    elif kind == "dict":
        if op in ("update_dict", "update_kw", "update_dict_kw", "ior"):
            return dict(_other_dict(a))
        if op == "update_pairs":
            return list(_other_dict(a).items())
    else:
        if op in ("update2", "intersection_update2", "difference_update2"):
            return (_bits(a), _bits(b))
        if op in ("ior", "iand", "isub", "ixor", "update", "intersection_update", "difference_update", "symmetric_difference_update"):
            return set(_bits(a)) if b == 0 else (frozenset(_bits(a)) if b == 1 else (_bits(a) + _bits(a)[:1]))
    return None


def _apply(kind, c, op, a, b, x, arg):
    """Apply one mutator to container ``c`` (a Mutable* instance or the plain builtin)."""
    if kind == "list":
        if op == "append":
            return c.append(a)
        if op == "insert":
            return c.insert(a, b)
        if op == "pop":
            return c.pop(a)
        if op == "pop_noarg":
            return c.pop()
        if op == "remove":
            return c.remove(a)
        if op == "setitem":
            return operator.setitem(c, a, b)
        if op == "delitem":
            return operator.delitem(c, a)
        if op == "setslice":
            return operator.setitem(c, slice(a, b, None), arg)
        if op == "setslice_ext":
            return operator.setitem(c, slice(a, None, b), arg)
        if op == "delslice":
            return operator.delitem(c, slice(a, b, x))
        if op == "extend":
            return c.extend(arg)
        if op == "extend_iter":
            return c.extend(arg)
        if op == "iadd":
            return operator.iadd(c, arg)
        if op == "imul":
            return operator.imul(c, a)
        if op == "clear":
            return c.clear()
        if op == "sort":
            return c.sort()
        if op == "sort_reverse":
            return c.sort(reverse=True)
        if op == "reverse":
            return c.reverse()
    elif kind == "dict":
        key = "k%d" % a if isinstance(a, int) else a
        if op == "setitem":
            return operator.setitem(c, key, b)
        if op == "delitem":
            return operator.delitem(c, key)
        if op == "pop":
            return c.pop(key)
        if op == "pop_default":
            return c.pop(key, 9)
        if op == "popitem":
            return c.popitem()
        if op == "setdefault":
            return c.setdefault(key, b)
        if op == "setdefault_nodefault":
            return c.setdefault(key)
        if op == "update_dict":
            return c.update(arg)
        if op == "update_pairs":
            return c.update(arg)
        if op == "update_kw":
            return c.update(**arg)
        if op == "update_dict_kw":
            return c.update(arg, k2=5)
        if op == "update_noarg":
            return c.update()
        if op == "ior":
            return operator.ior(c, arg)
        if op == "clear":
            return c.clear()
    else:
        if op == "add":
            return c.add(a)
        if op == "discard":
            return c.discard(a)
        if op == "remove":
            return c.remove(a)
        if op == "pop":
            return c.pop()
        if op == "clear":
            return c.clear()
        if op == "update_noarg":
            return c.update()
        if op == "update2":
            return c.update(*arg)
        if op == "intersection_update2":
            return c.intersection_update(*arg)
        if op == "difference_update2":
            return c.difference_update(*arg)
        other = arg
        if op == "ior":
            return operator.ior(c, other)
        if op == "iand":
            return operator.iand(c, other)
        if op == "isub":
            return operator.isub(c, other)
        if op == "ixor":
            return operator.ixor(c, other)
        if op in ("update", "intersection_update", "difference_update", "symmetric_difference_update"):
            return getattr(c, op)(other)
    raise AssertionError((kind, op))


def _alphabet(kind, level, hi):
    """level 2 = every mutator with its full argument range (single steps); level 1 = the same mutators
    with a reduced argument range (histories of 2); level 0 = one or two representatives (histories of 3)."""
    al = []
    if kind == "list":
        idx = list(range(-hi, hi + 1)) if level == 2 else ([-2, -1, 0, 1] if level == 1 else [-1, 0])
        vals = [0, 1, 2] if level == 2 else [1]
        sb = [None, -2, -1, 0, 1, 2] if level == 2 else ([None, -1, 1] if level == 1 else [None, 1])
        al += [("append", v, 0, 0) for v in vals]
        al += [("insert", i, 5, 0) for i in idx]
        al += [("pop", i, 0, 0) for i in idx] + [("pop_noarg", 0, 0, 0)]
        al += [("remove", v, 0, 0) for v in ([0, 1, 2] if level else [1])]
        al += [("setitem", i, v, 0) for i in idx for v in ([5] if level < 2 else [5, 0])]
        al += [("delitem", i, 0, 0) for i in idx]
        al += [("setslice", a, b, m) for a in sb for b in sb for m in ((0, 1, 2) if level == 2 else (0, 2))]
        al += [("setslice_ext", a, st, m) for a in (None, 1) for st in (2, -1) for m in (1, 2)] if level else []
        al += [("delslice", a, b, st) for a in sb for b in sb for st in ((None, 2, -1) if level == 2 else (None,))]
        al += [("extend", m, 0, 0) for m in (0, 1)] + [("extend_iter", 1, 0, 0), ("iadd", 0, 0, 0), ("iadd", 2, 0, 0)]
        al += [("imul", k, 0, 0) for k in ((-1, 0, 1, 2) if level else (0, 2))]
        al += [("clear", 0, 0, 0), ("sort", 0, 0, 0), ("sort_reverse", 0, 0, 0), ("reverse", 0, 0, 0)]
    elif kind == "dict":
        keys = [0, 1, 2] if level else [0, 2]
        vals = [0, 1] if level == 2 else [1]
        oth = [0, 1, 2, 3] if level else [0, 2]
        al += [("setitem", k, v, 0) for k in keys for v in vals]
        al += [("delitem", k, 0, 0) for k in keys] + [("pop", k, 0, 0) for k in keys] + [("pop_default", k, 0, 0) for k in keys]
        al += [("popitem", 0, 0, 0)]
        al += [("setdefault", k, v, 0) for k in keys for v in vals] + [("setdefault_nodefault", k, 0, 0) for k in keys]
        for o in ("update_dict", "update_pairs", "update_kw", "update_dict_kw", "ior"):
            al += [(o, s, 0, 0) for s in oth]
        al += [("update_noarg", 0, 0, 0), ("clear", 0, 0, 0)]
    else:
        vals = [0, 1, 2] if level else [0, 2]
        masks = list(range(8)) if level == 2 else ([0, 1, 6, 7] if level == 1 else [0, 5])
        al += [(o, v, 0, 0) for o in ("add", "discard", "remove") for v in vals]
        al += [("pop", 0, 0, 0), ("clear", 0, 0, 0), ("update_noarg", 0, 0, 0)]
        for o in ("ior", "iand", "isub", "ixor"):
            al += [(o, m, k, 0) for m in masks for k in ((0, 1) if level == 2 else (0,))]  # set / frozenset operands
        for o in ("update", "intersection_update", "difference_update", "symmetric_difference_update"):
            al += [(o, m, k, 0) for m in masks for k in ((0, 1, 2) if level == 2 else (0, 2))]  # + list with a duplicate
        al += [(o, m, m2, 0) for o in ("update2", "intersection_update2", "difference_update2")
               for m in ((1, 6) if level else (1,)) for m2 in ((2, 5) if level else (2,))]
    # attribute-level steps (histories): wholesale replacement by a plain builtin (coerced), None, pickle round trip
    if level < 2:
        al += [("replace", 0, 0, 0), ("replace", 1, 0, 0), ("set_none", 0, 0, 0), ("pickle", 0, 0, 0)]
    return al


REPLACEMENTS = {"list": [[], [2, 1]], "dict": [{}, {"k1": 1, "k0": 0}], "set": [set(), {0, 2}]}


@functools.lru_cache(maxsize=None)
def t_inits(kind):
    if kind == "list":
        return [list(t) for n in range(4) for t in _product(*[[0, 1, 2]] * n)]
    if kind == "dict":
        out = []
        for pr in _product(*[[-1, 0, 1]] * 3):
            for rev in (False, True):
                order = [2, 1, 0] if rev else [0, 1, 2]
                d = [["k%d" % j, pr[j]] for j in order if pr[j] >= 0]
                if d not in out:
                    out.append(d)
        return out
    return [_bits(m) for m in range(8)]


@functools.lru_cache(maxsize=None)
def t_step(kind, opname, hi):
    """(init, step) for every initial content and every argument choice of one mutator"""
    steps = [s for s in _alphabet(kind, 2, hi) if s[0] == opname]
    return [(init, s) for init in t_inits(kind) for s in steps]


@functools.lru_cache(maxsize=None)
def t_hist(kind, level, nops, init_sel, first_lo, first_hi):
    al = _alphabet(kind, level, 2)
    out = [(f,) for f in al[first_lo:first_hi]]
    for _ in range(nops - 1):
        out = [t + (s,) for t in out for s in al]
    init = HIST_INITS[kind][init_sel]
    return [(init, t) for t in out]


HIST_INITS = {"list": [[], [1, 0, 1]], "dict": [[], [["k1", 1], ["k0", 0]]], "set": [[], [0, 1]]}


def _mk_value(kind, init):
    if kind == "dict":
        d = {}
        for k, v in init:
            d[k] = v
        return d
    return BUILTIN[kind](init)


def _setup(kind, init):
    _gc_mark()
    doc = C49Doc()
    setattr(doc, ATTR[kind], _mk_value(kind, init))
    _commit(doc)
    return doc


def _commit(doc):
    instance_state(doc)._commit_all(instance_dict(doc))


def _flagged(doc, attr):
    st = instance_state(doc)
    return bool(st.modified) and attr in st.committed_state and get_history(doc, attr).has_changes()


def _model_step(kind, model, op, a, b, x):
    """(untraced) apply the step to the plain builtin; returns (model, result)"""
    if op == "replace":
        return BUILTIN[kind](REPLACEMENTS[kind][a]), ["ok", None]
    if op == "set_none":
        return None, ["ok", None]
    if op == "pickle" or model is None:
        return model, ["ok", None]
    res = _norm_res(_run(_apply, kind, model, op, a, b, x, _operand(kind, op, a, b, x)), model)
    return model, res


def _pre(kind, doc, model):
    _commit(doc)
    val = getattr(doc, ATTR[kind])
    if model is None:
        return val, (None if val is None else "value"), None
    if type(val) is not MCLS[kind]:
        return val, "type", None
    return val, None, _snap(kind, model)


def _post(kind, doc, op, before, model, res, mres):
    cur = getattr(doc, ATTR[kind])
    if kind == "set" and op == "pop" and res[0] == "ok" and mres[0] == "ok":
        # set.pop() removes an arbitrary member: any member conforms; replay the choice on the model
        if res[1] not in before:
            return "return"
        model.add(mres[1])
        model.discard(res[1])
        mres = res
    if _snap(kind, cur) != _snap(kind, model):
        return "contents"
    if res != mres:
        return "return"
    if op != "pickle" and _snap(kind, model) != before and not _flagged(doc, ATTR[kind]):
        return "not-flagged"
    return None


def _attr_step(kind, doc, op, a):
    """(untraced) attribute-level steps"""
    if op == "replace":
        setattr(doc, ATTR[kind], BUILTIN[kind](REPLACEMENTS[kind][a]))  # a plain builtin: coerced by the set listener
    elif op == "set_none":
        setattr(doc, ATTR[kind], None)
    elif op == "pickle":
        doc = pickle.loads(pickle.dumps(doc))
    return doc


def _history_run(kind, init, steps, doc):
    """Returns (index of the first offending step or -1, reason).  Only the application of the mutator to the
    Mutable* value runs under the tracer; bookkeeping, operands and the builtin model run with the tracer paused."""
    model = native(_mk_value, kind, init)
    for k, (op, a, b, x) in enumerate(steps):
        val, bad, before = native(_pre, kind, doc, model)
        if bad:
            return k, bad
        if op in ("replace", "set_none", "pickle"):
            doc = native(_attr_step, kind, doc, op, a)
            res = ["ok", None]
        elif model is None:
            continue  # nothing to mutate
        else:
            arg = native(_operand, kind, op, a, b, x)
            res = _norm_res(_run(_apply, kind, val, op, a, b, x, arg), val)
        model, mres = native(_model_step, kind, model, op, a, b, x)
        bad = native(_post, kind, doc, op, before, model, res, mres)
        if bad:
            return k, bad
    return -1, ""


def h_step(kind: str, op: str, hi: int, code: int) -> bool:
    c, (init, step) = _pick(code, t_step, kind, op, hi)
    doc = native(_setup, kind, init)
    bad, _why = _history_run(kind, init, (step,), doc)
    return _report(bad < 0, "step", "kind op hi", (kind, op, hi,), c)


def h_hist(kind: str, level: int, nops: int, init_sel: int, first_lo: int, first_hi: int, code: int) -> bool:
    c, (init, steps) = _pick(code, t_hist, kind, level, nops, init_sel, first_lo, first_hi)
    doc = native(_setup, kind, init)
    bad, _why = _history_run(kind, init, steps, doc)
    return _report(bad < 0, "hist", "kind level nops init_sel first_lo first_hi", (kind, level, nops, init_sel, first_lo, first_hi,), c)


# ------------------------------------------------------------------------------------------

META = {
    "explanation": "ext/mutable.py MutableList / MutableDict / MutableSet attached with as_mutable(PickleType) to "
                   "attributes of a transient mapped object. The attribute state is committed in memory "
                   "(InstanceState._commit_all), one mutator is applied, and the value is compared with the plain "
                   "builtin (contents, return value, exception type); if the contents changed the parent must be "
                   "flagged (InstanceState.modified, attribute in committed_state, non-empty history). Single steps "
                   "from every initial content with the full argument range, and short histories that interleave "
                   "mutators with wholesale replacement (coercion of a plain builtin), assignment of None and a pickle "
                   "round trip of the parent. Each slice has a deterministic table of inputs; the symbolic input is "
                   "the table index, case-split by z3-decided comparisons (one path per input; list/dict/set are C "
                   "containers that realise every argument anyway).",
    "functions": [
        "ext.mutable.MutableList.{__setitem__,__delitem__,pop,append,extend,__iadd__,insert,remove,clear,sort,reverse,coerce,__reduce_ex__}",
        "ext.mutable.MutableDict.{__setitem__,setdefault,__delitem__,update,pop,popitem,clear,coerce,__getstate__,__setstate__}",
        "ext.mutable.MutableSet.{update,intersection_update,difference_update,symmetric_difference_update,__ior__,__iand__,"
        "__ixor__,__isub__,add,remove,discard,pop,clear,coerce,__reduce_ex__}",
        "ext.mutable.Mutable.{changed,as_mutable,associate_with_attribute}", "ext.mutable.MutableBase._listen_on_attribute (set_, pickle, unpickle)",
        "orm.attributes.flag_modified", "orm.state.InstanceState.{_modified_event,_commit_all}",
        "inherited, not overridden mutators: list.__imul__, dict.__ior__",
    ],
    "bounds": {
        "quick": {"list": "every list of length <= 3 over {0,1,2}; index -4..4; slice bounds None,-2..2; steps None,2,-1",
                  "dict": "keys k0..k2, values 0..1, both insertion orders", "set": "all subsets of {0,1,2}, operands set/frozenset/list",
                  "histories": "2 steps over the reduced alphabet from 2 initial contents per kind"},
        "thorough": {"list": "index -6..6, otherwise as quick", "histories": "additionally 3 steps over the minimal alphabet"},
    },
    "outside": [
        "flush / reload (DB value vs in-memory value), Session.merge, expire/refresh",
        "MutableComposite; mutation of values nested inside the container (documented as not tracked)",
        "in-place set operators with a non-set right operand (MutableSet accepts any iterable where set raises TypeError)",
        "a no-op that flags the parent (allowed by the property)",
        "mutating a value object after it was replaced on the parent",
        "set.pop() element choice (any member conforms)",
    ],
    "stubs": [],
    "assumptions": ["the parent object is transient (no Session): InstanceState.modified / committed_state / attribute "
                    "history are the in-memory observation of 'flagged modified'",
                    "reporting cap: after %d failing inputs with the same defect key in one slice, further failing inputs "
                    "with that key are abandoned (counted as precondition-unmet, never as passing)" % CAP],
}

KINDS = ["list", "dict", "set"]


def _opnames(kind):
    seen = []
    for s in _alphabet(kind, 2, 1):
        if s[0] not in seen:
            seen.append(s[0])
    return seen


def harnesses(tier: str) -> List[Harness]:
    q = tier == "quick"
    hs: List[Harness] = []
    hi = 4 if q else 6
    B = 120 if q else 900
    hs.append(Harness("step", h_step, [dict(kind=k, op=o, hi=hi) for k in KINDS for o in _opnames(k)], budget_s=B))
    hl = []
    for k in KINDS:
        n1 = len(_alphabet(k, 1, 2))
        chunk = (n1 + 1) // 2 if q else 8  # few slices in the quick tier: every failing slice costs forked replays
        for init_sel in (0, 1):
            hl += [dict(kind=k, level=1, nops=2, init_sel=init_sel, first_lo=lo, first_hi=min(lo + chunk, n1)) for lo in range(0, n1, chunk)]
        if not q:
            n0 = len(_alphabet(k, 0, 2))
            hl += [dict(kind=k, level=0, nops=3, init_sel=1, first_lo=lo, first_hi=min(lo + 2, n0)) for lo in range(0, n0, 2)]
    hs.append(Harness("hist", h_hist, hl, budget_s=B + 30))
    return hs


def decode(hname, args):
    c = args["code"]
    if hname == "step":
        init, step = t_step(args["kind"], args["op"], args["hi"])[c]
        return dict(init=init, steps=[list(step)])
    init, steps = t_hist(args["kind"], args["level"], args["nops"], args["init_sel"], args["first_lo"], args["first_hi"])[c]
    return dict(init=init, steps=[list(s) for s in steps])


def _diagnose(kind, d):
    doc = _setup(kind, d["init"])
    steps = tuple(tuple(s) for s in d["steps"])
    k, why = _history_run(kind, d["init"], steps, doc)
    alone = False
    if k > 0:
        # does the offending step fail in the same way on a freshly assigned value with the same contents?
        model = _mk_value(kind, d["init"])
        for (op, a, b, x) in steps[:k]:
            model, _ = _model_step(kind, model, op, a, b, x)
        if model is not None:
            init2 = _snap(kind, model)
            k2, why2 = _history_run(kind, init2, (steps[k],), _setup(kind, init2))
            alone = (k2 == 0 and why2 == why)
    return k, why, alone


def classify(hname, args, rep):
    d = decode(hname, args)
    kind = args["kind"]
    exc = rep.get("exception")
    if exc:
        return ("C49:%s:harness-exception" % hname, "%s raised %s on %s %s" % (hname, exc, args, d))
    k, why, alone = _diagnose(kind, d)
    if k < 0:
        return ("C49:%s:not-reproduced" % hname, "%s %s" % (args, d))
    op = d["steps"][k][0]
    cls = MCLS[kind].__name__
    prior = sorted(set(s[0] for s in d["steps"][:k] if s[0] in ("replace", "set_none", "pickle")))
    ctx = "" if (alone or not prior) else ":only-after-" + "+".join(prior)
    if why == "not-flagged":
        return ("C49:%s.%s:change-not-flagged%s" % (cls, op, ctx),
                "%s %s changes the value but the parent attribute is not flagged modified: init=%s steps=%s (step %d)"
                % (cls, op, d["init"], d["steps"], k))
    return ("C49:%s.%s:%s%s" % (cls, op, why, ctx), "%s %s differs from %s (%s): init=%s steps=%s (step %d)"
            % (cls, op, kind, why, d["init"], d["steps"], k))


def run(tier: str, seed: int):
    return framework.run_symx(PID, __name__, tier, seed, harnesses(tier), classify, META)
