#!/usr/bin/env python3
"""Regenerate MANIFEST.json from manifest_src.py (single source of truth for claimed checks)."""
import json, os, sys
sys.path.insert(0, os.path.dirname(os.path.abspath(__file__)))
import manifest_src as m
json.dump(m.build(), open(os.path.join(os.path.dirname(os.path.abspath(__file__)), "MANIFEST.json"), "w"), indent=1)
print("MANIFEST.json written:", len(m.build()["checks"]), "checks,", len(m.build()["not_applicable"]), "not applicable")
