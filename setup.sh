#!/bin/sh
# Build /verif/.venv: overlay on /venv (repo's environment) + crosshair-tool/z3 from the offline wheelhouse.
set -e
cd "$(dirname "$0")"
if [ -x .venv/bin/python ] && .venv/bin/python -c "import crosshair, z3, sqlalchemy" 2>/dev/null; then
  exit 0
fi
rm -rf .venv
/venv/bin/python -m venv .venv
SP=$(.venv/bin/python -c "import sysconfig; print(sysconfig.get_paths()['purelib'])")
printf '/venv/lib/python3.12/site-packages\n/repo/lib\n' > "$SP/verif_overlay.pth"
PIP_NO_INDEX=1 .venv/bin/python -m pip install -q --no-index --find-links /opt/veriftools/wheels crosshair-tool z3-solver jsonschema >/dev/null
.venv/bin/python -c "import crosshair, z3, sqlalchemy; print('verif venv ok', z3.get_version_string(), sqlalchemy.__file__)"
