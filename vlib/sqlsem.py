"""E2 `sqlsem` -- translation validation of emitted SQL against the expression tree with z3.

spec (constructor tree, JSON-able)  --build-->  (intended AST, SQLAlchemy element)
element --real compiler, real dialect--> SQL text --reference grammar (sqlparse)--> parsed AST
both ASTs --normalise--> z3 terms under one SQL value semantics (NULL flag + Int value, 3VL)
query: exists column/parameter values with  [[intended]] != [[parsed]] ?   unsat = equal for all values.
"""
from __future__ import annotations

import json
import sqlite3
from typing import Any, Dict, List, Optional, Tuple

import z3

from . import sqlparse
from .sqlparse import ParseError, strip_parens

# ----------------------------------------------------------------------------------------------
# specs -> (intended AST, SQLAlchemy element)

INT, BOOL, STR = "int", "bool", "str"


class Built:
    __slots__ = ("ast", "sa", "ty")

    def __init__(self, ast, sa, ty):
        self.ast, self.sa, self.ty = ast, sa, ty


def build(spec, dialect: str, coltypes: Dict[str, str]) -> Built:
    """spec: nested lists ["op", child...]; leaves ["col", name, ty] / ["lit", value, ty]."""
    import sqlalchemy as sa
    from sqlalchemy import sql

    op = spec[0]
    TY = {INT: sa.Integer, BOOL: sa.Boolean, STR: sa.String}
    if op == "col":
        _, name, ty = spec
        coltypes[name] = ty
        return Built(("col", name), sa.column(name, TY[ty]()), ty)
    if op == "lit":
        _, v, ty = spec
        if v is None:
            return Built(("lit", None), sa.null(), ty)
        if ty == BOOL:
            return Built(("lit", bool(v)), sa.true() if v else sa.false(), ty)
        return Built(("lit", v), sa.literal(v, TY[ty]()), ty)
    def is_spec(c):
        return isinstance(c, list) and c and isinstance(c[0], str)

    kids = [build(c, dialect, coltypes) for c in spec[1:] if is_spec(c)]
    extra = [c for c in spec[1:] if not is_spec(c)]
    a = kids[0] if kids else None
    b = kids[1] if len(kids) > 1 else None
    c = kids[2] if len(kids) > 2 else None

    def isnull(k):
        return k.ast == ("lit", None)

    if op == "neg":
        return Built(("neg", a.ast), -a.sa, INT)
    if op in ("add", "sub", "mul", "mod"):
        sym = {"add": "+", "sub": "-", "mul": "*", "mod": "%"}[op]
        e = {"add": lambda: a.sa + b.sa, "sub": lambda: a.sa - b.sa, "mul": lambda: a.sa * b.sa, "mod": lambda: a.sa % b.sa}[op]()
        return Built(("bin", sym, a.ast, b.ast), e, INT)
    if op == "truediv":
        # documented dialect rewrites of integer true division; only the *position* is validated
        if dialect == "sqlite":
            ast = ("bin", "/", a.ast, ("bin", "+", b.ast, ("lit", 0.0)))
        elif dialect == "postgresql":
            ast = ("bin", "/", a.ast, ("cast", b.ast, "NUMERIC"))
        else:
            ast = ("bin", "/", a.ast, b.ast)
        return Built(ast, a.sa / b.sa, INT)
    if op == "floordiv":
        ast = ("bin", "/", a.ast, b.ast)
        from sqlalchemy.sql import sqltypes

        both_int = a.sa.type._type_affinity is sqltypes.Integer and b.sa.type._type_affinity is sqltypes.Integer
        if dialect == "mysql" or not both_int:
            # documented: FLOOR() is applied unless the backend's "/" is integer division on integers
            ast = ("func", "floor", [ast])
        return Built(ast, a.sa // b.sa, INT)
    if op == "concat":
        return Built(("bin", "||", a.ast, b.ast), a.sa.concat(b.sa), STR)
    if op in ("eq", "ne", "lt", "le", "gt", "ge"):
        sym = {"eq": "=", "ne": "!=", "lt": "<", "le": "<=", "gt": ">", "ge": ">="}[op]
        e = {"eq": lambda: a.sa == b.sa, "ne": lambda: a.sa != b.sa, "lt": lambda: a.sa < b.sa,
             "le": lambda: a.sa <= b.sa, "gt": lambda: a.sa > b.sa, "ge": lambda: a.sa >= b.sa}[op]()
        if op in ("eq", "ne") and isnull(b):
            # documented coercion: ``col == None`` is IS NULL, ``col != None`` is IS NOT NULL
            return Built(("is_null", a.ast) if op == "eq" else ("not_null", a.ast), e, BOOL)
        return Built(("cmp", sym, a.ast, b.ast), e, BOOL)
    if op == "is_null":
        return Built(("is_null", a.ast), a.sa.is_(None), BOOL)
    if op == "is_not_null":
        return Built(("not_null", a.ast), a.sa.is_not(None), BOOL)
    if op == "is_true":
        return Built(("nsafe_eq", a.ast, ("lit", True)), a.sa.is_(sa.true()), BOOL)
    if op == "is_false":
        return Built(("nsafe_eq", a.ast, ("lit", False)), a.sa.is_(sa.false()), BOOL)
    if op == "distinct":
        return Built(("nsafe_ne", a.ast, b.ast), a.sa.is_distinct_from(b.sa), BOOL)
    if op == "not_distinct":
        return Built(("nsafe_eq", a.ast, b.ast), a.sa.is_not_distinct_from(b.sa), BOOL)
    if op == "like":
        return Built(("like", a.ast, b.ast, None, False, "LIKE"), a.sa.like(b.sa), BOOL)
    if op == "not_like":
        return Built(("like", a.ast, b.ast, None, True, "LIKE"), a.sa.not_like(b.sa), BOOL)
    if op == "like_escq":
        # escape character that is itself the string-literal delimiter
        return Built(("like", a.ast, b.ast, ("lit", "'"), False, "LIKE"), a.sa.like(b.sa, escape="'"), BOOL)
    if op == "not_like_escq":
        return Built(("like", a.ast, b.ast, ("lit", "'"), True, "LIKE"), a.sa.not_like(b.sa, escape="'"), BOOL)
    if op == "not_like_esc":
        return Built(("like", a.ast, b.ast, ("lit", "/"), True, "LIKE"), a.sa.not_like(b.sa, escape="/"), BOOL)
    if op == "like_esc":
        return Built(("like", a.ast, b.ast, ("lit", "/"), False, "LIKE"), a.sa.like(b.sa, escape="/"), BOOL)
    if op in ("in_list", "not_in_list"):
        values = spec[2]["v"]
        ity = a.ty if a.ty in TY else INT
        ast = ("in", a.ast, [("lit", v) for v in values], op == "not_in_list")
        e = a.sa.in_(values) if op == "in_list" else a.sa.not_in(values)
        return Built(ast, e, BOOL)
    if op in ("tin_list", "not_tin_list"):
        # tuple IN: children = the tuple's elements, last positional = list of value rows
        rows = spec[-1]["rows"]
        elems = kids
        ast = ("in", ("row", [k.ast for k in elems]), [("row", [("lit", v) for v in r]) for r in rows], op == "not_tin_list")
        t = sa.tuple_(*[k.sa for k in elems])
        e = t.in_([tuple(r) for r in rows]) if op == "tin_list" else t.not_in([tuple(r) for r in rows])
        return Built(ast, e, BOOL)
    if op == "in":
        items = kids[1:]
        return Built(("in", a.ast, [k.ast for k in items], False), a.sa.in_([k.sa for k in items]), BOOL)
    if op == "not_in":
        items = kids[1:]
        return Built(("in", a.ast, [k.ast for k in items], True), a.sa.not_in([k.sa for k in items]), BOOL)
    if op == "between":
        return Built(("between", a.ast, b.ast, c.ast, False), a.sa.between(b.sa, c.sa), BOOL)
    if op == "not_between":
        return Built(("between", a.ast, b.ast, c.ast, True), ~a.sa.between(b.sa, c.sa), BOOL)
    if op == "and":
        return Built(("and", a.ast, b.ast), sa.and_(a.sa, b.sa), BOOL)
    if op == "or":
        return Built(("or", a.ast, b.ast), sa.or_(a.sa, b.sa), BOOL)
    if op == "not":
        return Built(("not", a.ast), sa.not_(a.sa), BOOL)
    if op == "inv":
        return Built(("not", a.ast), ~a.sa, BOOL)
    if op == "case":
        return Built(("case", None, [(a.ast, b.ast)], c.ast), sa.case((a.sa, b.sa), else_=c.sa), b.ty)
    if op == "case_noelse":
        return Built(("case", None, [(a.ast, b.ast)], None), sa.case((a.sa, b.sa)), b.ty)
    if op == "cast_int":
        tyname = {"sqlite": "INTEGER", "postgresql": "INTEGER", "mysql": "SIGNED INTEGER"}[dialect]
        return Built(("cast", a.ast, tyname), sa.cast(a.sa, sa.Integer), INT)
    if op == "cast_str":
        tyname = {"sqlite": "VARCHAR", "postgresql": "VARCHAR", "mysql": "CHAR"}[dialect]
        return Built(("cast", a.ast, tyname), sa.cast(a.sa, sa.String), STR)
    if op == "func":
        name = extra[0]
        return Built(("func", name, [k.ast for k in kids]), getattr(sa.func, name)(*[k.sa for k in kids]), extra[1] if len(extra) > 1 else INT)
    if op == "bitand":
        return Built(("bin", "&", a.ast, b.ast), a.sa.op("&", precedence=None)(b.sa) if False else a.sa.bitwise_and(b.sa), INT)
    if op == "collate":
        return Built(("collate", a.ast, extra[0]), a.sa.collate(extra[0]), STR)
    raise ValueError("unknown spec op %r" % (op,))


# ----------------------------------------------------------------------------------------------
# normalisation of ASTs (applied to both sides)


def normalize(node, dialect: str):
    if isinstance(node, list):
        return [normalize(x, dialect) for x in node]
    if not isinstance(node, tuple):
        return node
    k = node[0]
    if k == "paren":
        return normalize(node[1], dialect)
    if k in ("col", "lit", "param", "subq", "exists"):
        if k == "lit" and isinstance(node[1], bool):
            return ("lit", 1 if node[1] else 0)
        return node
    if k == "bin":
        _, op, a, b = node
        a, b = normalize(a, dialect), normalize(b, dialect)
        if op == "||":
            return _flat("concat", [a, b])
        if op == "*":
            return _flat("mul", [a, b])
        return ("bin", op, a, b)
    if k == "func":
        _, name, args = node
        args = [normalize(x, dialect) for x in args]
        if name == "concat" and len(args) >= 2:
            return _flat("concat", args)
        return ("func", name, args)
    if k in ("and", "or"):
        return _flat(k, [normalize(node[1], dialect), normalize(node[2], dialect)] if len(node) == 3 and not isinstance(node[1], list) else normalize(node[1], dialect))
    if k == "typecast":
        if node[1][0] == "param":
            return node[1]  # typed bound parameter (``%(x)s::INTEGER``): restates the bind's own type
        return ("cast", normalize(node[1], dialect), node[2])
    if k == "cast":
        return ("cast", normalize(node[1], dialect), node[2])
    if k == "is_bool":
        _, a, val, neg = node
        a = normalize(a, dialect)
        if val is None:
            r = ("is_null", a)
            return ("not_null", a) if neg else r
        r = ("nsafe_ne" if neg else "nsafe_eq", a, ("lit", 1 if val else 0))
        return r
    if k == "case":
        _, operand, whens, else_ = node
        return ("case", normalize(operand, dialect) if operand is not None else None,
                [(normalize(c, dialect), normalize(v, dialect)) for c, v in whens],
                normalize(else_, dialect) if else_ is not None else None)
    if k == "in":
        _, a, items, neg = node
        if isinstance(items, tuple):
            return ("in", normalize(a, dialect), items, neg)
        return ("in", normalize(a, dialect), [normalize(x, dialect) for x in items], neg)
    if k == "like":
        _, a, b, esc, neg, kind = node
        return ("like", normalize(a, dialect), normalize(b, dialect), normalize(esc, dialect) if esc is not None else None, neg, kind)
    out = [k]
    for x in node[1:]:
        out.append(normalize(x, dialect) if isinstance(x, (tuple, list)) else x)
    return tuple(out)


def _flat(kind, items):
    out = []
    for it in items:
        if isinstance(it, tuple) and it[0] == kind:
            out.extend(it[1])
        else:
            out.append(it)
    return (kind, out)


# ----------------------------------------------------------------------------------------------
# z3 semantics


class Sem:
    def __init__(self, coltypes: Dict[str, str], symbolic_literals: Optional[set] = None):
        self.coltypes = coltypes
        self.cols: Dict[str, Tuple[Any, Any]] = {}
        self.ufs: Dict[str, Any] = {}
        self.consts: Dict[str, Any] = {}
        self.side: List[Any] = []
        self.symlits = symbolic_literals or set()
        self.unknown_cols: List[str] = []

    def uf(self, name, *sorts):
        key = name + "/" + str(len(sorts))
        if key not in self.ufs:
            self.ufs[key] = z3.Function(key, *sorts)
        return self.ufs[key]

    def const(self, name):
        if name not in self.consts:
            self.consts[name] = z3.Int(name)
        return self.consts[name]

    def col(self, name):
        if name not in self.cols:
            if name not in self.coltypes:
                self.unknown_cols.append(name)
            n, v = z3.Bool("null_" + name), z3.Int("v_" + name)
            if self.coltypes.get(name) == BOOL:
                self.side.append(z3.Or(v == 0, v == 1))
            self.cols[name] = (n, v)
        return self.cols[name]

    # three-valued helpers on (null, v)
    @staticmethod
    def T(x):
        return z3.And(z3.Not(x[0]), x[1] != 0)

    @staticmethod
    def F(x):
        return z3.And(z3.Not(x[0]), x[1] == 0)

    def b3(self, t, f):
        return (z3.And(z3.Not(t), z3.Not(f)), z3.If(t, z3.IntVal(1), z3.IntVal(0)))

    def and3(self, xs):
        t = z3.And([self.T(x) for x in xs]) if xs else z3.BoolVal(True)
        f = z3.Or([self.F(x) for x in xs]) if xs else z3.BoolVal(False)
        return self.b3(t, f)

    def or3(self, xs):
        t = z3.Or([self.T(x) for x in xs]) if xs else z3.BoolVal(False)
        f = z3.And([self.F(x) for x in xs]) if xs else z3.BoolVal(True)
        return self.b3(t, f)

    def not3(self, x):
        return self.b3(self.F(x), self.T(x))

    def eq3(self, a, b):
        n = z3.Or(a[0], b[0])
        return (n, z3.If(a[1] == b[1], z3.IntVal(1), z3.IntVal(0)))

    def roweq3(self, a_items, b_items):
        return self.and3([self.eq3(x, y) for x, y in zip(a_items, b_items)])

    def ev(self, node):
        k = node[0]
        if k == "col":
            return self.col(node[1])
        if k == "lit":
            v = node[1]
            if v is None:
                return (z3.BoolVal(True), z3.IntVal(0))
            if isinstance(v, bool):
                return (z3.BoolVal(False), z3.IntVal(1 if v else 0))
            if isinstance(v, int):
                if v in self.symlits:
                    return (z3.BoolVal(False), self.const("plit_%d" % v))
                return (z3.BoolVal(False), z3.IntVal(v))
            if isinstance(v, float):
                return (z3.BoolVal(False), self.const("float_%r" % v))
            if v in self.symlits:
                return (z3.BoolVal(False), self.const("plit_s_%s" % v))
            c = self.const("str_%s" % json.dumps(v))
            return (z3.BoolVal(False), c)
        if k == "param":
            return (z3.Bool("null_param_%s" % (node[1],)), self.const("param_%s" % (node[1],)))
        if k == "neg":
            a = self.ev(node[1])
            return (a[0], -a[1])
        if k == "bitnot":
            a = self.ev(node[1])
            return (a[0], self.uf("bitnot", z3.IntSort(), z3.IntSort())(a[1]))
        if k == "bin":
            _, op, x, y = node
            a, b = self.ev(x), self.ev(y)
            n = z3.Or(a[0], b[0])
            if op == "+":
                return (n, a[1] + b[1])
            if op == "-":
                return (n, a[1] - b[1])
            return (n, self.uf("bin_" + op, z3.IntSort(), z3.IntSort(), z3.IntSort())(a[1], b[1]))
        if k in ("mul", "concat"):
            xs = [self.ev(x) for x in node[1]]
            f = self.uf(k, z3.IntSort(), z3.IntSort(), z3.IntSort())
            acc = xs[-1][1]
            for x in reversed(xs[:-1]):
                acc = f(x[1], acc)
            return (z3.Or([x[0] for x in xs]), acc)
        if k == "cmp":
            _, op, x, y = node
            a, b = self.ev(x), self.ev(y)
            n = z3.Or(a[0], b[0])
            c = {"=": a[1] == b[1], "!=": a[1] != b[1], "<": a[1] < b[1], "<=": a[1] <= b[1],
                 ">": a[1] > b[1], ">=": a[1] >= b[1]}[op]
            return (n, z3.If(c, z3.IntVal(1), z3.IntVal(0)))
        if k in ("nsafe_eq", "nsafe_ne"):
            a, b = self.ev(node[1]), self.ev(node[2])
            same = z3.Or(z3.And(a[0], b[0]), z3.And(z3.Not(a[0]), z3.Not(b[0]), a[1] == b[1]))
            if k == "nsafe_ne":
                same = z3.Not(same)
            return (z3.BoolVal(False), z3.If(same, z3.IntVal(1), z3.IntVal(0)))
        if k == "is_null":
            a = self.ev(node[1])
            return (z3.BoolVal(False), z3.If(a[0], z3.IntVal(1), z3.IntVal(0)))
        if k == "not_null":
            a = self.ev(node[1])
            return (z3.BoolVal(False), z3.If(a[0], z3.IntVal(0), z3.IntVal(1)))
        if k == "like":
            _, x, y, esc, neg, kind = node
            a, b = self.ev(x), self.ev(y)
            if esc is None:
                p = self.uf("like_" + kind, z3.IntSort(), z3.IntSort(), z3.BoolSort())(a[1], b[1])
                n = z3.Or(a[0], b[0])
            else:
                e = self.ev(esc)
                p = self.uf("like3_" + kind, z3.IntSort(), z3.IntSort(), z3.IntSort(), z3.BoolSort())(a[1], b[1], e[1])
                n = z3.Or(a[0], b[0], e[0])
            if neg:
                p = z3.Not(p)
            return (n, z3.If(p, z3.IntVal(1), z3.IntVal(0)))
        if k == "in":
            _, x, items, neg = node
            if isinstance(items, tuple):  # opaque subquery
                a = self.ev(x) if x[0] != "row" else None
                key = "insubq_" + json.dumps(items[1])
                if a is None:
                    r = (z3.Bool(key + "_n"), z3.Int(key + "_v"))
                else:
                    r = (self.uf(key + "_n", z3.BoolSort(), z3.IntSort(), z3.BoolSort())(a[0], a[1]),
                         self.uf(key + "_v", z3.BoolSort(), z3.IntSort(), z3.IntSort())(a[0], a[1]))
                    self.side.append(z3.Or(r[1] == 0, r[1] == 1))
            elif x[0] == "row":
                ax = [self.ev(i) for i in x[1]]
                rows = []
                for it in items:
                    if it[0] != "row" or len(it[1]) != len(ax):
                        raise ParseError("tuple IN with non-row item")
                    rows.append(self.roweq3(ax, [self.ev(i) for i in it[1]]))
                r = self.or3(rows)
            else:
                a = self.ev(x)
                r = self.or3([self.eq3(a, self.ev(i)) for i in items])
            return self.not3(r) if neg else r
        if k == "between":
            _, x, lo, hi, neg = node
            a, l, h = self.ev(x), self.ev(lo), self.ev(hi)
            ge = (z3.Or(a[0], l[0]), z3.If(a[1] >= l[1], z3.IntVal(1), z3.IntVal(0)))
            le = (z3.Or(a[0], h[0]), z3.If(a[1] <= h[1], z3.IntVal(1), z3.IntVal(0)))
            r = self.and3([ge, le])
            return self.not3(r) if neg else r
        if k == "and":
            return self.and3([self.ev(x) for x in node[1]])
        if k == "or":
            return self.or3([self.ev(x) for x in node[1]])
        if k == "xor":
            a, b = self.ev(node[1]), self.ev(node[2])
            return (z3.Or(a[0], b[0]), z3.If((a[1] != 0) != (b[1] != 0), z3.IntVal(1), z3.IntVal(0)))
        if k == "not":
            return self.not3(self.ev(node[1]))
        if k == "case":
            _, operand, whens, else_ = node
            res = self.ev(else_) if else_ is not None else (z3.BoolVal(True), z3.IntVal(0))
            op_v = self.ev(operand) if operand is not None else None
            for cnd, val in reversed(whens):
                cv = self.ev(cnd)
                if op_v is not None:
                    cv = self.eq3(op_v, cv)
                t = self.T(cv)
                v = self.ev(val)
                res = (z3.If(t, v[0], res[0]), z3.If(t, v[1], res[1]))
            return res
        if k == "cast":
            a = self.ev(node[1])
            return (a[0], self.uf("cast_" + node[2], z3.IntSort(), z3.IntSort())(a[1]))
        if k == "collate":
            a = self.ev(node[1])
            return (a[0], self.uf("collate_" + str(node[2]).lower(), z3.IntSort(), z3.IntSort())(a[1]))
        if k == "func":
            _, name, args = node
            xs = [self.ev(x) for x in args]
            sorts = []
            vals = []
            for x in xs:
                sorts += [z3.BoolSort(), z3.IntSort()]
                vals += [x[0], x[1]]
            fn = self.uf("fn_" + name + "_n", *(sorts + [z3.BoolSort()]))
            fv = self.uf("fn_" + name + "_v", *(sorts + [z3.IntSort()]))
            if not xs:
                return (z3.Bool("fn0_" + name + "_n"), z3.Int("fn0_" + name + "_v"))
            return (fn(*vals), fv(*vals))
        if k == "row":
            raise ParseError("row value outside IN")
        if k in ("subq", "exists"):
            key = k + "_" + json.dumps(node[1])
            return (z3.Bool(key + "_n") if k == "subq" else z3.BoolVal(False), z3.Int(key + "_v"))
        raise ParseError("no semantics for node %r" % (k,))


def differ(sem: Sem, a_node, b_node):
    a, b = sem.ev(a_node), sem.ev(b_node)
    return z3.Or(a[0] != b[0], z3.And(z3.Not(a[0]), a[1] != b[1]))


def decide(intended, parsed, coltypes, symbolic_literals=None, timeout_ms=60000):
    """Returns (verdict, model_dict|None, solver_seconds). verdict in equal|differ|unknown."""
    import time

    sem = Sem(coltypes, symbolic_literals)
    q = differ(sem, intended, parsed)
    s = z3.Solver()
    s.set("timeout", timeout_ms)
    for c in sem.side:
        s.add(c)
    strs = [c for n, c in sem.consts.items() if n.startswith("str_")]
    if len(strs) > 1:
        s.add(z3.Distinct(*strs))
    s.add(q)
    t0 = time.perf_counter()
    r = s.check()
    dt = time.perf_counter() - t0
    if r == z3.unsat:
        return "equal", None, dt
    if r == z3.unknown:
        return "unknown", None, dt
    m = s.model()
    model = {}
    for name, (n, v) in sem.cols.items():
        isn = z3.is_true(m.eval(n, model_completion=True))
        model[name] = None if isn else m.eval(v, model_completion=True).as_long()
    lits = {}
    for name, c in sem.consts.items():
        if name.startswith("plit_"):
            lits[name] = m.eval(c, model_completion=True).as_long()
    return "differ", {"cols": model, "symbolic_literals": lits, "unknown_cols": sem.unknown_cols}, dt


# ----------------------------------------------------------------------------------------------
# printing an AST fully parenthesised (SQLite syntax) + execution on sqlite3


def render_full(node) -> str:
    k = node[0]
    if k == "col":
        return '"%s"' % node[1]
    if k == "lit":
        v = node[1]
        if v is None:
            return "NULL"
        if isinstance(v, bool):
            return "1" if v else "0"
        if isinstance(v, (int, float)):
            return "(%r)" % v
        return "'" + v.replace("'", "''") + "'"
    if k == "neg":
        return "(- %s)" % render_full(node[1])
    if k == "bin":
        return "(%s %s %s)" % (render_full(node[2]), node[1], render_full(node[3]))
    if k == "cmp":
        return "(%s %s %s)" % (render_full(node[2]), node[1], render_full(node[3]))
    if k == "nsafe_eq":
        return "(%s IS %s)" % (render_full(node[1]), render_full(node[2]))
    if k == "nsafe_ne":
        return "(%s IS NOT %s)" % (render_full(node[1]), render_full(node[2]))
    if k == "is_null":
        return "(%s IS NULL)" % render_full(node[1])
    if k == "not_null":
        return "(%s IS NOT NULL)" % render_full(node[1])
    if k == "like":
        _, a, b, esc, neg, kind = node
        s = "(%s %s%s %s" % (render_full(a), "NOT " if neg else "", kind, render_full(b))
        if esc is not None:
            s += " ESCAPE %s" % render_full(esc)
        return s + ")"
    if k == "in":
        _, a, items, neg = node
        return "(%s %sIN (%s))" % (render_full(a), "NOT " if neg else "", ", ".join(render_full(i) for i in items))
    if k == "between":
        _, a, lo, hi, neg = node
        return "(%s %sBETWEEN %s AND %s)" % (render_full(a), "NOT " if neg else "", render_full(lo), render_full(hi))
    if k in ("and", "or"):
        return "(%s %s %s)" % (render_full(node[1]), k.upper(), render_full(node[2]))
    if k == "not":
        return "(NOT %s)" % render_full(node[1])
    if k == "case":
        _, operand, whens, else_ = node
        s = "(CASE"
        if operand is not None:
            s += " " + render_full(operand)
        for c, v in whens:
            s += " WHEN %s THEN %s" % (render_full(c), render_full(v))
        if else_ is not None:
            s += " ELSE " + render_full(else_)
        return s + " END)"
    if k == "cast":
        return "CAST(%s AS %s)" % (render_full(node[1]), node[2])
    if k == "func":
        return "%s(%s)" % (node[1], ", ".join(render_full(a) for a in node[2]))
    if k == "collate":
        return "(%s COLLATE %s)" % (render_full(node[1]), node[2])
    if k == "row":
        return "(%s)" % ", ".join(render_full(i) for i in node[1])
    raise ValueError("cannot render %r" % (k,))


def collect_cols(node, out):
    if isinstance(node, list):
        for x in node:
            collect_cols(x, out)
    elif isinstance(node, tuple):
        if node and node[0] == "col":
            out.add(node[1])
        else:
            for x in node[1:]:
                if isinstance(x, (tuple, list)):
                    collect_cols(x, out)


def sqlite_eval(sql_exprs: List[str], coltypes: Dict[str, str], row: Dict[str, Any], params=()):
    """Evaluate each expression text on a one-row table holding ``row``; returns list of values or
    ('error', msg)."""
    conn = sqlite3.connect(":memory:")
    try:
        names = sorted(coltypes)
        if names:
            conn.execute("CREATE TABLE t (%s)" % ", ".join('"%s"' % n for n in names))
            conn.execute("INSERT INTO t VALUES (%s)" % ", ".join("?" for _ in names), [row.get(n) for n in names])
        out = []
        for e in sql_exprs:
            try:
                cur = conn.execute("SELECT %s%s" % (e, " FROM t" if names else ""), params)
                out.append(cur.fetchone()[0])
            except sqlite3.Error as ex:
                out.append(("error", str(ex)))
        return out
    finally:
        conn.close()


ADVERSARIAL = {
    INT: [None, 0, 1, -1, 2, 3, 7, -5],
    BOOL: [None, 0, 1],
    STR: [None, "", "a", "3", "%", "ab", "A"],
}
