"""Check orchestration shared by all properties: slice scheduling over worker processes,
mandatory concrete replay, known-findings matching, evidence writing, exit codes."""
from __future__ import annotations

import hashlib
import importlib
import json
import multiprocessing as mp
import os
import subprocess
import sys
import time
import traceback
from dataclasses import dataclass, field
from typing import Any, Callable, Dict, List, Optional

ROOT = os.path.dirname(os.path.dirname(os.path.abspath(__file__)))
NCPU = int(os.environ.get("VERIF_JOBS", "0")) or min(16, os.cpu_count() or 4)
EXIT_OK, EXIT_VIOLATION, EXIT_INCONCLUSIVE = 0, 1, 3
REPLAY_PER_KEY = 3


@dataclass
class Harness:
    """One E1 harness: ``fn`` (module-level function of the property module) explored once per
    entry of ``slices`` (concrete keyword arguments; the rest of fn's parameters are symbolic)."""

    name: str
    fn: Callable[..., Any]
    slices: List[Dict[str, Any]]
    budget_s: float = 20.0
    per_path_timeout: float = 10.0
    max_paths: int = 10**9
    what: str = ""


@dataclass
class Failure:
    """A counterexample that reproduced concretely against /repo."""

    property_id: str
    key: str  # normalised identity used by known_findings.json
    what: str  # one-line human description
    record: Dict[str, Any]  # replay record (written to replays/)
    replay_path: str = ""


@dataclass
class Outcome:
    property_id: str
    level: str = "other"
    failures: List[Failure] = field(default_factory=list)
    artifacts: List[Dict[str, Any]] = field(default_factory=list)
    coverage: Dict[str, Any] = field(default_factory=dict)
    assumptions: List[str] = field(default_factory=list)
    inconclusive: List[str] = field(default_factory=list)  # reasons forcing exit 3
    unexplored: List[str] = field(default_factory=list)  # slices for which the budget decided nothing (no exit code effect)


# --------------------------------------------------------------------------------------------
# E1 slice scheduling


def run_slices(mod_name: str, tier: str, seed: int, harnesses: List[Harness]) -> List[Dict[str, Any]]:
    """Run every (harness, slice) on a pool of persistent worker interpreters."""
    import queue
    import random
    import threading

    tasks = [(h.name, i) for h in harnesses for i in range(len(h.slices))]
    rnd = random.Random(seed)
    rnd.shuffle(tasks)  # the seed only permutes scheduling order of equal-budget slices
    budgets = {h.name: h.budget_s for h in harnesses}
    tasks.sort(key=lambda t: -budgets[t[0]])
    q: "queue.Queue" = queue.Queue()
    for t in tasks:
        q.put(t)
    results: List[Dict[str, Any]] = []
    lock = threading.Lock()
    py = os.path.join(ROOT, ".venv", "bin", "python")
    env = dict(os.environ)
    env["PYTHONHASHSEED"] = "0"
    nworkers = max(1, min(NCPU, len(tasks)))

    def crashed(hname, idx, why):
        h = {x.name: x for x in harnesses}[hname]
        return {"name": hname, "fixed": h.slices[idx], "error": why, "paths": 0, "ok": 0, "fail": 0,
                "ignored": 0, "unknown": 0, "nondeterministic": 0, "exhausted": False, "timed_out": False,
                "failures": [], "samples": [], "solver_queries": 0, "solver_time_s": 0.0, "wall_s": 0.0,
                "unknown_reasons": {}, "nontrivial": 0}

    def feeder():
        proc = None
        errf = None
        while True:
            try:
                hname, idx = q.get_nowait()
            except queue.Empty:
                break
            if proc is None or proc.poll() is not None:
                errf = open(os.devnull, "w") if not os.environ.get("VERIF_DEBUG") else None
                proc = subprocess.Popen([py, "-m", "vlib.worker", mod_name, tier], stdin=subprocess.PIPE,
                                        stdout=subprocess.PIPE, stderr=errf, text=True, cwd=ROOT, env=env)
                ready = proc.stdout.readline()
                if not ready.startswith("@@READY"):
                    with lock:
                        results.append(crashed(hname, idx, "worker failed to start: " + ready[:500]))
                    proc = None
                    continue
            try:
                proc.stdin.write(json.dumps({"h": hname, "i": idx}) + "\n")
                proc.stdin.flush()
                line = ""
                while True:
                    line = proc.stdout.readline()
                    if not line or line.startswith("@@"):
                        break
                if not line:
                    raise RuntimeError("worker died (exit %s)" % proc.poll())
                r = json.loads(line[2:])
            except Exception as e:  # noqa: BLE001
                r = crashed(hname, idx, "worker protocol failure: %r" % (e,))
                try:
                    proc.kill()
                except Exception:
                    pass
                proc = None
            with lock:
                results.append(r)
        if proc is not None:
            try:
                proc.stdin.close()
                proc.wait(timeout=10)
            except Exception:
                proc.kill()

    threads = [threading.Thread(target=feeder) for _ in range(nworkers)]
    for t in threads:
        t.start()
    for t in threads:
        t.join()
    return results


def run_chunks(mod_name: str, func: str, tier: str, nchunks: Optional[int] = None) -> List[Dict[str, Any]]:
    """Parallel map over fresh interpreters: module.func(tier, i, n) for i in range(n)."""
    n = nchunks or NCPU
    py = os.path.join(ROOT, ".venv", "bin", "python")
    env = dict(os.environ)
    env["PYTHONHASHSEED"] = "0"
    errf = None if os.environ.get("VERIF_DEBUG") else subprocess.DEVNULL
    procs = [subprocess.Popen([py, "-m", "vlib.chunkworker", mod_name, func, tier, str(i), str(n)],
                              stdout=subprocess.PIPE, stderr=errf, text=True, cwd=ROOT, env=env) for i in range(n)]
    out = []
    for i, p in enumerate(procs):
        so, _ = p.communicate()
        line = [l for l in so.splitlines() if l.startswith("@@")]
        if not line:
            out.append({"error": "chunk %d produced no result (exit %s)" % (i, p.returncode)})
        else:
            out.append(json.loads(line[-1][2:]))
    return out


# --------------------------------------------------------------------------------------------
# Replay


def replay_records(records: List[Dict[str, Any]], purepy: bool = True, timeout: float = 300) -> List[Dict[str, Any]]:
    """Run each record in a fresh interpreter *without CrossHair* against /repo."""
    if not records:
        return []
    py = os.path.join(ROOT, ".venv", "bin", "python")
    env = dict(os.environ)
    env["PYTHONHASHSEED"] = "0"
    env["VERIF_PUREPY"] = "1" if purepy else "0"
    p = subprocess.run(
        [py, "-m", "vlib.replay", "--batch"],
        input=json.dumps(records),
        capture_output=True,
        text=True,
        cwd=ROOT,
        env=env,
        timeout=timeout,
    )
    if p.returncode != 0:
        raise RuntimeError("replay process failed: " + p.stderr[-2000:])
    out = [json.loads(l) for l in p.stdout.splitlines() if l.startswith("{")]
    if len(out) != len(records):
        raise RuntimeError("replay produced %d results for %d records: %s" % (len(out), len(records), p.stderr[-2000:]))
    return out


def record_hash(rec: Dict[str, Any]) -> str:
    return hashlib.sha1(json.dumps(rec, sort_keys=True).encode()).hexdigest()[:12]


# --------------------------------------------------------------------------------------------
# Standard E1 run


def run_symx(
    property_id: str,
    mod_name: str,
    tier: str,
    seed: int,
    harnesses: List[Harness],
    classify: Callable[[str, Dict[str, Any], Dict[str, Any]], tuple],
    meta: Dict[str, Any],
) -> Outcome:
    """Explore all slices, replay failing paths concretely, classify reproduced failures.

    ``classify(harness_name, all_args, replay_result) -> (key, what)``.
    """
    t0 = time.time()
    results = run_slices(mod_name, tier, seed, harnesses)
    out = Outcome(property_id=property_id, level="other")
    by_h: Dict[str, Dict[str, Any]] = {}
    candidates: List[Dict[str, Any]] = []
    seen = set()
    for r in results:
        agg = by_h.setdefault(
            r["name"],
            dict(slices=0, paths=0, ok=0, fail=0, ignored=0, unknown=0, exhausted_slices=0,
                 timed_out_slices=0, solver_queries=0, solver_time_s=0.0, nontrivial=0,
                 unknown_reasons={}, errors=0, rechecked=0, recheck_disagreements=0),
        )
        agg["slices"] += 1
        for k in ("paths", "ok", "fail", "ignored", "unknown", "solver_queries", "nontrivial"):
            agg[k] += r[k]
        agg["rechecked"] += r.get("rechecked", 0)
        agg["recheck_disagreements"] += r.get("recheck_disagreements", 0)
        agg["solver_time_s"] = round(agg["solver_time_s"] + r["solver_time_s"], 3)
        agg["exhausted_slices"] += 1 if r["exhausted"] else 0
        agg["timed_out_slices"] += 1 if r["timed_out"] else 0
        for k, v in r["unknown_reasons"].items():
            agg["unknown_reasons"][k] = agg["unknown_reasons"].get(k, 0) + v
        if r.get("error"):
            agg["errors"] += 1
            out.inconclusive.append("slice crashed in %s %s: %s" % (r["name"], r["fixed"], r["error"][-600:]))
        # vacuity guard (reachability twin): a slice none of whose paths reaches the final
        # assertion would pass anything.
        if not r.get("error") and r["ok"] + r["fail"] == 0 and (r["timed_out"] or r["unknown"]):
            # not vacuity but budget: nothing was decided for this slice (oversubscribed machine); the slice is
            # not exhausted, so the verdict degrades to "bug-hunting only" and the slice is listed
            out.unexplored.append("%s %s paths=%d unknown=%d %s" % (r["name"], r["fixed"], r["paths"], r["unknown"], r["unknown_reasons"]))
        elif not r.get("error") and r["ok"] + r["fail"] == 0:
            out.inconclusive.append(
                "vacuous slice (no path reached the assertion): %s %s paths=%d ignored=%d unknown=%d %s"
                % (r["name"], r["fixed"], r["paths"], r["ignored"], r["unknown"], r["unknown_reasons"])
            )
        for f in r["failures"]:
            allargs = dict(r["fixed"])
            allargs.update(f["args"])
            rec = {
                "property": property_id, "engine": "symx", "module": mod_name, "harness": r["name"],
                "args": allargs, "tier": tier,
            }
            hsh = record_hash(rec)
            if hsh in seen:
                continue
            seen.add(hsh)
            rec["symbolic_exception"] = f.get("symbolic_exception")
            candidates.append(rec)
    # mandatory concrete replay against the pure-Python sources of the current tree.  A defect family
    # can make thousands of paths fail: candidates are grouped by their (pre-replay) classification key
    # and at most REPLAY_PER_KEY of each group are replayed -- every distinct key is still replayed.
    groups: Dict[str, List[Dict[str, Any]]] = {}
    for rec in candidates:
        try:
            prekey = classify(rec["harness"], rec["args"], {"holds": False, "exception": rec.get("symbolic_exception") or ""})[0]
        except Exception:  # noqa: BLE001
            prekey = "?" + rec["harness"]
        groups.setdefault(prekey, []).append(rec)
    not_replayed = sum(max(0, len(g) - REPLAY_PER_KEY) for g in groups.values())
    candidates = [r for g in groups.values() for r in g[:REPLAY_PER_KEY]]
    reps = replay_records(candidates, purepy=True, timeout=900) if candidates else []
    for rec, rep in zip(candidates, reps):
        if rep.get("holds", True):
            out.artifacts.append({"harness": rec["harness"], "args": rec["args"],
                                  "symbolic_exception": rec.get("symbolic_exception")})
            continue
        rec["observed"] = rep
        key, what = classify(rec["harness"], rec["args"], rep)
        out.failures.append(Failure(property_id, key, what, rec))
    samples = []
    for r in results:
        for s in r["samples"][:1]:
            if len(samples) < 12:
                samples.append({"harness": r["name"], "fixed": r["fixed"], "path_representative": s["args"], "verdict": "holds for every input on this path"})
    tot = lambda k: sum(a[k] for a in by_h.values())  # noqa: E731
    all_exh = all(a["exhausted_slices"] == a["slices"] for a in by_h.values()) and tot("unknown") == 0 and not out.artifacts
    verdict = (
        "holds-within-bounds (every slice's path tree exhausted, 0 unknown paths, 0 engine artifacts)"
        if all_exh
        else "no-counterexample, bug-hunting only (not every path tree exhausted within budget or some paths inconclusive)"
    )
    if out.failures:
        verdict = "counterexample(s) found and reproduced concretely"
    out.coverage = {
        "explanation": meta.get("explanation", "")
        + " Engine E1 (symx): the real functions are executed on CrossHair symbolic values; every"
          " branch adds a z3 constraint; a path verdict covers all inputs satisfying the path condition.",
        "verdict": verdict,
        "exhaustive": bool(all_exh),
        "evaluations": tot("paths"),
        "distinct_nontrivial": tot("nontrivial"),
        "rule": "one evaluation = one symbolic path (an equivalence class of inputs decided by z3); "
                "non-trivial = the path took >=1 solver-decided branch on a symbolic input; distinct = "
                "distinct realised representative inputs",
        "paths_ok": tot("ok"), "paths_failing": tot("fail"), "paths_precondition_unmet": tot("ignored"),
        "paths_unknown": tot("unknown"),
        "passing_paths_rechecked_concretely": tot("rechecked"),
        "engine_model_disagreements_found_by_recheck": tot("recheck_disagreements"),
        "solver_queries": tot("solver_queries"),
        "solver_time_s": round(sum(a["solver_time_s"] for a in by_h.values()), 2),
        "per_harness": by_h,
        "functions_encoded": meta.get("functions", []),
        "bounds": meta.get("bounds", {}).get(tier, meta.get("bounds", {})),
        "outside_bounds": meta.get("outside", []),
        "stubs": meta.get("stubs", []),
        "engine_artifacts": out.artifacts[:10],
        "engine_artifact_count": len(out.artifacts),
        "failing_paths_not_replayed_same_key": not_replayed,
        "samples": samples or [{"note": "no passing path recorded"}],
        "engine_wall_s": round(time.time() - t0, 2),
    }
    out.assumptions = list(meta.get("assumptions", []))
    return out


# --------------------------------------------------------------------------------------------
# Known findings + reporting


def load_known() -> List[Dict[str, Any]]:
    p = os.path.join(ROOT, "known_findings.json")
    if not os.path.exists(p):
        return []
    return json.load(open(p)).get("findings", [])


def finish(out: Outcome, tier: str, seed: int, wall0: float) -> int:
    """Write replays + evidence, print KNOWN-FINDING / VIOLATION lines, return exit code."""
    pid = out.property_id
    known = {k["key"]: k for k in load_known() if k["property"] == pid and k.get("status", "known") == "known"}
    # VERIF_OUT_DIR redirects evidence/replays (used when a check is run against a scratch copy of the
    # repository, e.g. a seeded mutant, so that the committed evidence of /repo itself is not clobbered)
    out_root = os.environ.get("VERIF_OUT_DIR") or ROOT
    os.makedirs(os.path.join(out_root, "replays"), exist_ok=True)
    os.makedirs(os.path.join(out_root, "evidence"), exist_ok=True)
    violations: List[Failure] = []
    known_seen: Dict[str, Failure] = {}
    for f in out.failures:
        if f.key in known:
            known_seen.setdefault(f.key, f)
        else:
            violations.append(f)
    lines = []
    for key, f in sorted(known_seen.items()):
        lines.append("KNOWN-FINDING: property=%s %s [%s]" % (pid, known[key]["what"], key))
    vio_keys = set()
    for f in violations:
        f.record["key"] = f.key
        f.record["what"] = f.what
        path = os.path.join(out_root, "replays", "%s-%s.json" % (pid, record_hash(f.record)))
        with open(path, "w") as fh:
            json.dump(f.record, fh, indent=1, sort_keys=True)
        f.replay_path = path
        if f.key in vio_keys or len(vio_keys) >= 12:
            continue  # one VIOLATION line per distinct failure key (all replays are still written)
        vio_keys.add(f.key)
        lines.append("VIOLATION property=%s replay=%s  # %s" % (pid, path, f.what))
    cov = dict(out.coverage)
    cov["known_findings_seen"] = sorted(known_seen)
    cov["violations_reported"] = [dict(key=f.key, what=f.what, replay=f.replay_path) for f in violations[:200]]
    if out.inconclusive:
        cov["inconclusive_reasons"] = out.inconclusive[:10]
    if out.unexplored:
        cov["slices_undecided_within_budget"] = out.unexplored[:50]
        cov["slices_undecided_within_budget_count"] = len(out.unexplored)
    ev = {
        "property_id": pid,
        "tier": tier,
        "seed": seed,
        "level": out.level,
        "coverage": cov,
        "assumptions": out.assumptions,
        "wall_s": round(time.time() - wall0, 2),
        "violations": len(violations),
    }
    with open(os.path.join(out_root, "evidence", pid + ".json"), "w") as fh:
        json.dump(ev, fh, indent=1, sort_keys=True, default=str)
    for l in lines:
        print(l)
    if violations:
        print("%s: %d violation(s), %d known finding(s) [%s, %.1fs]" % (pid, len(violations), len(known_seen), tier, time.time() - wall0))
        return EXIT_VIOLATION
    if out.inconclusive:
        for r in out.inconclusive[:10]:
            print("INCONCLUSIVE property=%s %s" % (pid, r))
        return EXIT_INCONCLUSIVE
    print("%s: ok -- %s [%s, %.1fs]" % (pid, cov.get("verdict", ""), tier, time.time() - wall0))
    return EXIT_OK
