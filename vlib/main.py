"""./vcheck driver."""
from __future__ import annotations

import argparse
import importlib
import os
import sys
import time

from . import purepy

purepy.install()  # before anything imports sqlalchemy

from . import framework  # noqa: E402


def main() -> int:
    ap = argparse.ArgumentParser()
    ap.add_argument("prop", nargs="?")
    ap.add_argument("--tier", default=os.environ.get("VERIF_TIER", "quick"), choices=["quick", "thorough"])
    ap.add_argument("--replay")
    a = ap.parse_args()
    if a.replay:
        from . import replay

        return replay.main([a.replay])
    seed = int(os.environ.get("VERIF_SEED", "0") or 0)
    t0 = time.time()
    try:
        mod = importlib.import_module("props." + a.prop)
        out = mod.run(a.tier, seed)
        return framework.finish(out, a.tier, seed, t0)
    except Exception:
        import traceback

        traceback.print_exc()
        print("INCONCLUSIVE property=%s harness error" % a.prop)
        return framework.EXIT_INCONCLUSIVE


if __name__ == "__main__":
    sys.exit(main())
